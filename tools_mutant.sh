#!/bin/bash
# usage: tools_mutant.sh <diff> <runner args...>  -- runs the prover on a scratch copy of /repo with the diff applied
set -e
P=$(realpath "$1")
D=$(mktemp -d /tmp/mrepo.XXXXXX)
cp -r /repo/src /repo/tests $D/ 2>/dev/null
( cd $D && patch -p1 -s < "$P" ) || { echo "PATCH FAILED"; rm -rf $D; exit 9; }
shift
VERIF_REPO=$D "$@"
rc=$?
rm -rf $D
exit $rc
