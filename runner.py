"""Runs verification tasks (functions under contract) in a process pool and collects verdicts."""
from __future__ import annotations

import json
import multiprocessing as mp
import os
import shutil
import sys
import time
import traceback

HERE = os.path.dirname(os.path.abspath(__file__))
sys.path.insert(0, HERE)

from pyvc import vc  # noqa: E402
from pyvc import solver as S  # noqa: E402

TASKS = []
OPTS = {}


def _run_one(idx):
    import threading

    sys.setrecursionlimit(200000)
    threading.stack_size(512 * 1024 * 1024)
    box = {}
    th = threading.Thread(target=lambda: box.setdefault("r", _run_one_inner(idx)))
    th.start()
    th.join()
    return box["r"]


def _run_one_inner(idx):
    task = TASKS[idx]
    from contracts.setup import make_interp

    outdir = os.path.join(OPTS["out"], f"t{idx}")
    os.makedirs(outdir, exist_ok=True)
    t0 = time.time()
    rec = {"task": task.name, "func": task.func, "config": task.config, "props": list(task.props), "stratum": getattr(task, "stratum", None), "bounded": getattr(task, "bounded", None), "results": [], "undecided": None,
           "paths": 0, "dead_paths": 0, "cover": [], "error": None}
    try:
        ctxs, undecided, oracle = vc.explore(task, make_interp, outdir, max_paths=OPTS.get("max_paths", 400))
        rec["paths"] = len(ctxs)
        rec["dead_paths"] = sum(1 for c in ctxs if getattr(c, "status", "") == "dead")
        rec["undecided"] = undecided
        rec["feas_calls"] = oracle.n
        results = vc.discharge(task, ctxs, outdir, timeout=OPTS["timeout"], order=OPTS["order"], want_all=OPTS.get("want_all", False))
        rec["results"] = [r.to_json() for r in results]
        for r, rj in zip(results, rec["results"]):
            if r.verdict != "unsat":
                rj["output"] = (r.output or "")[:3000]
        if OPTS.get("cover", True):
            rec["cover"] = vc.cover_checks(task, ctxs, outdir)
        rec["decisions"] = [[(w, y, d) for (w, y, d) in c.decision_log] for c in ctxs][:50]
    except Exception:
        rec["error"] = traceback.format_exc()
    rec["wall_s"] = round(time.time() - t0, 3)
    return rec


def run_tasks(tasks, out, timeout=10.0, order=S.DEFAULT_ORDER, jobs=16, want_all=False, cover=True, max_paths=400):
    global TASKS, OPTS
    TASKS = list(tasks)
    OPTS = {"out": out, "timeout": timeout, "order": order, "want_all": want_all, "cover": cover, "max_paths": max_paths}
    os.makedirs(out, exist_ok=True)
    if jobs <= 1 or len(TASKS) <= 1:
        return [_run_one(i) for i in range(len(TASKS))]
    ctx = mp.get_context("fork")
    with ctx.Pool(min(jobs, len(TASKS))) as pool:
        return pool.map(_run_one, range(len(TASKS)), chunksize=1)


def summarize(recs):
    tot = {"tasks": len(recs), "obligations": 0, "unsat": 0, "sat": 0, "unknown": 0, "undecided_tasks": 0, "errors": 0, "dead_cover": 0}
    for r in recs:
        if r["error"]:
            tot["errors"] += 1
        if r["undecided"]:
            tot["undecided_tasks"] += 1
        for x in r["results"]:
            tot["obligations"] += 1
            tot[x["verdict"] if x["verdict"] in ("unsat", "sat") else "unknown"] += 1
        tot["dead_cover"] += sum(1 for _, v in r.get("cover", []) if v == "unsat")
    return tot


if __name__ == "__main__":
    import argparse

    ap = argparse.ArgumentParser()
    ap.add_argument("--stratum", default="A")
    ap.add_argument("--filter", default="")
    ap.add_argument("--timeout", type=float, default=10.0)
    ap.add_argument("--jobs", type=int, default=16)
    ap.add_argument("--out", default=os.path.join(HERE, "out", "dev"))
    ap.add_argument("-v", action="store_true")
    a = ap.parse_args()
    tasks = []
    if "A" in a.stratum:
        from contracts import engines_tasks

        tasks += engines_tasks.all_tasks()
    if "B" in a.stratum:
        from contracts import blocks_tasks

        tasks += blocks_tasks.all_tasks()
    if a.filter:
        tasks = [t for t in tasks if a.filter in t.name]
    shutil.rmtree(a.out, ignore_errors=True)
    t0 = time.time()
    recs = run_tasks(tasks, a.out, timeout=a.timeout, jobs=a.jobs)
    print(json.dumps(summarize(recs)), f"wall={time.time()-t0:.1f}s")
    for r in recs:
        bad = [x for x in r["results"] if x["verdict"] != "unsat"]
        if r["error"] or r["undecided"] or bad or a.v:
            print("==", r["task"], f"paths={r['paths']} dead={r['dead_paths']} wall={r['wall_s']}")
            if r["error"]:
                print(r["error"])
            if r["undecided"]:
                print("  UNDECIDED:", r["undecided"])
            for x in (r["results"] if a.v else bad):
                print("  ", x["verdict"], x["id"], x["where"], x["solver"], x["time_s"], x.get("file"))
    json.dump(recs, open(os.path.join(a.out, "records.json"), "w"), indent=1, default=str)
