"""Independent reference implementation of one METANET step on the networkx graph of a
`Network`, written from /verif/specs/metanet.py (Hegyi 2004) and DESIGN Appendix A.

Pure floats; uses neither sym_metanet's engines nor any method of its blocks.  Topology is read
from `net.graph` (node attributes 'origin'/'destination', edge attribute 'link'); element kinds
and parameters come from `spec` (element -> dict, as produced by netgen from the recipe) or, when
no spec is given, from the objects' attributes.
"""
import math
import os
import sys

sys.path.insert(0, os.path.dirname(os.path.dirname(os.path.abspath(__file__))))
from specs import metanet as M  # noqa: E402

FLAGS = ("positive_init_speed", "positive_init_density", "positive_init_queue",
         "positive_next_speed", "positive_next_density", "positive_next_queue")


def derive_spec(net):
    """Element specs read from the objects (fallback when no recipe is available)."""
    spec = {}
    G = net.graph
    for u in G.nodes:
        for v in G.succ[u]:
            l = G.edges[u, v]["link"]
            spec[l] = dict(cat="link", key=l.name, N=l.N, lam=l.lam, L=l.L, rho_max=l.rho_max, rho_crit=l.rho_crit,
                           v_free=l.v_free, a=l.a, turnrate=l.turnrate, vsl=getattr(l, "vsl", None), alpha=getattr(l, "alpha", 0.0))
    for n, data in G.nodes.data():
        if "origin" in data:
            o = data["origin"]
            cls = [c.__name__ for c in type(o).__mro__]
            kind = ("simple" if "SimplifiedMeteredOnRamp" in cls else "ramp" if "MeteredOnRamp" in cls
                    else "main" if "MainstreamOrigin" in cls else "ideal")
            spec[o] = dict(cat="origin", key=o.name, kind=kind, C=getattr(o, "C", None), type=getattr(o, "flow_eq_type", None))
        if "destination" in data:
            d = data["destination"]
            kind = "congested" if type(d).__name__ == "CongestedDestination" else "free"
            spec[d] = dict(cat="dest", key=d.name, kind=kind)
    return spec


def _f(x):
    """first (only) entry of a scalar-like value as a float"""
    try:
        return float(x)
    except TypeError:
        return float(list(x)[0])


def _vec(x):
    try:
        return [float(y) for y in x]
    except TypeError:
        return [float(x)]


def reference_step(net, values, params, flags=None, spec=None):
    """One METANET step.

    values : {element: {var: array-like}}  (links: rho, v[, v_ctrl]; queued origins: w, d and
             v_ctrl | r | q; congested destinations: d)
    params : T, tau, eta, kappa and optionally delta, phi
    flags  : the six positive_init_*/positive_next_* booleans (default all False)

    Returns a dict with
      next      {element: {"rho": [..], "v": [..]} | {"w": float}}
      v_cands   {link: [per segment list of admissible next speeds]}  (more than one where Hegyi
                is silent: lane gain, metered ramp at a pure source node; the first is `next`)
      q         {link: [segment flows]},  q_o {origin: flow},  inflow {link: flow into segment 0}
      singular  [descriptions of 0/0 situations of the model met in this step]
      kf        True if a mainstream origin is in the region 0 < v_lim/v_free < 0.05
    """
    flags = dict(flags or {})
    spec = spec or derive_spec(net)
    G = net.graph
    T, tau, eta, kappa = (float(params[k]) for k in ("T", "tau", "eta", "kappa"))
    delta, phi = params.get("delta"), params.get("phi")
    c0 = M.clamp0

    edges = [(u, v, G.edges[u, v]["link"]) for u in G.nodes for v in G.succ[u]]
    up = {l: u for u, _, l in edges}
    down = {l: v for _, v, l in edges}
    ins = {n: [G.edges[u, n]["link"] for u in G.pred[n]] for n in G.nodes}
    outs = {n: [G.edges[n, v]["link"] for v in G.succ[n]] for n in G.nodes}
    orig = {n: d["origin"] for n, d in G.nodes.data() if "origin" in d}
    dest = {n: d["destination"] for n, d in G.nodes.data() if "destination" in d}

    # ---- initial values (with the positive_init_* clamps) --------------------------------
    rho, v, vctrl = {}, {}, {}
    for _, _, l in edges:
        r, s = _vec(values[l]["rho"]), _vec(values[l]["v"])
        if flags.get("positive_init_density"):
            r = [c0(x) for x in r]
        if flags.get("positive_init_speed"):
            s = [c0(x) for x in s]
        rho[l], v[l] = r, s
        if spec[l].get("vsl") is not None:
            vctrl[l] = _vec(values[l]["v_ctrl"]) if len(spec[l]["vsl"]) else []
    w = {}
    for o in orig.values():
        if spec[o]["kind"] != "ideal":
            x = _f(values[o]["w"])
            w[o] = c0(x) if flags.get("positive_init_queue") else x

    # ---- flows ----------------------------------------------------------------------------
    q = {l: [M.flow(rho[l][i], v[l][i], spec[l]["lam"]) for i in range(spec[l]["N"])] for _, _, l in edges}
    singular, kf = [], False
    q_o = {}
    for n, o in orig.items():
        so = spec[o]
        m = outs[n][0]
        sm_ = spec[m]
        if so["kind"] == "ideal":
            q_o[o] = q[m][0]
        elif so["kind"] == "main":
            vc = _f(values[o]["v_ctrl"])
            d = _f(values[o]["d"])
            ratio = min(vc, v[m][0]) / sm_["v_free"]
            if 0 < ratio < 0.05:
                kf = True
            q_o[o] = M.mainstream_flow_guarded(d, w[o], vc, v[m][0], sm_["rho_crit"], sm_["a"], sm_["v_free"], sm_["lam"], T)
        elif so["kind"] == "ramp":
            fn = M.ramp_flow_in if so["type"] == "in" else M.ramp_flow_out
            q_o[o] = fn(_f(values[o]["d"]), w[o], so["C"], _f(values[o]["r"]), sm_["rho_max"], rho[m][0], sm_["rho_crit"], T)
        else:  # simplified ramp
            if so["type"] == "unlimited":
                q_o[o] = _f(values[o]["q"])
            else:
                q_o[o] = M.simplified_ramp_flow(_f(values[o]["q"]), _f(values[o]["d"]), w[o], so["C"], sm_["rho_max"],
                                                rho[m][0], sm_["rho_crit"], T)

    # ---- node rules -----------------------------------------------------------------------
    def upstream_speed(n, m):
        e = ins[n]
        if not e:
            return v[m][0]
        if len(e) == 1:
            return v[e[0]][-1]
        sq = sum(q[x][-1] for x in e)
        if sq == 0:
            singular.append(f"merge with zero total entering flow at node {n}")
            return math.nan
        return M.upstream_speed_weighted(sum(v[x][-1] * q[x][-1] for x in e), sq)

    def downstream_density(n, m):
        if n in dest:
            d = dest[n]
            if spec[d]["kind"] == "congested":
                return M.dest_congested(rho[m][-1], _f(values[d]["d"]), spec[m]["rho_crit"])
            return M.dest_free(rho[m][-1], spec[m]["rho_crit"])
        e = outs[n]
        if len(e) == 1:
            return rho[e[0]][0]
        s = sum(rho[x][0] for x in e)
        if s == 0:
            singular.append(f"bifurcation with zero total first-segment density at node {n}")
            return math.nan
        return M.downstream_density_weighted(sum(rho[x][0] ** 2 for x in e), s)

    nxt, v_cands, inflow = {}, {}, {}
    for _, _, m in edges:
        s = spec[m]
        N, lam, L = s["N"], s["lam"], s["L"]
        n_up, n_dn = up[m], down[m]
        Q = sum(q[x][-1] for x in ins[n_up]) + (q_o[orig[n_up]] if n_up in orig else 0.0)
        q_in = M.inflow_share(s["turnrate"], sum(spec[x]["turnrate"] for x in outs[n_up]), Q)
        inflow[m] = q_in
        v_up0 = upstream_speed(n_up, m)
        rho_dn = downstream_density(n_dn, m)
        rho_next, cands = [], []
        for i in range(N):
            rho_next.append(M.next_density(rho[m][i], q[m][i], q_in if i == 0 else q[m][i - 1], lam, L, T))
            if s.get("vsl") is not None and i in s["vsl"]:
                V = M.veq_vsl(rho[m][i], vctrl[m][s["vsl"].index(i)], s["alpha"], s["v_free"], s["rho_crit"], s["a"])
            else:
                V = M.veq(rho[m][i], s["v_free"], s["rho_crit"], s["a"])
            base = M.next_speed(v[m][i], v_up0 if i == 0 else v[m][i - 1], rho[m][i], rho_dn if i == N - 1 else rho[m][i + 1],
                                V, L, tau, eta, kappa, T)
            first, alts1 = 0.0, [0.0]
            if i == 0 and delta is not None and n_up in orig and spec[orig[n_up]]["kind"] in ("ramp", "simple"):
                term = M.merge_term(delta, T, q_o[orig[n_up]], v[m][0], L, lam, rho[m][0], kappa)
                if ins[n_up]:
                    first, alts1 = term, [term]
                else:  # metered ramp at a pure source node: Hegyi gives no rule, either is admissible
                    first, alts1 = 0.0, [0.0, term]
            last, alts2 = 0.0, [0.0]
            if i == N - 1 and phi is not None and n_dn not in dest and len(outs[n_dn]) == 1:
                dlam = lam - spec[outs[n_dn][0]]["lam"]
                if dlam != 0:
                    term = M.lanedrop_term(phi, T, dlam, rho[m][i], v[m][i], L, lam, s["rho_crit"])
                    if dlam > 0:
                        last, alts2 = term, [term]
                    else:  # lane gain: Hegyi is silent, both admissible (library's choice first)
                        last, alts2 = term, [term, 0.0]
            c = [base - first - last] + [base - a1 - a2 for a1 in alts1 for a2 in alts2]
            cands.append(c)
        if flags.get("positive_next_density"):
            rho_next = [c0(x) for x in rho_next]
        if flags.get("positive_next_speed"):
            cands = [[c0(x) for x in c] for c in cands]
        nxt[m] = {"rho": rho_next, "v": [c[0] for c in cands]}
        v_cands[m] = cands
    for n, o in orig.items():
        if spec[o]["kind"] != "ideal":
            wn = M.queue_next(w[o], _f(values[o]["d"]), q_o[o], T)
            nxt[o] = {"w": c0(wn) if flags.get("positive_next_queue") else wn}
    return dict(next=nxt, v_cands=v_cands, q=q, q_o=q_o, inflow=inflow, singular=singular, kf=kf, rho=rho, v=v, w=w)
