"""CLI of the bounded stand-in.

  run.py --property C07 --tier quick|thorough --seed 123 --out result.json
  run.py --replay result.json[:k]

Exit status: 0 the check ran (violations, if any, are in the result file); 3 internal crash;
replay: 1 if the recorded violation still fails, 0 if not.
"""
import argparse
import json
import os
import sys
import time
import traceback

HERE = os.path.dirname(os.path.abspath(__file__))
sys.path.insert(0, HERE)
sys.path.insert(0, os.path.dirname(HERE))

BUDGET = {"quick": 11.0, "thorough": 150.0}


def _json_default(o):
    try:
        import numpy as np
        if isinstance(o, np.generic):
            return o.item()
        if isinstance(o, np.ndarray):
            return o.tolist()
    except Exception:
        pass
    return repr(o)


def main(argv=None):
    ap = argparse.ArgumentParser()
    ap.add_argument("--property")
    ap.add_argument("--tier", default="quick", choices=sorted(BUDGET))
    ap.add_argument("--seed", type=int, default=1)
    ap.add_argument("--out")
    ap.add_argument("--replay")
    ap.add_argument("--budget", type=float, default=None, help="override the wall-clock budget (s)")
    a = ap.parse_args(argv)
    try:
        import warnings

        import numpy as np
        warnings.simplefilter("ignore")
        np.seterr(all="ignore")
        import props

        if a.replay:
            path, _, k = a.replay.partition(":")
            if k and not os.path.exists(path):  # a path containing ':' itself
                path, k = a.replay, ""
            res = json.load(open(path))
            viol = res["violations"][int(k or 0)]
            case = dict(viol["inputs"])
            if viol.get("recipe") is not None:
                case["recipe"] = viol["recipe"]
            r = props.EVAL[res["property"]](case)
            still = r.get("violations") or []
            for what, obs, exp in still[:5]:
                print(f"STILL FAILS [{res['property']}] {what}\n  observed: {obs}\n  expected: {exp}")
            if not still:
                print(f"[{res['property']}] recorded violation no longer fails")
            return 1 if still else 0

        t0 = time.time()
        budget = a.budget if a.budget is not None else BUDGET[a.tier]
        rng = np.random.default_rng(a.seed)
        np.random.seed(a.seed)  # the NumPy engine's 'rand' variables use the global generator
        res = props.CHECK[a.property](rng, budget)
        res.update(property=a.property, tier=a.tier, seed=a.seed, wall_s=round(time.time() - t0, 2),
                   bound=props.BOUND.get(a.property, res.get("rule", "")))
        text = json.dumps(res, indent=1, default=_json_default)
        if a.out:
            with open(a.out, "w") as f:
                f.write(text)
        print(f"{a.property} {a.tier} seed={a.seed}: evaluations={res['evaluations']} skipped={res['skipped']} "
              f"nontrivial={res['distinct_nontrivial']} violations={res.get('violations_total', len(res['violations']))} "
              f"wall={res['wall_s']}s")
        for v in res["violations"][:3]:
            print("  VIOLATION:", v["what"], "| observed:", str(v["observed"])[:200], "| expected:", str(v["expected"])[:200])
        return 0
    except SystemExit:
        raise
    except Exception:
        traceback.print_exc()
        return 3


if __name__ == "__main__":
    sys.exit(main())
