"""One check per property: check_C01(rng, budget) ... check_C19(rng, budget); see the modules."""
import props_num as _n
import props_rel as _r
import props_hist as _h
import props_step as _s
import props_struct as _t

CHECK, EVAL, BOUND = {}, {}, {}
for _m in (_s, _r, _n, _t, _h):
    for _n in dir(_m):
        if _n.startswith("check_C"):
            CHECK[_n[6:]] = getattr(_m, _n)
            globals()[_n] = getattr(_m, _n)
        elif _n.startswith("eval_C"):
            EVAL[_n[5:]] = getattr(_m, _n)
