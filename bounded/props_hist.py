"""Checks of C13 (engine selection / explicit engine honoured) and C19 (readiness of to_function)."""
import copy

import casadi as cs
import numpy as np

import sym_metanet as sm
from apihist import World, pool_from_recipe, script_to_api
from cases import recipes, topo_tags
from harness import (call, close, expected_inputs, jl, next_states, pack_args, run_cases, short_tb, unpack_outputs)
from netgen import (build_from_recipe, corner_networks, default_script, model_params, random_recipe, random_values, to_init)
from props_rel import graph_maps
from sym_metanet import engines
from sym_metanet.engines.casadi import Engine as CasadiEngine
from sym_metanet.engines.numpy import Engine as NumpyEngine
from sym_metanet.errors import EngineNotFoundError


# ---------------------------------------------------------------------------------------------
# C13
# ---------------------------------------------------------------------------------------------
class _Proxy:
    def __init__(self, target, log, group):
        self._t, self._log, self._g = target, log, group

    def __getattr__(self, name):
        f = getattr(self._t, name)

        def wrapped(*a, **k):
            self._log.append(f"{self._g}.{name}")
            return f(*a, **k)
        return wrapped


class RecordingEngine(NumpyEngine):
    """NumPy engine that records every call reaching it"""

    def __init__(self, tag):
        super().__init__(np.array(11.0))
        self.tag, self.log = tag, []

    nodes = property(lambda self: _Proxy(NumpyEngine.nodes.fget(self), self.log, "nodes"))
    links = property(lambda self: _Proxy(NumpyEngine.links.fget(self), self.log, "links"))
    origins = property(lambda self: _Proxy(NumpyEngine.origins.fget(self), self.log, "origins"))
    destinations = property(lambda self: _Proxy(NumpyEngine.destinations.fget(self), self.log, "destinations"))

    def var(self, *a, **k):
        self.log.append("var")
        return super().var(*a, **k)

    def vcat(self, *a):
        self.log.append("vcat")
        return super().vcat(*a)

    def max(self, a, b):
        self.log.append("max")
        return super().max(a, b)


def eval_C13(case):
    orig = engines.get_current_engine()
    viol, evals = [], 0
    try:
        insts = {"recA": RecordingEngine("A"), "recB": RecordingEngine("B"), "np": NumpyEngine(np.array(5.0)), "SX": CasadiEngine("SX"),
                 "MX": CasadiEngine("MX")}
        recs = [insts["recA"], insts["recB"]]
        classes = {"numpy": NumpyEngine, "casadi": CasadiEngine}
        b = build_from_recipe(case["recipe"])
        params = model_params(delta=True, phi=True)
        vals = case["vals"]

        def clear():
            for r in recs:
                r.log.clear()

        def kind_ok(eng, label):
            """all variables of the network were made/handled by `eng`"""
            for key, el in b.elements.items():
                for grp in (el.states, el.next_states, el.actions, el.disturbances):
                    for var, x in (grp or {}).items():
                        if isinstance(eng, CasadiEngine):
                            ok = isinstance(x, eng.sym_type)
                        else:
                            ok = isinstance(x, (np.ndarray, np.generic, float))
                        if not ok:
                            viol.append((f"{label}: {var} of {key} has type {type(x).__name__}, not a value of {eng!r}", type(x).__name__, repr(eng)))
                            return

        for i, act in enumerate(case["actions"]):
            evals += 1
            cur = engines.get_current_engine()
            label = f"action {i} {act}"
            if act[0] == "use_name":
                name = act[1]
                if name in classes:
                    e = engines.use(name, **({"sym_type": act[2]} if len(act) > 2 else {}))
                    if not isinstance(e, classes[name]):
                        viol.append((f"{label}: use returned {e!r}", repr(e), classes[name].__name__))
                    now = engines.get_current_engine()
                    if now is not e or sm.engine is not e or now is cur:
                        viol.append((f"{label}: current engine is not the newly selected one", repr(now), repr(e)))
                else:
                    try:
                        engines.use(name)
                        viol.append((f"{label}: unknown engine name accepted", "no error", "EngineNotFoundError"))
                    except EngineNotFoundError:
                        pass
                    except Exception as ex:  # noqa: BLE001
                        viol.append((f"{label}: raised {type(ex).__name__}", str(ex), "EngineNotFoundError"))
                    if engines.get_current_engine() is not cur or sm.engine is not cur:
                        viol.append((f"{label}: refused selection changed the current engine", repr(engines.get_current_engine()), repr(cur)))
            elif act[0] == "use_inst":
                e = engines.use(insts[act[1]])
                if e is not insts[act[1]] or engines.get_current_engine() is not e or sm.engine is not e:
                    viol.append((f"{label}: current engine is not the selected instance", repr(engines.get_current_engine()), repr(insts[act[1]])))
            elif act[0] == "step_default":
                clear()
                init = None if isinstance(cur, CasadiEngine) else to_init(b, vals)
                b.net.step(init_conditions=init, **params)
                if isinstance(cur, CasadiEngine):
                    kind_ok(cur, label)
                for r in recs:
                    if r is cur and not r.log:
                        viol.append((f"{label}: the selected engine was not used by a step without explicit engine", [], "calls"))
                    if r is not cur and r.log:
                        viol.append((f"{label}: engine {r.tag} (not selected) was used", sorted(set(r.log)), []))
                if engines.get_current_engine() is not cur:
                    viol.append((f"{label}: step changed the selection", repr(engines.get_current_engine()), repr(cur)))
            elif act[0] == "step_explicit":
                X = insts[act[1]]
                clear()
                init = None if isinstance(X, CasadiEngine) else to_init(b, vals)
                b.net.step(init_conditions=init, engine=X, **params)
                kind_ok(X, label)
                # element-level entry points with an explicit engine
                g = graph_maps(b)
                for key, l in b.links.items():
                    l.get_flow(engine=X)
                    g["up"][l].get_upstream_speed_and_flow(b.net, l, engine=X, T=params["T"])
                    g["down"][l].get_downstream_density(b.net, engine=X)
                    l.step_dynamics(net=b.net, engine=X, **params)
                for key, o in b.origins.items():
                    o.get_flow(b.net, T=params["T"], engine=X)
                    o.step_dynamics(net=b.net, engine=X, **params)
                for key, d in b.dests.items():
                    d.get_density(b.net, engine=X)
                if isinstance(X, CasadiEngine):
                    X.to_function(b.net, compact=int(i % 3), more_out=True, **params)
                for r in recs:
                    if r is X and not r.log:
                        viol.append((f"{label}: the explicit engine was not used", [], "calls"))
                    if r is not X and r.log:
                        viol.append((f"{label}: computations reached engine {r.tag} although {act[1]} was passed explicitly "
                                     f"(selected: {cur!r})", sorted(set(r.log)), []))
                if engines.get_current_engine() is not cur or sm.engine is not cur:
                    viol.append((f"{label}: explicit engine changed the selection", repr(engines.get_current_engine()), repr(cur)))
    finally:
        engines.use(orig)
    return dict(violations=viol[:10], evals=evals, tags=[":".join(map(str, a)) for a in case["actions"]] + list(topo_tags(b)))


def check_C13(rng, budget):
    sel = [["use_name", "numpy"], ["use_name", "casadi"], ["use_name", "casadi", "MX"], ["use_name", "bogus"], ["use_name", "Numpy"],
           ["use_name", ""], ["use_inst", "recA"], ["use_inst", "recB"], ["use_inst", "np"], ["use_inst", "SX"], ["use_inst", "MX"]]
    explicit = [["step_explicit", x] for x in ("recA", "recB", "np", "SX", "MX")]

    def gen():
        nets = recipes(rng, long_links=False)
        # every (selected, explicit) pair on every corner network, then random sequences
        for rec in corner_networks():
            b = build_from_recipe(rec)
            vals = random_values(rng, b, "interior")
            acts = []
            for s in sel:
                if s[1] in ("bogus", "Numpy", ""):
                    continue
                acts.append(s)
                acts += explicit + [["step_default"]]
            yield dict(recipe=rec, vals=vals, actions=acts, tag=rec.get("tag"))
        for s1 in sel:
            for s2 in sel:
                rec = corner_networks()[int(rng.integers(0, 8))]
                yield dict(recipe=rec, vals=random_values(rng, build_from_recipe(rec), "interior"),
                           actions=[s1, ["step_default"], s2, ["step_default"], ["step_explicit", "recB"]], tag="pairs")
        while True:
            rec = next(nets)
            b = build_from_recipe(rec)
            acts = []
            for _ in range(int(rng.integers(3, 10))):
                r = rng.random()
                acts.append(sel[int(rng.integers(0, len(sel)))] if r < 0.5 else explicit[int(rng.integers(0, 5))] if r < 0.8 else ["step_default"])
            yield dict(recipe=rec, vals=random_values(rng, b, "interior"), actions=acts, tag="random")
    return run_cases("sequences of engines.use(name | instance | unknown name) / get_current_engine / steps without and with explicit "
                     "engine over {numpy, casadi SX, casadi MX, two recording NumPy engines}: every ordered pair of selections, every "
                     "(selected, explicit) pair on every corner network (merges, ramps, all origin/destination kinds), random "
                     "sequences on random networks; recording engines wrap nodes/links/origins/destinations/var/vcat/max; element-"
                     "level entry points and to_function(more_out=True) included; selection restored afterwards", budget, gen(), eval_C13)


# ---------------------------------------------------------------------------------------------
# C19
# ---------------------------------------------------------------------------------------------
def psets():
    f = dict(positive_next_speed=False, positive_next_density=False, positive_next_queue=False)
    return [dict(model_params(delta=True, phi=True), **f),
            dict(model_params(delta=False, phi=True, T=8 / 3600, tau=20 / 3600, eta=50.0), **dict(f, positive_next_speed=True)),
            dict(model_params(delta=True, phi=False, kappa=35.0), **dict(f, positive_next_queue=True, positive_next_density=True))]


def _has_vars(spec):
    if spec["cat"] == "link":
        return True
    if spec["cat"] == "origin":
        return spec["kind"] != "ideal"
    return spec["kind"] == "congested"


def _has_states(spec):
    return spec["cat"] == "link" or (spec["cat"] == "origin" and spec["kind"] != "ideal")


def eval_C19(case):
    rec = case["recipe"]
    sym = case["sym"]
    T = getattr(cs, sym)
    eng = CasadiEngine(sym)
    P = psets()
    api = script_to_api(rec, [op for op in (rec.get("script") or default_script(rec)) if op[0] not in ("read", "valid", "elements", "step")])
    w = World(pool_from_recipe(rec, spare=False))
    b, net = w.b, w.net
    S = b.spec
    usyms = {}
    gen, stepped = {}, {}  # element -> generation id of its current variables; element -> (deps' generations, pset, time)
    counter = [0]
    clock = [0]
    t_topology = [0]
    built = [0]
    viol, evals = [], 0

    def in_net():
        G = net.graph
        els = [G.edges[u, v]["link"] for u, v in G.edges if "link" in G.edges[u, v]]
        els += [d["origin"] for _, d in G.nodes.data() if "origin" in d] + [d["destination"] for _, d in G.nodes.data() if "destination" in d]
        return els

    def deps(el, symbolic=True):
        """elements whose variables occur in el's next states (symbolic) / are read when stepping el"""
        g = graph_maps(b)
        if S[el]["cat"] == "link":
            nu, nd = g["up"][el], g["down"][el]
            d = [el] + g["ins"][nu] + ([g["orig"][nu]] if nu in g["orig"] else [])
            d += [g["dest"][nd]] if nd in g["dest"] else g["outs"][nd]
            return [x for x in d if _has_vars(S[x])]
        if symbolic and S[el]["kind"] == "simple" and S[el]["type"] == "unlimited":
            return [el]  # its flow is the commanded one: nothing of the link enters its queue update
        node = next(n for n, o in g["orig"].items() if o is el)
        return [el] + g["outs"][node]

    def fresh_gen(el):
        counter[0] += 1
        gen[el] = counter[0]

    def user_init(el):
        if el not in usyms:
            key = b.key[el]
            v = random_values(np.random.default_rng(0), b, "interior").get(key, {})
            usyms[el] = {n: T.sym(f"{n}_{key}_u", len(x)) for n, x in v.items()}
        return usyms[el]

    def mark_step(el, p):
        clock[0] += 1
        stepped[el] = ({d: gen.get(d) for d in deps(el)}, p, clock[0])

    for i, op in enumerate(case["history"]):
        k = op[0]
        if k == "build":
            for a in api[built[0]: built[0] + op[1]]:
                w.apply(a)
                clock[0] += 1
                t_topology[0] = clock[0]
            built[0] += op[1]
        elif k == "init":
            el = b.el(op[1])
            if op[2] == "user":
                el.init_vars(init_conditions=user_init(el), engine=eng)
                gen[el] = -1
            else:
                el.init_vars(engine=eng)
                fresh_gen(el)
        elif k == "step":
            if not (len(net.graph) and net.is_valid(raises=False)[0]):
                continue
            els = in_net()
            init = {el: user_init(el) for el in els if _has_vars(S[el])} if op[2] == "user" else None
            net.step(init_conditions=init, engine=eng, **P[op[1]])
            for el in els:
                if _has_vars(S[el]):
                    if op[2] == "user":
                        gen[el] = -1
                    else:
                        fresh_gen(el)
            for el in els:
                if _has_states(S[el]):
                    mark_step(el, op[1])
        elif k == "el_step":
            el = b.el(op[1])
            if el not in in_net() or not _has_states(S[el]) or not net.is_valid(raises=False)[0]:
                continue
            if any(gen.get(d) is None for d in deps(el, symbolic=False)):
                continue
            el.step(net=net, engine=eng, **P[op[2]])
            mark_step(el, op[2])
        elif k == "compile":
            evals += 1
            els = in_net()
            not_ready = [b.key[el] for el in els if _has_vars(S[el]) and gen.get(el) is None]
            not_ready += [b.key[el] for el in els if _has_states(S[el]) and el not in stepped]
            stale = [b.key[el] for el in els if el in stepped and any(gen.get(d) != g0 for d, g0 in stepped[el][0].items())]
            label = f"op {i} compile(compact={op[1]}, more_out={bool(op[2])})"
            if not not_ready and not (len(net.graph) and net.is_valid(raises=False)[0]):
                evals -= 1  # a ready but invalid network: outside the property (garbage in)
                continue
            try:
                kw = {k2: v for k2, v in P[0].items() if not k2.startswith("positive")}
                F = eng.to_function(net, compact=op[1], more_out=bool(op[2]), **kw)
            except RuntimeError as e:
                if not not_ready and not stale:
                    viol.append((f"{label}: RuntimeError although every element is initialised and stepped with its current variables",
                                 str(e)[:300], "a function"))
                continue
            except Exception as e:  # noqa: BLE001
                viol.append((f"{label}: raised {type(e).__name__}: {e}", short_tb(), "RuntimeError or a function"))
                continue
            if not_ready:
                viol.append((f"{label}: a function was returned although {not_ready} are uninitialised/unstepped", str(F), "RuntimeError"))
                continue
            if F.has_free():
                viol.append((f"{label}: returned function has free symbols", [str(s) for s in F.get_free()], []))
                continue
            if stale:
                viol.append((f"{label}: a function was returned although {stale} were re-initialised/changed after their last step", str(F), "RuntimeError"))
                continue
            # reflects the most recent step of every element: compare with a fresh network
            if all(stepped[el][2] > t_topology[0] for el in els if _has_states(S[el])):
                fresh = World(pool_from_recipe(rec, spare=False))
                for a in api[:built[0]]:
                    fresh.apply(a)
                fb = fresh.b
                vals = {k2: v for k2, v in case["vals"].items() if fb.el(k2) in set(
                    [fresh.net.graph.edges[e]["link"] for e in fresh.net.graph.edges] + [d.get("origin") for _, d in fresh.net.graph.nodes.data()]
                    + [d.get("destination") for _, d in fresh.net.graph.nodes.data()])}
                npe = NumpyEngine()
                fresh.net.step(init_conditions=to_init(fb, vals), engine=npe, **P[0])
                for el in els:
                    if _has_states(S[el]):
                        fb.el(b.key[el]).step(net=fresh.net, engine=npe, **P[stepped[el][1]])
                want = next_states(fb)
                got = unpack_outputs(b, call(F, pack_args(b, F, vals, op[1])), op[1])
                for kk in want:
                    if kk not in got or not close(got[kk], want[kk]):
                        viol.append((f"{label}: next {kk[1]} of {kk[0]} does not reflect the most recent step (parameter set "
                                     f"{stepped[b.el(kk[0])][1]})", jl(got.get(kk, [])), jl(want[kk])))
    return dict(violations=viol[:10], evals=evals, tags=[op[0] for op in case["history"]])


def check_C19(rng, budget):
    def staged(rec):
        n_ops = len([op for op in (rec.get("script") or default_script(rec)) if op[0] not in ("read", "valid", "elements", "step")])
        return n_ops

    def rand_history(rec, n_ops):
        b = build_from_recipe(rec)
        keys = [k for k, el in b.elements.items() if _has_vars(b.spec[el])]
        skeys = [k for k, el in b.elements.items() if _has_states(b.spec[el])]
        h, done = [], 0
        mode = "user" if rng.random() < 0.5 else "auto"
        first = int(rng.integers(1, n_ops + 1)) if rng.random() < 0.6 else n_ops
        h.append(["build", first])
        done = first
        for _ in range(int(rng.integers(2, 9))):
            r = rng.random()
            if r < 0.3:
                h.append(["step", int(rng.integers(0, 3)), mode if rng.random() < 0.8 else ("auto" if mode == "user" else "user")])
            elif r < 0.4 and done < n_ops:
                k = int(rng.integers(1, n_ops - done + 1))
                h.append(["build", k])
                done += k
            elif r < 0.55:
                h.append(["init", keys[int(rng.integers(0, len(keys)))], mode if rng.random() < 0.7 else "auto"])
            elif r < 0.7:
                h.append(["el_step", skeys[int(rng.integers(0, len(skeys)))], int(rng.integers(0, 3))])
            else:
                h.append(["compile", int(rng.integers(0, 3)), int(rng.random() < 0.3)])
        h.append(["compile", int(rng.integers(0, 3)), 0])
        return h

    def gen():
        i = 0
        for rec in recipes(rng, incremental=False, long_links=False):
            n_ops = staged(rec)
            b = build_from_recipe(rec)
            vals = random_values(rng, b, "interior")
            fixed = [[["build", n_ops], ["compile", 0, 0], ["step", 0, "auto"], ["compile", 0, 1], ["step", 1, "auto"], ["compile", 1, 0]],
                     [["build", n_ops], ["step", 0, "user"], ["compile", 2, 0], ["step", 1, "user"], ["compile", 0, 0], ["step", 2, "user"], ["compile", 1, 1]],
                     [["build", max(1, n_ops - 1)], ["step", 0, "auto"], ["compile", 0, 0], ["build", 1], ["compile", 0, 0], ["step", 1, "auto"], ["compile", 2, 0]]]
            hs = fixed if rec.get("tag") else []
            hs += [rand_history(rec, n_ops) for _ in range(3)]
            for h in hs:
                i += 1
                yield dict(recipe=rec, vals=vals, history=h, sym=["SX", "MX"][i % 2], tag=rec.get("tag", "random"))
    return run_cases("histories over corner and random networks (SX and MX): staged construction (elements added after a step), per-"
                     "element init_vars (engine-made or user symbols), whole-network steps with three parameter/option sets, per-"
                     "element steps, to_function at compact 0/1/2 (+more_out): RuntimeError iff some element with variables is "
                     "uninitialised, some element with states is unstepped, or variables were renewed after the last step of a "
                     "dependent element; a returned function has no free symbols and equals (numerically) a fresh network whose "
                     "elements were stepped once with their most recent parameter set", budget, gen(), eval_C19)
