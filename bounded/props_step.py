"""Checks of the step-level properties C01, C02, C03, C04, C05, C07 (network semantics,
conservation, compiled function, layout, extra outputs, totality)."""
import copy

import casadi as cs
import numpy as np

from cases import net_cases, params_of, topo_tags
from harness import (call, casadi_function, close, expected_inputs, expected_outputs, jl, next_states, numpy_step, pack_args,
                     ref_as_keys, run_cases, short_tb, unpack_outputs, var_layout)
from netgen import build_from_recipe, to_init
from reference import reference_step
from sym_metanet.engines.casadi import Engine as CasadiEngine
from sym_metanet.engines.numpy import Engine as NumpyEngine

FLAG_NAMES = ("positive_init_speed", "positive_init_density", "positive_init_queue",
              "positive_next_speed", "positive_next_density", "positive_next_queue")


def rand_flags(rng, p=0.5):
    return {k: bool(rng.random() < p) for k in FLAG_NAMES}


def _ref(b, vals, params, flags=None):
    return reference_step(b.net, to_init(b, vals), params, flags, spec=b.spec)


def _cmp_with_ref(b, got, ref, viol, label=""):
    """compares {(key,var): array} against the reference, honouring the admissible alternatives"""
    exp = ref_as_keys(b, ref)
    if set(got) != set(exp):
        viol.append((f"{label}set of next states differs", sorted(map(str, got)), sorted(map(str, exp))))
        return
    for (key, var), e in exp.items():
        g = got[(key, var)]
        if g.shape != e.shape:
            viol.append((f"{label}shape of {var}+ of {key}", list(g.shape), list(e.shape)))
            continue
        if var == "v":
            cands = ref["v_cands"][b.el(key)]
            bad = [i for i in range(len(e)) if not any(close(g[i], c) for c in cands[i])]
            if bad:
                viol.append((f"{label}next speed of {key}, segments {bad}", jl(g), jl(e)))
        elif not close(g, e):
            viol.append((f"{label}next {var} of {key}", jl(g), jl(e)))


# ---------------------------------------------------------------------------------------------
# C01  numpy step == reference (Hegyi) on every generated network
# ---------------------------------------------------------------------------------------------
def eval_C01(case):
    b = build_from_recipe(case["recipe"])
    params = params_of(case)
    ref = _ref(b, case["vals"], params)
    if ref["kf"] or ref["singular"]:
        return dict(evals=0, skipped=1)
    viol = []
    got = numpy_step(b, case["vals"], params, shape=case.get("shape", "1d"))
    _cmp_with_ref(b, got, ref, viol)
    return dict(violations=viol, tags=[f"{t}" for t in topo_tags(b)])


def check_C01(rng, budget):
    return run_cases("Network.step(NumPy) == independent reference step (specs/metanet.py) per element and segment, "
                     "rel/abs 1e-9; skipped: KF1 region of the mainstream origin and the model's 0/0",
                     budget, net_cases(rng, kinds=("interior", "boundary", "interior"), per_net=3, shapes=("1d", "0d", "float", "1d")),
                     eval_C01)


# ---------------------------------------------------------------------------------------------
# C02  vehicle conservation from the step's own inputs and outputs
# ---------------------------------------------------------------------------------------------
def balances(b, vals, nxt, T, q_o_reported=None):
    """node and network balances; returns list of violations"""
    G = b.net.graph
    S = b.spec
    viol = []
    qf, ql, inflow, veh_scale = {}, {}, {}, {}
    for key, l in b.links.items():
        s = S[l]
        rho, v = np.array(vals[key]["rho"]), np.array(vals[key]["v"])
        q = rho * v * s["lam"]
        qf[l], ql[l] = q[0], q[-1]
        cap = s["lam"] * s["L"] / T
        inflow[l] = (nxt[(key, "rho")][0] - rho[0]) * cap + q[0]
        veh_scale[l] = (abs(nxt[(key, "rho")][0]) + abs(rho[0])) * cap + abs(q[0])
    qo = {}
    for key, o in b.origins.items():
        if S[o]["kind"] == "ideal":
            continue
        w, d = vals[key]["w"][0], vals[key]["d"][0]
        qo[o] = d - (nxt[(key, "w")][0] - w) / T
    total_in = total_out = 0.0
    scale_tot = 0.0
    for n, data in G.nodes.data():
        ins = [G.edges[u, n]["link"] for u in G.pred[n]]
        outs = [G.edges[n, v]["link"] for v in G.succ[n]]
        o = data.get("origin")
        if outs:
            lhs = sum(inflow[m] for m in outs)
            scale = sum(veh_scale[m] for m in outs) + sum(abs(ql[m]) for m in ins)
            if o is not None and S[o]["kind"] == "ideal":
                q_origin = qf[outs[0]]  # flow admitted by an ideal origin = flow of its first segment
            elif o is not None:
                q_origin = qo[o]
                scale += abs(vals[b.key[o]]["d"][0]) + (abs(vals[b.key[o]]["w"][0]) + abs(nxt[(b.key[o], "w")][0])) / T
            else:
                q_origin = 0.0
            rhs = sum(ql[m] for m in ins) + q_origin
            if not close(lhs, rhs, scale=scale):
                viol.append((f"node balance at {n.name}: inflow of leaving links != entering last flows + origin flow",
                             float(lhs), float(rhs)))
            if o is not None and S[o]["kind"] == "ideal":
                total_in += q_origin
        if "destination" in data:
            total_out += sum(ql[m] for m in ins)
    before = after = 0.0
    for key, l in b.links.items():
        f = S[l]["lam"] * S[l]["L"]
        before += float(np.sum(vals[key]["rho"])) * f
        after += float(np.sum(nxt[(key, "rho")])) * f
        scale_tot += float(np.sum(np.abs(vals[key]["rho"])) + np.sum(np.abs(nxt[(key, "rho")]))) * f
    for key, o in b.origins.items():
        if S[o]["kind"] != "ideal":
            before += vals[key]["w"][0]
            after += nxt[(key, "w")][0]
            total_in += vals[key]["d"][0]
            scale_tot += abs(vals[key]["w"][0]) + abs(nxt[(key, "w")][0]) + T * abs(vals[key]["d"][0])
    scale_tot += T * (abs(total_in) + abs(total_out))
    if not close(after - before, T * (total_in - total_out), scale=scale_tot):
        viol.append(("network-wide vehicle balance", float(after - before), float(T * (total_in - total_out))))
    if q_o_reported is not None:
        for o, val in q_o_reported.items():
            if o in qo and not close(val, qo[o], scale=abs(vals[b.key[o]]["d"][0]) + abs(vals[b.key[o]]["w"][0]) / T):
                viol.append((f"reported flow of origin {b.key[o]} is not the one draining its queue", float(val), float(qo[o])))
    return viol


def eval_C02(case):
    b = build_from_recipe(case["recipe"])
    params = params_of(case)
    ref = _ref(b, case["vals"], params)
    if ref["singular"]:
        return dict(evals=0, skipped=1)
    nxt = numpy_step(b, case["vals"], params, shape=case.get("shape", "1d"))
    viol = balances(b, case["vals"], nxt, params["T"])
    evals = 1
    if case.get("casadi"):
        b2 = build_from_recipe(case["recipe"])
        F, _ = casadi_function(b2, params, sym=case["casadi"], compact=0, more_out=True)
        outs = call(F, pack_args(b2, F, case["vals"], 0))
        nx = unpack_outputs(b2, outs, 0)
        names = F.name_out()
        rep = {}
        for i, nm in enumerate(names):
            for key, o in b2.origins.items():
                if nm == f"q_o_{o.name}":
                    rep[o] = float(outs[i][0])
        viol += [("casadi: " + w, o, e) for w, o, e in balances(b2, case["vals"], nx, params["T"], rep)]
        evals += 1
    return dict(violations=viol, evals=evals, tags=list(topo_tags(b)))


def check_C02(rng, budget):
    def gen():
        for i, c in enumerate(net_cases(rng, kinds=("interior", "boundary"), per_net=2)):
            c["casadi"] = [None, "SX", None, "MX"][i % 4]
            yield c
    return run_cases("node flow balance at every node and network-wide vehicle balance, computed from the inputs and the next "
                     "states only (no clamps); tolerance 1e-9 relative to the magnitudes entering each difference",
                     budget, gen(), eval_C02)


# ---------------------------------------------------------------------------------------------
# C03  compiled CasADi function == numpy step
# ---------------------------------------------------------------------------------------------
def eval_C03(case):
    viol = []
    params = params_of(case)
    flags = case.get("flags")
    b = build_from_recipe(case["recipe"])
    if _ref(b, case["vals"], params, flags)["singular"]:  # 0/0: NaN is propagated differently by fmax/np.maximum
        return dict(evals=0, skipped=1)
    try:
        want = numpy_step(b, case["vals"], params, flags)
    except Exception as e:
        return dict(violations=[(f"numpy step raised {type(e).__name__}: {e}", short_tb(), "no exception")])
    evals = 0
    for sym, compact in case["variants"]:
        b2 = build_from_recipe(case["recipe"])
        F, _ = casadi_function(b2, params, sym=sym, compact=compact, flags=flags)
        got = unpack_outputs(b2, call(F, pack_args(b2, F, case["vals"], compact)), compact)
        evals += 1
        if set(got) != set(want):
            viol.append((f"{sym} compact={compact}: result blocks differ", sorted(map(str, got)), sorted(map(str, want))))
            continue
        for k in want:
            if not close(got[k], want[k]):
                viol.append((f"{sym} compact={compact}: next {k[1]} of {k[0]} differs from the NumPy step", jl(got[k]), jl(want[k])))
    return dict(violations=viol, evals=evals, tags=[f"{t}" for t in topo_tags(b)])


def _with_flags(rng, cases, p_flags=0.5, all_variants=False):
    allv = [(s, c) for s in ("SX", "MX") for c in (0, 1, 2)]
    for i, c in enumerate(cases):
        c["flags"] = rand_flags(rng) if (rng.random() < p_flags or c.get("tag") == "long") else None
        if all_variants or c.get("tag") != "random":
            c["variants"] = allv
        else:
            c["variants"] = [allv[i % 6], allv[(i * 5 + 3) % 6]]
        yield c


def check_C03(rng, budget):
    cases = net_cases(rng, kinds=("interior", "boundary"), per_net=1)
    return run_cases("casadi Function (SX and MX, compact 0/1/2, random positivity flags, delta/phi on/off) evaluated at numbers "
                     "== NumPy step from the same values, per element and segment", budget, _with_flags(rng, cases), eval_C03)


# ---------------------------------------------------------------------------------------------
# C04  argument / result layout
# ---------------------------------------------------------------------------------------------
def check_signature(b, F, compact, pnames=(), more_out=False, label=""):
    viol = []
    exp_in = [(n, s) for n, s, _ in expected_inputs(b, compact)]
    if pnames:
        exp_in += [(p, 1) for p in pnames] if compact <= 0 else [("p", len(pnames))]
    got_in = [(F.name_in(i), F.size1_in(i) * F.size2_in(i) if F.size1_in(i) else 0) for i in range(F.n_in())]
    if got_in != exp_in:
        viol.append((f"{label}arguments (name, size) differ from the documented layout", got_in, exp_in))
    exp_out = [(n, s) for n, s, _ in expected_outputs(b, compact)]
    got_out = [(F.name_out(i), F.size1_out(i) * F.size2_out(i)) for i in range(F.n_out())]
    if not more_out and got_out != exp_out:
        viol.append((f"{label}results (name, size) differ from the documented layout", got_out, exp_out))
    if more_out and got_out[:len(exp_out)] != exp_out:
        viol.append((f"{label}leading results (name, size) differ from the documented layout", got_out, exp_out))
    if F.has_free():
        viol.append((f"{label}function has free symbols", [str(s) for s in F.get_free()], []))
    return viol


def eval_C04(case):
    params = params_of(case)
    flags = case.get("flags")
    b = build_from_recipe(case["recipe"])
    want = numpy_step(b, case["vals"], params, flags)
    viol, evals = [], 0
    results = {}
    for sym, compact in case["variants"]:
        b2 = build_from_recipe(case["recipe"])
        label = f"{sym} compact={compact}: "
        more = bool(case.get("more_out"))
        F, _ = casadi_function(b2, params, sym=sym, compact=compact, flags=flags, more_out=more)
        evals += 1
        sv = check_signature(b2, F, compact, more_out=more, label=label)
        viol += sv
        if sv:
            continue
        lay = var_layout(b2)
        n_x = len(expected_outputs(b2, compact))
        # each result is the successor of the state argument in the same position
        ins = expected_inputs(b2, compact)
        outs = expected_outputs(b2, compact)
        for k in range(n_x):
            if [(b2.key[e[0]], e[1], e[2]) for e in ins[k][2]] != [(b2.key[e[0]], e[1], e[2]) for e in outs[k][2]]:
                viol.append((label + f"result {k} is not aligned with state argument {k}", outs[k][0], ins[k][0]))
        got = unpack_outputs(b2, call(F, pack_args(b2, F, case["vals"], compact)), compact)
        for k in want:
            if k not in got or not close(got[k], want[k]):
                viol.append((label + f"block {k[1]}+ of {k[0]} is not the successor of that element's state", jl(got.get(k, [])), jl(want[k])))
        results[(sym, compact)] = np.concatenate([got[(b2.key[e[0]], e[1])] for e in lay["x"]]) if lay["x"] else np.zeros(0)
    vals_ = list(results.values())
    for (k, r) in results.items():
        if not close(r, vals_[0]):
            viol.append((f"{k}: compactness levels / symbol types are not the same function up to concatenation", jl(r), jl(vals_[0])))
    return dict(violations=viol, evals=evals, tags=[f"{t}" for t in topo_tags(b)])


def check_C04(rng, budget):
    def gen():
        cases = net_cases(rng, kinds=("interior",), per_net=1)
        for i, c in enumerate(_with_flags(rng, cases, all_variants=False)):
            if c["tag"] == "random" and i % 3 == 0:
                c["variants"] = [(s, k) for s in ("SX", "MX") for k in (0, 1, 2)]
            c["more_out"] = bool(i % 2)
            yield c
    return run_cases("names/sizes/order of arguments and results == layout recomputed from net.graph (links in edge order, origins, "
                     "destinations; grouping by variable name; x,u,d); result k successor of state argument k (element-distinct "
                     "values vs NumPy per element); compact 0/1/2 and SX/MX equal up to concatenation; no free symbols",
                     budget, gen(), eval_C04)


# ---------------------------------------------------------------------------------------------
# C05  extra flow outputs
# ---------------------------------------------------------------------------------------------
def flow_outputs(b, F, outs, compact):
    """splits the extra outputs into ({link: flows}, {origin: flow}) using the documented layout"""
    from harness import element_order
    links, origins, _ = element_order(b)
    n_x = len(expected_outputs(b, compact))
    names = [F.name_out(i) for i in range(F.n_out())][n_x:]
    extra = outs[n_x:]
    sizes = [b.spec[l]["N"] for l in links]
    viol = []
    ql, qo = {}, {}
    if compact <= 0:
        exp_names = [f"q_{l.name}" for l in links] + [f"q_o_{o.name}" for o in origins]
        if names != exp_names:
            return None, None, [("names of the extra outputs", names, exp_names)]
        for l, x in zip(links, extra):
            ql[l] = x
        for o, x in zip(origins, extra[len(links):]):
            qo[o] = x
    else:
        exp_names = ["q", "q_o"] if compact == 1 else ["q"]
        if names != exp_names:
            return None, None, [("names of the extra outputs", names, exp_names)]
        flat = np.concatenate(extra) if extra else np.zeros(0)
        if flat.size != sum(sizes) + len(origins):
            return None, None, [("size of the extra outputs", int(flat.size), sum(sizes) + len(origins))]
        pos = 0
        for l, n in zip(links, sizes):
            ql[l] = flat[pos:pos + n]
            pos += n
        for o in origins:
            qo[o] = flat[pos:pos + 1]
            pos += 1
    for l, n in zip(links, sizes):
        if ql[l].size != n:
            viol.append((f"size of reported flow of {b.key[l]}", int(ql[l].size), n))
    return ql, qo, viol


def eval_C05(case):
    params = params_of(case)
    T = params["T"]
    viol, evals = [], 0
    for sym, compact in case["variants"]:
        b = build_from_recipe(case["recipe"])
        label = f"{sym} compact={compact}: "
        F, _ = casadi_function(b, params, sym=sym, compact=compact, flags=None, more_out=True)
        outs = call(F, pack_args(b, F, case["vals"], compact))
        evals += 1
        ql, qo, v0 = flow_outputs(b, F, outs, compact)
        viol += [(label + w, o, e) for w, o, e in v0]
        if ql is None:
            continue
        nxt = unpack_outputs(b, outs, compact)
        S, G = b.spec, b.net.graph
        vals = case["vals"]
        for key, l in b.links.items():
            exp = np.array(vals[key]["rho"]) * np.array(vals[key]["v"]) * S[l]["lam"]
            if not close(ql[l], exp):
                viol.append((label + f"reported flow of link {key} != rho*v*lanes of its input segments", jl(ql[l]), jl(exp)))
        for key, o in b.origins.items():
            q = float(qo[o][0])
            n = next(n for n, d in G.nodes.data() if d.get("origin") is o)
            m = G.edges[n, next(iter(G.succ[n]))]["link"]
            mk = b.key[m]
            sm_ = S[m]
            if S[o]["kind"] != "ideal":
                w, d = vals[key]["w"][0], vals[key]["d"][0]
                exp = w + T * (d - q)
                if not close(nxt[(key, "w")], [exp], scale=abs(w) + T * abs(d)):
                    viol.append((label + f"next queue of {key} != w + T(d - reported flow)", jl(nxt[(key, "w")]), [exp]))
            ent = [G.edges[u, n]["link"] for u in G.pred[n]]
            Q = sum(float(np.array(vals[b.key[x]]["rho"])[-1] * np.array(vals[b.key[x]]["v"])[-1] * S[x]["lam"]) for x in ent) + q
            q0 = vals[mk]["rho"][0] * vals[mk]["v"][0] * sm_["lam"]
            exp = vals[mk]["rho"][0] + T / (sm_["L"] * sm_["lam"]) * (Q - q0)
            if not close(nxt[(mk, "rho")][0], exp):
                viol.append((label + f"density balance of the first segment of {mk} does not use the reported flow of {key}",
                             float(nxt[(mk, "rho")][0]), float(exp)))
    return dict(violations=viol, evals=evals, tags=list(topo_tags(b)))


def check_C05(rng, budget):
    cases = net_cases(rng, kinds=("interior", "boundary"), per_net=1)
    return run_cases("to_function(more_out=True) at compact 0/1/2, SX/MX: reported link flows == rho*v*lanes of the input segments "
                     "(documented order); reported origin flow satisfies w+ = w + T(d - q_o) and the density balance of the fed link",
                     budget, _with_flags(rng, cases, p_flags=0.0), eval_C05)


# ---------------------------------------------------------------------------------------------
# C07  every accepted network can be stepped and compiled; outputs finite on boundary states
# ---------------------------------------------------------------------------------------------
def _finite_check(b, nxt, viol, label):
    for k, x in nxt.items():
        if not np.all(np.isfinite(x)):
            viol.append((label + f"non-finite next {k[1]} of {k[0]}", jl(x), "finite"))


def _shape_check(b, viol, label):
    for key, el in b.elements.items():
        if el.states:
            if el.next_states is None or set(el.next_states) != set(el.states):
                viol.append((label + f"next states of {key} missing", str(el.next_states), sorted(el.states)))
                continue
            for var, x in el.states.items():
                s0, s1 = getattr(x, "shape", None), getattr(el.next_states[var], "shape", None)
                if s0 is not None and s1 is not None and tuple(s0) != tuple(s1):
                    viol.append((label + f"shape of next {var} of {key}", list(s1), list(s0)))


def _eval_C07_history(case):
    """a network reached by an arbitrary construction history: if validation accepts it, it can be
    initialised and stepped on every engine and compiled (whatever the documented conditions say)"""
    from apihist import World
    from netgen import model_params

    params = model_params()
    viol, evals = [], 0
    for label, mk in (("numpy", lambda: NumpyEngine("rand")), ("casadi SX", lambda: CasadiEngine("SX")), ("casadi MX", lambda: CasadiEngine("MX"))):
        w = World(case["pool"])
        for op in case["history"]:
            if op[0] in ("read", "is_valid"):
                continue
            try:
                w.apply(op)
            except Exception:  # noqa: BLE001
                pass
        try:
            ok, _ = w.net.is_valid(raises=False)
        except Exception:  # noqa: BLE001
            return dict(violations=[], evals=0)
        if not ok:
            return dict(violations=[], evals=1, tags=["rejected"])
        evals += 1
        try:
            eng = mk()
            w.net.step(engine=eng, **params)
            if label != "numpy":
                eng.to_function(w.net, compact=evals % 3, **params)
        except Exception as e:  # noqa: BLE001
            viol.append((f"a network accepted by validation cannot be stepped/compiled ({label}): {type(e).__name__}: {e}", short_tb(), "no exception"))
    return dict(violations=viol[:6], evals=evals, tags=["accepted"])


def eval_C07(case):
    if "history" in case:
        return _eval_C07_history(case)
    params = params_of(case)
    flags = case.get("flags")
    viol, evals = [], 0
    b = build_from_recipe(case["recipe"])
    ok, msgs = b.net.is_valid(raises=False)
    if not ok:
        return dict(violations=[("generated network rejected by validation", msgs, [])])
    ref = _ref(b, case["vals"], params, flags)
    singular = bool(ref["singular"])

    def attempt(label, fn):
        nonlocal evals
        evals += 1
        try:
            return fn()
        except Exception as e:
            viol.append((label + f"raised {type(e).__name__}: {e}", short_tb(), "no exception"))
            return None

    # NumPy engine, user arrays (boundary values, all shapes of scalar variables)
    for shape in ("1d", "0d", "float"):
        bb = build_from_recipe(case["recipe"])
        nxt = attempt(f"numpy/user arrays ({shape}): ", lambda: numpy_step(bb, case["vals"], params, flags, shape=shape))
        if nxt is not None:
            _shape_check(bb, viol, f"numpy/user arrays ({shape}): ")
            if not singular:
                _finite_check(bb, nxt, viol, f"numpy/user arrays ({shape}): ")
    # NumPy engine, engine's own variables
    topo = topo_tags(b)
    for label, mk in (("rand", lambda: NumpyEngine("rand")), ("fill", lambda: NumpyEngine(np.array(case.get("fill", 7.5)))),
                      ("zeros", lambda: NumpyEngine(np.array(0.0)))):
        bb = build_from_recipe(case["recipe"])

        def own():
            bb.net.step(engine=mk(), **{k: bool(v) for k, v in (flags or {}).items()}, **params)
            return next_states(bb)
        nxt = attempt(f"numpy/own variables ({label}): ", own)
        if nxt is not None:
            _shape_check(bb, viol, f"numpy/own variables ({label}): ")
            if label != "zeros" or not ({"merge", "bifurcation"} & topo):
                _finite_check(bb, nxt, viol, f"numpy/own variables ({label}): ")
    # CasADi, both symbol types, all compactness levels
    for sym in ("SX", "MX"):
        for compact in case.get("compacts", (0, 1, 2)):
            bb = build_from_recipe(case["recipe"])

            def comp():
                F, _ = casadi_function(bb, params, sym=sym, compact=compact, flags=flags, more_out=bool(case.get("more_out")))
                _shape_check(bb, viol, f"casadi {sym}: ")
                return unpack_outputs(bb, call(F, pack_args(bb, F, case["vals"], compact)), compact)
            nxt = attempt(f"casadi {sym} compact={compact}: ", comp)
            if nxt is not None and not singular:
                _finite_check(bb, nxt, viol, f"casadi {sym} compact={compact}: ")
    return dict(violations=viol, evals=evals, tags=[f"{t}" for t in topo], skipped=int(singular))


def check_C07(rng, budget):
    from cases import recipes
    from props_struct import mutate_valid

    def one_off():
        """small networks that violate exactly one documented condition (rejected today): if a change of
        the validation lets one through, it must still be steppable"""
        from apihist import small_pool

        pool = small_pool()
        base = [["add_nodes", ["n0", "n1", "n2", "n3"]]]
        hs = {
            "(7) ramp with two exits": [["add_link", "n0", "L0", "n1"], ["add_link", "n1", "L1", "n2"], ["add_link", "n1", "L2", "n3"], ["add_origin", "M0", "n0"],
                                        ["add_origin", "R0", "n1"], ["add_destination", "D0", "n2"], ["add_destination", "D1", "n3"]],
            "(7) simple ramp with two exits": [["add_link", "n0", "L0", "n1"], ["add_link", "n1", "L1", "n2"], ["add_link", "n1", "L2", "n3"], ["add_origin", "I0", "n0"],
                                               ["add_origin", "S0", "n1"], ["add_destination", "D0", "n2"], ["add_destination", "D1", "n3"]],
            "(7) source with two exits": [["add_link", "n0", "L0", "n1"], ["add_link", "n0", "L1", "n2"], ["add_origin", "M0", "n0"], ["add_destination", "D0", "n1"],
                                          ["add_destination", "D1", "n2"], ["add_link", "n3", "L2", "n1"], ["add_origin", "I0", "n3"]],
            "(6) mainstream origin inside": [["add_link", "n0", "L0", "n1"], ["add_link", "n1", "L1", "n2"], ["add_origin", "I0", "n0"], ["add_origin", "M0", "n1"],
                                             ["add_destination", "D0", "n2"], ["add_link", "n3", "L2", "n1"], ["add_origin", "R0", "n3"]],
            "(8) destination with two entering links": [["add_link", "n0", "L0", "n2"], ["add_link", "n1", "L1", "n2"], ["add_origin", "M0", "n0"], ["add_origin", "I0", "n1"],
                                                        ["add_destination", "D1", "n2"], ["add_link", "n3", "L2", "n0"], ["add_origin", "R0", "n3"]],
            "(9) destination with an exit": [["add_link", "n0", "L0", "n1"], ["add_link", "n1", "L1", "n2"], ["add_origin", "M0", "n0"], ["add_destination", "D0", "n1"],
                                             ["add_destination", "D1", "n2"], ["add_link", "n3", "L2", "n0"], ["add_origin", "R0", "n3"]],
            "(2) origin and destination on one node": [["add_link", "n0", "L0", "n1"], ["add_origin", "M0", "n0"], ["add_destination", "D0", "n1"], ["add_origin", "R0", "n1"],
                                                       ["add_link", "n2", "L1", "n0"], ["add_origin", "I0", "n2"], ["add_link", "n3", "L2", "n0"], ["add_origin", "R1", "n3"]],
        }
        for tag, h in hs.items():
            yield dict(pool=pool, history=base + h, tag="one-condition-off " + tag)

    def gen():
        rec_stream = recipes(rng, incremental=True, long_links=False)
        yield from one_off()
        for i, c in enumerate(net_cases(rng, kinds=("boundary",), per_net=1, zero=True)):
            if i % 2 == 0:  # valid networks changed by a few further construction calls: stepped iff still accepted
                for _ in range(3):
                    yield mutate_valid(rng, next(rec_stream))
            c["flags"] = rand_flags(rng, 0.3) if i % 3 == 0 else None
            c["more_out"] = bool(i % 4 == 1)
            c["fill"] = float(rng.uniform(0.5, 60))
            if c["tag"] == "random":
                c["compacts"] = [(i + j) % 3 for j in range(2)]
            yield c
    return run_cases("every generated valid network (corner + random, incl. incrementally constructed ones): NumPy step with user "
                     "arrays ((1,), 0-d, float scalars) and with the engine's own variables ('rand', constant fill, zeros), CasADi "
                     "SX/MX step + to_function at compact 0/1/2 succeed; next-state shapes == state shapes; outputs finite on "
                     "boundary states (exact zeros) except in the two 0/0 singularities", budget, gen(), eval_C07)
