"""Runs every property check on the installed (unchanged) library for several seeds/tiers and lists
the violations (there must be none).  usage: baseline.py [--tiers quick,thorough] [--seeds 1,2,3] [--jobs 8]"""
import argparse
import json
import os
import subprocess
import sys
import tempfile
from concurrent.futures import ThreadPoolExecutor

HERE = os.path.dirname(os.path.abspath(__file__))


def one(job):
    prop, tier, seed, outdir = job
    out = os.path.join(outdir, f"{prop}_{tier}_{seed}.json")
    p = subprocess.run([sys.executable, os.path.join(HERE, "run.py"), "--property", prop, "--tier", tier, "--seed", str(seed), "--out", out],
                       capture_output=True, text=True)
    if p.returncode or not os.path.exists(out):
        return f"{prop} {tier} seed={seed}: CRASH exit={p.returncode} {p.stderr[-600:]}"
    r = json.load(open(out))
    line = (f"{prop} {tier:8s} seed={seed}: evals={r['evaluations']:<7d} skipped={r['skipped']:<5d} nontrivial={r['distinct_nontrivial']:<4d} "
            f"violations={r.get('violations_total', len(r['violations']))} wall={r['wall_s']}s")
    for v in r["violations"][:2]:
        line += f"\n    {v['what'][:200]} | {str(v['observed'])[:150]} | {str(v['expected'])[:150]}"
    return line


def main():
    ap = argparse.ArgumentParser()
    ap.add_argument("--tiers", default="quick")
    ap.add_argument("--seeds", default="1,2,3")
    ap.add_argument("--props", default=",".join(f"C{i:02d}" for i in range(1, 20)))
    ap.add_argument("--jobs", type=int, default=8)
    ap.add_argument("--outdir", default=None)
    a = ap.parse_args()
    outdir = a.outdir or tempfile.mkdtemp(prefix="bounded_base_")
    os.makedirs(outdir, exist_ok=True)
    jobs = [(p, t, int(s), outdir) for t in a.tiers.split(",") for s in a.seeds.split(",") for p in a.props.split(",")]
    with ThreadPoolExecutor(a.jobs) as ex:
        for line in ex.map(one, jobs):
            print(line, flush=True)
    print("results in", outdir)


if __name__ == "__main__":
    main()
