"""Checks of the structural properties C06 (validation), C08 (lookups), C09 (construction)."""
import copy
import itertools

import numpy as np

import sym_metanet as sm
from apihist import (MUTATORS, World, conditions, pool_from_recipe, read_and_compare, script_to_api, small_pool)
from cases import recipes
from harness import run_cases, short_tb
from netgen import LOOKUPS, default_script, random_script

ODD = ["!str", "!none", "!int", "!origin"]


# ---------------------------------------------------------------------------------------------
# random API histories over a pool
# ---------------------------------------------------------------------------------------------
def rand_op(rng, pool, p_bad_path=0.15):
    nodes = pool["nodes"]
    links = [l["key"] for l in pool["links"]]
    origins = [o["key"] for o in pool["origins"]]
    dests = [d["key"] for d in pool["dests"]]
    pick = lambda xs: xs[int(rng.integers(0, len(xs)))]  # noqa: E731
    k = pick(MUTATORS)
    if k == "add_node":
        return [k, pick(nodes)]
    if k == "add_nodes":
        return [k, [pick(nodes) for _ in range(int(rng.integers(0, 4)))]]
    if k == "add_link":
        return [k, pick(nodes), pick(links), pick(nodes)]
    if k == "add_links":
        return [k, [[pick(nodes), pick(links), pick(nodes)] for _ in range(int(rng.integers(0, 4)))]]
    if k == "add_origin":
        return [k, pick(origins), pick(nodes)]
    if k == "add_destination":
        return [k, pick(dests), pick(nodes)]
    n = int(rng.integers(1, 4))
    items = [pick(nodes)]
    for _ in range(n):
        items += [pick(links), pick(nodes)]
    if rng.random() < p_bad_path:
        r = rng.random()
        if r < 0.3:
            items = items[:-1]  # ends with a link
        elif r < 0.5:
            items = items[:1]  # single node
        elif r < 0.7:
            items[int(rng.integers(0, len(items)))] = pick(ODD + links + nodes)
        elif r < 0.85:
            items = items[1:]  # starts with a link
        else:
            items.insert(int(rng.integers(0, len(items))), pick(nodes + links))
    op = [k, items, pick(origins) if rng.random() < 0.5 else None, pick(dests) if rng.random() < 0.5 else None]
    if rng.random() < 0.3:
        op.append("iter")
    return op


def rand_read(rng):
    if rng.random() < 0.15:
        return ["read", list(LOOKUPS)]
    return ["read", [p for p in LOOKUPS if rng.random() < 0.3] or [LOOKUPS[int(rng.integers(0, len(LOOKUPS)))]]]


# ---------------------------------------------------------------------------------------------
# C09 construction builds exactly the described graph
# ---------------------------------------------------------------------------------------------
def eval_C09(case):
    w = World(case["pool"])
    viol, evals = [], 0
    for i, op in enumerate(case["history"]):
        if op[0] in ("read", "is_valid"):
            continue
        evals += 1
        try:
            err, must_raise = w.apply(op)
        except Exception as e:  # noqa: BLE001
            viol.append((f"op {i} {op[0]} raised {type(e).__name__}: {e}", short_tb(), "no exception"))
            w.resync()
            continue
        if must_raise and err is None:
            viol.append((f"op {i}: malformed path {op[1]} accepted", "no error", "an error"))
        bad = w.non_node_nodes()
        if bad:
            viol.append((f"op {i} {op[0]}: an object that is not a node became a node of the graph", bad, []))
        if must_raise:
            w.resync()  # what a rejected call leaves behind is not specified (beyond the above)
            continue
        for what, obs, exp in w.graph_vs_model():
            viol.append((f"op {i} {op[:3]}: {what} differ from the described graph", obs, exp))
        if viol:
            w.resync()
    return dict(violations=viol[:10], evals=evals, tags=[op[0] for op in case["history"]])


def path_shapes(max_len=4):
    """all sequences over {node, link, other} up to max_len, plus node/link sequences of length 5"""
    for n in range(1, max_len + 1):
        yield from itertools.product("NLX", repeat=n)
    yield from itertools.product("NL", repeat=5)


def check_C09(rng, budget):
    pool = small_pool()

    def gen():
        nodes, links = pool["nodes"], [l["key"] for l in pool["links"]]
        for j, shape in enumerate(path_shapes()):
            for variant in range(2):
                ni = li = 0
                items = []
                for c in shape:
                    if c == "N":
                        items.append(nodes[(ni if variant == 0 else ni // 2) % len(nodes)])
                        ni += 1
                    elif c == "L":
                        items.append(links[li % len(links)])
                        li += 1
                    else:
                        items.append(ODD[(j + len(items)) % len(ODD)])
                for o, d in ((None, None), ("R0", None), (None, "D0"), ("I0", "D1")):
                    base = [] if (j + variant) % 3 else [["add_path", ["n0", "L4", "n3"], "M0", "D2"]]
                    yield dict(pool=pool, history=base + [["add_path", items, o, d] + (["iter"] if j % 2 else [])], tag="path-shape")
        while True:
            yield dict(pool=pool, history=[rand_op(rng, pool, 0.3) for _ in range(int(rng.integers(1, 9)))], tag="random")
    return run_cases("every path shape over {node, link, other object} up to length 4 (and node/link shapes of length 5), with/without "
                     "origin and destination, on an empty and a non-empty network, then random histories (1-8 calls) of all seven "
                     "construction calls over 4 nodes/5 links/5 origins/3 destinations: graph == ghost model after every call "
                     "(nodes, edges, link/origin/destination identities, later attachments replace earlier ones); malformed paths "
                     "raise; every graph node is a Node", budget, gen(), eval_C09)


# ---------------------------------------------------------------------------------------------
# C08 lookups reflect the graph
# ---------------------------------------------------------------------------------------------
def eval_C08(case):
    w = World(case["pool"])
    viol, evals = [], 0
    for i, op in enumerate(case["history"]):
        if op[0] == "read":
            evals += 1
            for what, obs, exp in read_and_compare(w.net, op[1]):
                viol.append((f"after {i} calls ({case['history'][i - 1][0] if i else 'start'} last): lookup {what} differs from the graph", obs, exp))
            if viol:
                break
        elif op[0] == "is_valid":
            try:
                w.net.is_valid(raises=False)
            except Exception:  # noqa: BLE001
                pass
        else:
            try:
                w.apply(op)
            except Exception:  # noqa: BLE001  (C09's concern)
                pass
    return dict(violations=viol[:10], evals=evals, tags=[op[0] for op in case["history"] if op[0] != "read"])


def canonical_mutations():
    return [["add_node", "n3"], ["add_nodes", ["n2", "n3"]], ["add_link", "n0", "L0", "n1"], ["add_link", "n0", "L1", "n1"],
            ["add_link", "n2", "L2", "n3"], ["add_links", [["n1", "L2", "n2"], ["n2", "L3", "n0"]]], ["add_links", [["n0", "L3", "n1"]]],
            ["add_origin", "R0", "n1"], ["add_origin", "M0", "n1"], ["add_origin", "I0", "n3"], ["add_destination", "D0", "n2"],
            ["add_destination", "D1", "n2"], ["add_destination", "D2", "n3"], ["add_path", ["n0", "L0", "n1", "L2", "n2"], "I0", "D0"],
            ["add_path", ["n3", "L4", "n1"], "R1", None], ["add_path", ["n1", "L1", "n2"], "S0", "D2"],
            ["add_links_bad", [["n3", "L4", "n0"]]], ["add_nodes_bad", ["n3"]]]


def check_C08(rng, budget):
    pool = small_pool()
    muts = canonical_mutations()
    bases = [[], [["add_path", ["n0", "L0", "n1", "L1", "n2"], "M0", "D0"]]]
    singles = [[p] for p in LOOKUPS] + [[]]

    def gen():
        # exhaustive: base; m1; read p; m2; read p + everything
        combos = [(b, m1, p, m2) for b in bases for m1 in muts for p in singles for m2 in muts]
        order = rng.permutation(len(combos))
        for idx in order[: max(200, int(len(combos) * min(1.0, budget / 60.0)))]:
            b, m1, p, m2 = combos[int(idx)]
            yield dict(pool=pool, history=b + [m1] + ([["read", p]] if p else []) + [m2, ["read", p or list(LOOKUPS)], ["read", list(LOOKUPS)]],
                       tag="pair")
        while True:
            h = []
            for _ in range(int(rng.integers(2, 12))):
                h.append(rand_op(rng, pool, 0.1))
                if rng.random() < 0.7:
                    h.append(rand_read(rng))
            h.append(["read", list(LOOKUPS)])
            yield dict(pool=pool, history=h, tag="random")
    return run_cases("histories base; m1; read p; m2; read p; read all over 16 canonical mutator calls (incl. replacing the link of an "
                     "edge and the origin/destination of a node) x 13 single lookups (sampled in the quick tier, complete in the "
                     "thorough tier), then random histories of 2-11 calls interleaved with reads of random lookup subsets: every "
                     "lookup read == recomputation from net.graph (object identity; per-node in/out links for every node)",
                     budget, gen(), eval_C08)


# ---------------------------------------------------------------------------------------------
# C06 validation
# ---------------------------------------------------------------------------------------------
def eval_C06(case):
    w = World(case["pool"])
    kinds = {o["key"]: o["kind"] for o in case["pool"]["origins"]}
    ramp_objs = {id(w.b.origins[k]) for k, kind in kinds.items() if kind in ("ramp", "simple")}
    is_ramp = lambda o: id(o) in ramp_objs  # noqa: E731
    viol, evals = [], 0
    hist = case["history"]
    for i, op in enumerate(hist):
        if op[0] == "read":
            read_and_compare(w.net, op[1])
            continue
        if op[0] != "is_valid":
            try:
                w.apply(op)
            except Exception:  # noqa: BLE001
                pass
            if not case.get("check_each") and i < len(hist) - 1:
                continue
        evals += 1
        bad = conditions(w.net.graph, is_ramp)
        try:
            ok, msgs = w.net.is_valid(raises=False)
        except Exception as e:  # noqa: BLE001
            viol.append((f"after op {i}: is_valid(raises=False) raised {type(e).__name__}: {e}", short_tb(), "a verdict"))
            continue
        if bool(ok) != (not bad):
            viol.append((f"after op {i} {op[:1]}: verdict {ok} but violated conditions (number, node) = {bad}", [bool(ok), msgs], not bad))
        if (not ok) != bool(msgs):
            viol.append((f"after op {i}: verdict {ok} with {len(msgs)} messages", msgs, "messages iff invalid"))
        try:
            r = w.net.is_valid(raises=True)
            if bad:
                viol.append((f"after op {i}: is_valid(raises=True) did not raise although conditions {bad} are violated", str(r), "InvalidNetworkError"))
        except sm.InvalidNetworkError:
            if not bad:
                viol.append((f"after op {i}: is_valid(raises=True) raised on a network violating no condition", "InvalidNetworkError", "no error"))
        except Exception as e:  # noqa: BLE001
            viol.append((f"after op {i}: is_valid(raises=True) raised {type(e).__name__}: {e}", short_tb(), "InvalidNetworkError or nothing"))
    return dict(violations=viol[:10], evals=evals, tags=["valid" if not viol and not bad else "invalid"] if evals else [])


def small_graph_histories(k, max_edges, rng=None, limit=None):
    """all graphs on k nodes with <= max_edges edges (self-loops included), links unique or one shared
    object per edge, origins/destinations per node from small pools (sharing = same key twice)"""
    nodes = [f"n{i}" for i in range(k)]
    pairs = [(u, v) for u in nodes for v in nodes]
    o_opts = [None, "I0", "R0", "M0", "R1"]
    d_opts = [None, "D0", "D1"]
    space = []
    for ne in range(0, max_edges + 1):
        for es in itertools.combinations(pairs, ne):
            for lk in itertools.product((0, 1), repeat=ne):
                space.append((es, lk))

    def make(es, lk, os_, ds):
        h = [["add_nodes", nodes]]
        for j, ((u, v), shared) in enumerate(zip(es, lk)):
            h.append(["add_link", u, "L4" if shared else f"L{j}", v])
        h += [["add_origin", o, n] for n, o in zip(nodes, os_) if o]
        h += [["add_destination", d, n] for n, d in zip(nodes, ds) if d]
        return h
    if rng is None:
        for es, lk in space:
            for os_ in itertools.product(o_opts, repeat=k):
                for ds in itertools.product(d_opts, repeat=k):
                    yield make(es, lk, os_, ds)
    else:
        for _ in range(limit):
            es, lk = space[int(rng.integers(0, len(space)))]
            yield make(es, lk, [o_opts[int(rng.integers(0, 5))] for _ in nodes], [d_opts[int(rng.integers(0, 3))] for _ in nodes])


def mutate_valid(rng, rec):
    """a valid recipe built through its script (validated on the way), then a few random API calls"""
    pool = pool_from_recipe(rec)
    base = script_to_api(rec, rec.get("script") or default_script(rec))
    extra = []
    for _ in range(int(rng.integers(1, 4))):
        extra.append(rand_op(rng, pool, 0.0))
    return dict(pool=pool, history=base + [["is_valid"]] + [x for op in extra for x in (op, ["is_valid"])], check_each=True, tag="mutated-valid")


def check_C06(rng, budget):
    pool = small_pool()

    def gen():
        if budget > 60:  # thorough: all graphs on <= 2 nodes, exhaustively
            for k in (1, 2):
                for h in small_graph_histories(k, 4):
                    yield dict(pool=pool, history=h, tag=f"exhaustive-{k}")
        else:
            for h in small_graph_histories(1, 1):
                yield dict(pool=pool, history=h, tag="exhaustive-1")
            for h in small_graph_histories(2, 4, rng, 2500):
                yield dict(pool=pool, history=h, tag="sampled-2")
        rec_stream = recipes(rng, incremental=True, long_links=False)
        while True:
            for h in small_graph_histories(3, 4, rng, 150):
                yield dict(pool=pool, history=h, tag="sampled-3")
            for _ in range(150):
                yield mutate_valid(rng, next(rec_stream))
            for _ in range(100):
                yield dict(pool=pool, history=[rand_op(rng, pool, 0.05) for _ in range(int(rng.integers(1, 10)))], check_each=True, tag="random-api")
    return run_cases("graphs built through the construction API: all graphs on 1 node, (thorough: all / quick: 2500 sampled) graphs on 2 "
                     "nodes with <= 4 edges incl. self-loops, unique or shared link objects, origins from {none, ideal, mainstream, "
                     "2 ramps} and destinations from {none, free, congested} per node (shared objects and same-named distinct "
                     "objects included); sampled graphs on 3 nodes; valid corner/random networks (incrementally built with probes) "
                     "followed by 1-3 random further API calls, validated after every call; random API histories: verdict == no "
                     "violated condition (recomputed from net.graph), raises=True raises InvalidNetworkError iff invalid, messages "
                     "iff invalid", budget, gen(), eval_C06)
