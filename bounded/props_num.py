"""Checks of C15 (engine primitives agree), C16 (symbolic parameters), C17 (origin flow bounds),
C18 (neutral controls)."""
import copy
import itertools
import math
import os
import sys

import casadi as cs
import numpy as np

sys.path.insert(0, os.path.dirname(os.path.dirname(os.path.abspath(__file__))))
from specs import metanet as M  # noqa: E402

from cases import net_cases, params_of, recipes, topo_tags  # noqa: E402
from harness import (call, casadi_function, close, expected_inputs, jl, numpy_step, pack_args, run_cases, short_tb,  # noqa: E402
                     unpack_outputs)
from netgen import BASE, DELTA, PHI, build_from_recipe, random_values, to_init  # noqa: E402
from props_rel import graph_maps  # noqa: E402
from props_step import _ref, check_signature  # noqa: E402
from sym_metanet.engines.casadi import Engine as CasadiEngine  # noqa: E402
from sym_metanet.engines.numpy import Engine as NumpyEngine  # noqa: E402

T0 = BASE["T"]


# ---------------------------------------------------------------------------------------------
# C15 primitives
# ---------------------------------------------------------------------------------------------
def _np_scalar(x, shape):
    if x is None:
        return None
    return {"1d": np.array([x], float), "0d": np.array(float(x)), "np": np.float64(x), "float": float(x)}[shape]


def _cs_scalar(x, shape):
    if x is None:
        return None
    return float(x) if shape == "float" else cs.DM(float(x))


def _vecs(a, conv):
    """converts the argument dict: lists -> vectors, ('s', x) -> scalar-like, rest unchanged"""
    out = {}
    for k, v in a.items():
        if isinstance(v, list) and k not in ("vsl", "arrays"):
            out[k] = conv("vec", v, k)
        elif isinstance(v, dict) and "s" in v:
            out[k] = conv("scalar", v["s"], k)
        else:
            out[k] = v
    return out


def S(x):  # a scalar whose container shape varies (0-d, (1,), numpy scalar, float)
    return {"s": x}


def spec_value(prim, a):
    """the oracle value (list of floats) of a primitive from specs/metanet.py"""
    g = lambda k: a[k]["s"] if isinstance(a[k], dict) else a[k]  # noqa: E731
    if prim == "get_upstream_flow":
        Q = sum(a["q_lasts"]) + (g("q_orig") if a.get("q_orig") is not None else 0.0)
        return [M.inflow_share(a["beta"], sum(a["betas"]), Q)]
    if prim == "get_upstream_speed":
        return [M.upstream_speed_weighted(sum(v * q for v, q in zip(a["v_lasts"], a["q_lasts"])), sum(a["q_lasts"]))]
    if prim == "get_downstream_density":
        return [M.downstream_density_weighted(sum(r * r for r in a["rho_firsts"]), sum(a["rho_firsts"]))]
    if prim == "get_flow":
        return [M.flow(r, v, a["lanes"]) for r, v in zip(a["rho"], a["v"])]
    if prim == "step_density":
        return [M.next_density(r, q, qu, a["lanes"], a["L"], a["T"]) for r, q, qu in zip(a["rho"], a["q"], a["q_up"])]
    if prim == "Veq":
        return [M.veq(r, a["v_free"], a["rho_crit"], a["a"]) for r in a["rho"]]
    if prim == "controlled_Veq":
        return [M.veq_vsl(r, a["v_ctrl"][a["vsl"].index(i)], a["alpha"], a["v_free"], a["rho_crit"], a["a"]) if i in a["vsl"]
                else M.veq(r, a["v_free"], a["rho_crit"], a["a"]) for i, r in enumerate(a["rho"])]
    if prim == "step_speed":
        N = len(a["v"])
        out = []
        for i in range(N):
            x = M.next_speed(a["v"][i], a["v_up"][i], a["rho"][i], a["rho_down"][i], a["Veq"][i], a["L"], a["tau"], a["eta"], a["kappa"], a["T"])
            if i == 0 and a.get("q_ramp") is not None and a.get("delta") is not None:
                x -= M.merge_term(a["delta"], a["T"], g("q_ramp"), a["v"][0], a["L"], a["lanes"], a["rho"][0], a["kappa"])
            if i == N - 1 and a.get("lanes_drop") is not None and a.get("phi") is not None:
                x -= M.lanedrop_term(a["phi"], a["T"], a["lanes_drop"], a["rho"][i], a["v"][i], a["L"], a["lanes"], a["rho_crit"])
            out.append(x)
        return out
    if prim == "step_queue":
        return [M.queue_next(g("w"), g("d"), g("q"), a["T"])]
    if prim == "get_mainstream_flow":
        return [M.mainstream_flow_guarded(g("d"), g("w"), g("v_ctrl"), g("v_first"), a["rho_crit"], a["a"], a["v_free"], a["lanes"], a["T"])]
    if prim == "get_ramp_flow":
        fn = M.ramp_flow_in if a["type"] == "in" else M.ramp_flow_out
        return [fn(g("d"), g("w"), a["C"], g("r"), a["rho_max"], g("rho_first"), a["rho_crit"], a["T"])]
    if prim == "get_simplifiedramp_flow":
        if a["type"] == "unlimited":
            return [g("qdes")]
        return [M.simplified_ramp_flow(g("qdes"), g("d"), g("w"), a["C"], a["rho_max"], g("rho_first"), a["rho_crit"], a["T"])]
    if prim == "get_congestion_free_downstream_density":
        return [M.dest_free(g("rho_last"), a["rho_crit"])]
    if prim == "get_congested_downstream_density":
        return [M.dest_congested(g("rho_last"), g("rho_destination"), a["rho_crit"])]
    if prim == "max":
        return [M.clamp0(x) for x in a["array2"]]
    if prim == "vcat":
        return [x for part in a["arrays"] for x in (part if isinstance(part, list) else [part["s"]])]
    raise KeyError(prim)


GROUP = {"get_upstream_flow": "nodes", "get_upstream_speed": "nodes", "get_downstream_density": "nodes", "get_flow": "links",
         "step_density": "links", "step_speed": "links", "Veq": "links", "controlled_Veq": "links", "step_queue": "origins",
         "get_mainstream_flow": "origins", "get_ramp_flow": "origins", "get_simplifiedramp_flow": "origins",
         "get_congestion_free_downstream_density": "destinations", "get_congested_downstream_density": "destinations",
         "max": None, "vcat": None}
ORDER = {"get_upstream_flow": ("q_lasts", "beta", "betas", "q_orig"), "get_upstream_speed": ("q_lasts", "v_lasts"),
         "get_downstream_density": ("rho_firsts",), "get_flow": ("rho", "v", "lanes"), "step_density": ("rho", "q", "q_up", "lanes", "L", "T"),
         "step_speed": ("v", "v_up", "rho", "rho_down", "Veq", "lanes", "L", "tau", "eta", "kappa", "T", "q_ramp", "delta", "lanes_drop", "phi", "rho_crit"),
         "Veq": ("rho", "v_free", "rho_crit", "a"), "controlled_Veq": ("rho", "v_ctrl", "vsl", "alpha", "v_free", "rho_crit", "a"),
         "step_queue": ("w", "d", "q", "T"), "get_mainstream_flow": ("d", "w", "v_ctrl", "v_first", "rho_crit", "a", "v_free", "lanes", "T"),
         "get_ramp_flow": ("d", "w", "C", "r", "rho_max", "rho_first", "rho_crit", "T", "type"),
         "get_simplifiedramp_flow": ("qdes", "d", "w", "C", "rho_max", "rho_first", "rho_crit", "T", "type"),
         "get_congestion_free_downstream_density": ("rho_last", "rho_crit"),
         "get_congested_downstream_density": ("rho_last", "rho_destination", "rho_crit")}


def call_primitive(engine, prim, a, conv):
    args = _vecs(a, conv)
    if prim == "max":
        return engine.max(0, args["array2"])
    if prim == "vcat":
        return engine.vcat(*[conv("vec", p) if isinstance(p, list) else conv("scalar", p["s"]) for p in a["arrays"]])
    fn = getattr(getattr(engine, GROUP[prim]), prim)
    return fn(*[args.get(k) for k in ORDER[prim]])


def rand_primitive_case(rng, prim, boundary):
    U = rng.uniform
    lp = dict(v_free=float(U(90, 120)), rho_crit=float(U(28, 38)), a=float(U(1.5, 2.2)))
    rho_max = float(U(160, 200))

    def val(lo, hi, zero=0.3, extra=()):
        if boundary:
            opts = [0.0] + list(extra)
            if rng.random() < zero + 0.1 * len(extra):
                return float(opts[int(rng.integers(0, len(opts)))])
        return float(U(lo, hi))

    def vec(n, lo, hi, **kw):
        return [val(lo, hi, **kw) for _ in range(n)]
    N = int(rng.choice([1, 1, 2, 3, 5]))
    if prim == "get_upstream_flow":
        n, k = int(rng.integers(1, 4)), int(rng.integers(1, 4))
        betas = [float(U(0.1, 2)) for _ in range(k)]
        return dict(q_lasts=vec(n, 0, 6000), beta=betas[0], betas=betas, q_orig=None if rng.random() < 0.4 else S(val(0, 2500)))
    if prim == "get_upstream_speed":
        n = int(rng.integers(2, 4))
        q = vec(n, 0, 6000)
        if sum(q) == 0:
            q[0] = 100.0
        return dict(q_lasts=q, v_lasts=vec(n, 0, 120))
    if prim == "get_downstream_density":
        n = int(rng.integers(2, 4))
        r = vec(n, 0, 180)
        if sum(r) == 0:
            r[-1] = 20.0
        return dict(rho_firsts=r)
    if prim == "get_flow":
        return dict(rho=vec(N, 0, 180), v=vec(N, 0, 120), lanes=int(rng.integers(1, 5)))
    if prim == "step_density":
        return dict(rho=vec(N, 0, 180), q=vec(N, 0, 8000), q_up=vec(N, 0, 8000), lanes=int(rng.integers(1, 5)), L=float(U(0.5, 1.5)), T=T0)
    if prim == "Veq":
        return dict(rho=vec(N, 0, 180, extra=(lp["rho_crit"], rho_max)), **lp)
    if prim == "controlled_Veq":
        vsl = [i for i in range(N) if rng.random() < 0.6]
        return dict(rho=vec(N, 0, 180, extra=(rho_max,)), v_ctrl=vec(len(vsl), 20, 130), vsl=vsl, alpha=float(rng.choice([0.0, 0.1, -0.1])), **lp)
    if prim == "step_speed":
        mode = rng.integers(0, 4)
        return dict(v=vec(N, 0, 120), v_up=vec(N, 0, 120), rho=vec(N, 0, 180), rho_down=vec(N, 0, 180, extra=(rho_max,)),
                    Veq=vec(N, 0, 120), lanes=int(rng.integers(1, 5)), L=float(U(0.5, 1.5)), tau=BASE["tau"], eta=BASE["eta"],
                    kappa=BASE["kappa"], T=T0, q_ramp=S(val(0, 2500)) if mode in (1, 3) else None,
                    delta=DELTA if mode in (1, 3) or rng.random() < 0.3 else None,
                    lanes_drop=int(rng.choice([-2, -1, 1, 2])) if mode in (2, 3) else None,
                    phi=PHI if mode in (2, 3) or rng.random() < 0.3 else None, rho_crit=lp["rho_crit"])
    if prim == "step_queue":
        return dict(w=S(val(0, 100)), d=S(val(0, 5000)), q=S(val(0, 5000)), T=T0)
    if prim == "get_mainstream_flow":
        vcrit = lp["v_free"] * math.exp(-1 / lp["a"])
        return dict(d=S(val(0, 9000, zero=0.15)), w=S(val(0, 150)), v_ctrl=S(val(0, 140, extra=(vcrit, 2.0, 200.0))),
                    v_first=S(val(0, 120, extra=(vcrit, 3.0, lp["v_free"]))), lanes=int(rng.integers(1, 5)), T=T0, **lp)
    if prim in ("get_ramp_flow", "get_simplifiedramp_flow"):
        a = dict(d=S(val(0, 4000)), w=S(val(0, 100)), C=float(U(1500, 4000)), rho_max=rho_max,
                 rho_first=S(val(0, rho_max, extra=(rho_max, lp["rho_crit"]))), rho_crit=lp["rho_crit"], T=T0)
        if prim == "get_ramp_flow":
            a.update(r=S(val(0, 1, extra=(1.0,))), type=str(rng.choice(["in", "out"])))
        else:
            a.update(qdes=S(val(0, 4000)), type=str(rng.choice(["limited", "unlimited"])))
        return a
    if prim == "get_congestion_free_downstream_density":
        return dict(rho_last=S(val(0, 180, extra=(lp["rho_crit"],))), rho_crit=lp["rho_crit"])
    if prim == "get_congested_downstream_density":
        return dict(rho_last=S(val(0, 180, extra=(lp["rho_crit"],))), rho_destination=S(val(0, 150)), rho_crit=lp["rho_crit"])
    if prim == "max":
        return dict(array2=[float(U(-50, 120)) if rng.random() < 0.8 else 0.0 for _ in range(N)])
    if prim == "vcat":
        return dict(arrays=[vec(int(rng.integers(1, 4)), 0, 100) if rng.random() < 0.5 else S(val(0, 100)) for _ in range(int(rng.integers(1, 5)))])
    raise KeyError(prim)


def eval_C15(case):
    prim, a, shape = case["prim"], case["args"], case["shape"]
    viol = []
    spec = spec_value(prim, a)
    n = len(spec)

    def np_conv(kind, x, k=None):
        if kind == "vec":
            # a single-segment link hands the node values over as scalars
            if case.get("n1_scalar") and k in ("v_up", "rho_down", "q_up") and len(x) == 1:
                return np.float64(x[0])
            if case.get("int_vec") and len(x) and all(float(y).is_integer() for y in x):
                return np.array([int(y) for y in x])  # whole-number values typed as the user wrote them: an integer array
            return np.array(x, float)
        return _np_scalar(x, shape)

    def cs_conv(kind, x, k=None):
        if kind == "vec":
            return cs.DM(x) if len(x) else cs.DM.zeros(0, 1)
        return _cs_scalar(x, shape)
    res = {}
    for name, engine, conv in (("numpy", NumpyEngine(), np_conv), ("casadi", CasadiEngine("SX"), cs_conv)):
        try:
            out = call_primitive(engine, prim, copy.deepcopy(a), conv)
            res[name] = np.atleast_1d(np.asarray(out, float)).ravel()
        except Exception as e:
            viol.append((f"{name} {prim} raised {type(e).__name__}: {e}", short_tb(), "a value"))
    for name, r in res.items():
        if r.size != n and not (r.size == 1 and n == 1):
            viol.append((f"{name} {prim}: result size", int(r.size), n))
        elif not np.all(np.isfinite(r)):
            viol.append((f"{name} {prim}: non-finite result for admissible arguments", jl(r), "finite"))
        elif not close(r, spec):
            viol.append((f"{name} {prim} differs from the specification", jl(r), jl(spec)))
    if len(res) == 2 and res["numpy"].size == res["casadi"].size and not close(res["numpy"], res["casadi"]):
        viol.append((f"{prim}: NumPy and CasADi engines disagree", {"numpy": jl(res["numpy"]), "casadi": jl(res["casadi"])}, jl(spec)))
    return dict(violations=viol, evals=2, tags=[prim + ":" + shape])


def check_C15(rng, budget):
    def gen():
        prims = list(GROUP)
        shapes = ["1d", "0d", "np", "float"]
        for i in itertools.count():
            for prim in prims:
                a = rand_primitive_case(rng, prim, boundary=bool(i % 2))
                n1 = prim in ("step_speed", "step_density") and len(a["rho"]) == 1 and rng.random() < 0.5
                int_vec = False
                if (i // 2) % 4 == 3:
                    # whole-number vectors handed over as integer arrays (np.asarray([10, 20, 40])), the rest float
                    int_vec = True
                    for k, v in list(a.items()):
                        if isinstance(v, list) and k not in ("vsl",) and v and all(isinstance(y, float) for y in v) and rng.random() < 0.6:
                            a[k] = [max(1.0, float(round(y))) for y in v]
                        elif k == "arrays":
                            a[k] = [[max(1.0, float(round(y))) for y in w] if isinstance(w, list) and (j == 0 or rng.random() < 0.3) else w for j, w in enumerate(v)]
                yield dict(prim=prim, args=a, shape=shapes[(i + len(prim)) % 4], n1_scalar=bool(n1), int_vec=int_vec, tag=prim)
    return run_cases("each of the 14 engine primitives + max + vcat, NumPy (ndarray arguments of shape (N,), (1,), 0-d, numpy/python "
                     "scalars as the element layer produces them) vs CasADi (DM) vs specs/metanet.py; interior and boundary "
                     "arguments (zeros, rho_max, rho_crit, V_crit, tiny speeds, lane gain/drop, merging on/off); results finite",
                     budget, gen(), eval_C15)


# ---------------------------------------------------------------------------------------------
# C16 symbolic parameters
# ---------------------------------------------------------------------------------------------
def eval_C16(case):
    rec = case["recipe"]
    vals = case["vals"]
    opts = case.get("opts", {})
    sym, compact = case["sym"], case["compact"]
    Tsym = getattr(cs, sym)
    viol = []
    # numbers the symbols are evaluated at (differ from the recipe's own so that a symbol that is not really used shows)
    rec_num = copy.deepcopy(rec)
    model = dict(params_of(case))
    overrides, parameters, pvalues = {}, {}, []
    ldef = {l["key"]: l for l in rec_num["links"]}
    odef = {o["key"]: o for o in rec_num["origins"]}
    for ent, val in zip(case["symbolic"], case["pvalues"]):
        if ent[0] == "model":
            name = ent[1]
            if name not in model:
                continue
            model[name] = val
            s = Tsym.sym(name)
            parameters[name] = s
        else:
            _, key, attr = ent
            (ldef if ent[0] == "link" else odef)[key][attr] = val
            s = Tsym.sym(attr if case.get("dup_names") else f"{attr}_{key}")
            overrides[(key, attr)] = s
            parameters[f"{attr}_{key}"] = s
        pvalues.append(val)
    more = bool(case.get("more_out"))
    b_num = build_from_recipe(rec_num)
    F_num, _ = casadi_function(b_num, model, sym=sym, compact=compact, more_out=more)
    want = call(F_num, pack_args(b_num, F_num, vals, compact))
    b_sym = build_from_recipe(rec, overrides=overrides)
    try:
        F_sym, _ = casadi_function(b_sym, model, sym=sym, compact=compact, more_out=more, parameters=parameters)
    except Exception as e:
        return dict(violations=[(f"network with symbolic parameters {list(parameters)} cannot be stepped/compiled: {type(e).__name__}: {e}",
                                 short_tb(), "compiles like the numeric one")])
    viol += check_signature(b_sym, F_sym, compact, pnames=list(parameters), more_out=more, label=f"{sym} compact={compact}: ")
    if not viol:
        pv = [np.array([v]) for v in pvalues] if compact <= 0 else [np.array(pvalues, float)]
        got = call(F_sym, pack_args(b_sym, F_sym, vals, compact) + (pv if parameters else []))
        if len(got) != len(want):
            viol.append(("number of results", len(got), len(want)))
        for i, (g, w) in enumerate(zip(got, want)):
            if not close(g, w):
                viol.append((f"{sym} compact={compact}: result {F_sym.name_out(i)} with symbolic {list(parameters)} evaluated at the values "
                             "differs from the numeric compilation", jl(g), jl(w)))
    return dict(violations=viol[:20], evals=2, tags=list(topo_tags(b_num)) + ["sym:" + e[-1] for e in case["symbolic"]])


def check_C16(rng, budget):
    def gen():
        for i, c in enumerate(net_cases(rng, kinds=("interior",), per_net=1, long_links=False)):
            rec = c["recipe"]
            cand = [["model", n] for n in ("T", "tau", "eta", "kappa")] + ([["model", "delta"]] if c["opts"].get("delta") else [])
            for l in rec["links"]:
                cand += [["link", l["key"], a] for a in ("rho_crit", "v_free", "a")]
            cand += [["origin", o["key"], "C"] for o in rec["origins"] if o["kind"] in ("ramp", "simple")]
            mode = i % 4
            if mode == 0:
                chosen = cand
            elif mode == 1:
                chosen = [cand[int(rng.integers(0, len(cand)))]]
            else:
                chosen = [x for x in cand if rng.random() < 0.4] or cand[:1]
            if mode == 3 and c["opts"].get("delta") and ["model", "delta"] not in chosen:
                chosen.append(["model", "delta"])
            chosen = list(chosen)
            if i % 2:
                rng.shuffle(chosen)
            pv = []
            for ent in chosen:
                base = {"T": T0, "tau": BASE["tau"], "eta": 60.0, "kappa": 40.0, "delta": DELTA, "rho_crit": 33.5, "v_free": 102.0, "a": 1.867, "C": 2000.0}[ent[-1]]
                pv.append(float(base * rng.uniform(0.8, 1.25)))
            c.update(symbolic=chosen, pvalues=pv, sym=["SX", "MX"][i % 2], compact=[0, 1, 2, 1][(i // 2) % 4], dup_names=bool(i % 3 == 0),
                     more_out=bool(i % 5 == 0))
            yield c
    return run_cases("any subset of {rho_crit, v_free, a per link; C per ramp; tau, eta, kappa, delta, T} declared via parameters= as "
                     "SX/MX symbols (unique or repeated display names, declaration order shuffled), compact 0/1/2, with/without "
                     "extra outputs: compiles, parameters are the trailing arguments (or stacked p) in declaration order, "
                     "evaluation at values == numeric compilation", budget, gen(), eval_C16)


# ---------------------------------------------------------------------------------------------
# C17 origin flow bounds
# ---------------------------------------------------------------------------------------------
def _bounds_violations(label, kind, q, d, w, T, cap, zero_expected, scale=0.0):
    tol = lambda x: 1e-9 * (1 + abs(x) + scale)  # noqa: E731
    v = []
    if not math.isfinite(q):
        return [(label + "flow not finite", q, "finite")]
    if q < -tol(0):
        v.append((label + "negative origin flow", q, ">= 0"))
    if q > d + w / T + tol(d + w / T):
        v.append((label + "origin flow exceeds demand + queue/T", q, d + w / T))
    if q > cap + tol(cap):
        v.append((label + "origin flow exceeds the capacity", q, cap))
    if zero_expected and abs(q) > tol(0):
        v.append((label + "ramp flow not zero although the first segment is at maximum density", q, 0.0))
    wn = w + T * (d - q)
    if wn < -1e-9 * (1 + abs(w) + T * abs(d) + T * scale):
        v.append((label + "next queue negative", wn, ">= 0"))
    return v


def eval_C17(case):
    viol = []
    if case["level"] == "primitive":
        prim, a, shape = case["prim"], case["args"], case["shape"]
        g = lambda k: a[k]["s"]  # noqa: E731
        if prim == "get_mainstream_flow":
            cap = a["lanes"] * M.veq(a["rho_crit"], a["v_free"], a["rho_crit"], a["a"]) * a["rho_crit"]
            zero = False
        else:
            cap = a["C"]
            zero = g("rho_first") == a["rho_max"]
        for name, engine, conv in (("numpy", NumpyEngine(), lambda k, x, _=None: np.array(x, float) if k == "vec" else _np_scalar(x, shape)),
                                   ("casadi", CasadiEngine("SX"), lambda k, x, _=None: cs.DM(x) if k == "vec" else _cs_scalar(x, shape))):
            for rep in range(2):  # evaluated twice from the same argument objects
                if rep == 0:
                    args = _vecs(copy.deepcopy(a), conv)
                fn = getattr(engine.origins, prim)
                q = float(np.asarray(fn(*[args.get(k) for k in ORDER[prim]]), float).ravel()[0])
                viol += _bounds_violations(f"{name} {prim} ({a.get('type', '')}, evaluation {rep + 1}): ", prim, q, g("d"), g("w"), a["T"], cap, zero)
        return dict(violations=viol, evals=4, tags=[prim + str(a.get("type"))])
    # stepped network
    b = build_from_recipe(case["recipe"])
    params = params_of(case)
    T = params["T"]
    vals = case["vals"]
    g = graph_maps(b)
    SP = b.spec
    ref = _ref(b, vals, params)
    if ref["singular"]:
        return dict(evals=0, skipped=1)
    runs = [("numpy", numpy_step(b, vals, params, shape=case.get("shape", "1d")), None)]
    if case.get("casadi"):
        b2 = build_from_recipe(case["recipe"])
        F, _ = casadi_function(b2, params, sym=case["casadi"], compact=0, more_out=True)
        outs = call(F, pack_args(b2, F, vals, 0))
        rep = {b.el(b2.key[o]): float(outs[i][0]) for i in range(F.n_out()) for o in b2.origins.values() if F.name_out(i) == f"q_o_{o.name}"}
        runs.append(("casadi", unpack_outputs(b2, outs, 0), rep))
    tags = set()
    for name, nxt, reported in runs:
        for n, o in g["orig"].items():
            so = SP[o]
            if so["kind"] == "ideal" or (so["kind"] == "simple" and so["type"] == "unlimited"):
                continue
            ok = b.key[o]
            m = g["outs"][n][0]
            mk, sm_ = b.key[m], SP[m]
            d, w = vals[ok]["d"][0], vals[ok]["w"][0]
            cap = sm_["lam"] * M.veq(sm_["rho_crit"], sm_["v_free"], sm_["rho_crit"], sm_["a"]) * sm_["rho_crit"] if so["kind"] == "main" else so["C"]
            zero = so["kind"] != "main" and vals[mk]["rho"][0] == sm_["rho_max"]
            capf = sm_["lam"] * sm_["L"] / T
            q0 = vals[mk]["rho"][0] * vals[mk]["v"][0] * sm_["lam"]
            q_ent = sum(vals[b.key[x]]["rho"][-1] * vals[b.key[x]]["v"][-1] * SP[x]["lam"] for x in g["ins"][n])
            q_link = (nxt[(mk, "rho")][0] - vals[mk]["rho"][0]) * capf + q0 - q_ent  # flow that reached the link
            scale = (abs(nxt[(mk, "rho")][0]) + abs(vals[mk]["rho"][0])) * capf + abs(q0) + abs(q_ent)
            q_queue = d - (nxt[(ok, "w")][0] - w) / T  # flow that left the queue
            tags.add(so["kind"] + str(so["type"]))
            for src, q, sc in (("flow into the link", q_link, scale), ("flow out of the queue", q_queue, abs(d) + 2 * abs(w) / T)) + \
                    ((("reported flow", reported[o], 0.0),) if reported else ()):
                viol += _bounds_violations(f"{name}, origin {ok} ({so['kind']} {so['type'] or ''}), {src}: ", so["kind"], float(q), d, w, T, cap, zero, sc)
            if nxt[(ok, "w")][0] < -1e-9 * (1 + abs(w) + T * abs(d)):
                viol.append((f"{name}: next queue of {ok} negative", float(nxt[(ok, "w")][0]), ">= 0"))
    return dict(violations=viol[:20], evals=len(runs), tags=list(tags))


def check_C17(rng, budget):
    def gen():
        nets = net_cases(rng, kinds=("interior", "boundary"), per_net=2, long_links=False, shapes=("1d", "0d", "1d", "float"))
        shapes = ["1d", "0d", "np", "float"]
        for i in itertools.count():
            for prim in ("get_mainstream_flow", "get_ramp_flow", "get_simplifiedramp_flow"):
                a = rand_primitive_case(rng, prim, boundary=bool(i % 2))
                if a.get("type") == "unlimited":
                    a["type"] = "limited"
                yield dict(level="primitive", prim=prim, args=a, shape=shapes[i % 4], tag=prim)
            for _ in range(2):
                c = next(nets)
                c["level"] = "network"
                c["casadi"] = [None, "SX", "MX"][i % 3]
                for key, d in c["vals"].items():  # admissible: first-segment density <= rho_max is guaranteed by the generator
                    if "r" in d:
                        d["r"] = [min(1.0, max(0.0, d["r"][0]))]
                yield c
    return run_cases("primitives (both engines, each evaluated twice from the same argument objects, all scalar shapes) and stepped "
                     "networks (flow that reached the link, flow that left the queue, reported q_o): 0 <= q <= d + w/T, q <= C "
                     "(mainstream: lam*V(rho_crit)*rho_crit), q == 0 at rho_max for ramps, next queue >= 0", budget, gen(), eval_C17)


# ---------------------------------------------------------------------------------------------
# C18 neutral controls
# ---------------------------------------------------------------------------------------------
def _run_engine(engine, rec, vals, params, flags=None):
    b = build_from_recipe(rec)
    if engine == "numpy":
        return b, numpy_step(b, vals, params, flags=flags)
    F, _ = casadi_function(b, params, sym=engine, compact=0, flags=flags)
    return b, unpack_outputs(b, call(F, pack_args(b, F, vals, 0)), 0)


def eval_C18(case):
    rec, vals = case["recipe"], copy.deepcopy(case["vals"])
    params = params_of(case)
    engine = case["engine"]
    mode = case["mode"]
    viol = []
    INF = float("inf")
    b0 = build_from_recipe(rec)
    try:
        if _ref(b0, {k: {n: [1.0 if math.isinf(x) else x for x in xs] for n, xs in d.items()} for k, d in vals.items()}, params, case.get("flags"))["singular"]:
            return dict(evals=0, skipped=1)
    except ValueError:  # the reference model is undefined there (e.g. a negative density that is not clamped)
        return dict(evals=0, skipped=1)
    tags = [mode]
    if mode in ("vsl-inf", "vsl-finite"):
        vsl_links = [l for l in rec["links"] if l.get("vsl") is not None]
        if not vsl_links:
            return dict(evals=0)
        r1 = copy.deepcopy(rec)
        for l in r1["links"]:
            if l.get("vsl") is not None and case.get("alpha") is not None:
                l["alpha"] = case["alpha"]
        plain = copy.deepcopy(r1)
        for l in plain["links"]:
            l["vsl"] = None
        v_plain = {k: {n: x for n, x in d.items() if not (n == "v_ctrl" and any(l["key"] == k for l in vsl_links))} for k, d in vals.items()}
        if mode == "vsl-inf":
            for l in vsl_links:
                vals[l["key"]]["v_ctrl"] = [INF] * len(l["vsl"])
        _, got = _run_engine(engine, r1, vals, params, case.get("flags"))
        _, want = _run_engine(engine, plain, v_plain, params, case.get("flags"))
        for k in want:
            if mode == "vsl-inf" or k[1] != "v":
                if not close(got[k], want[k]):
                    viol.append((f"[{engine}] {mode} (alpha={case.get('alpha')}): next {k[1]} of {k[0]} differs from the plain link", jl(got[k]), jl(want[k])))
            else:
                l = next((x for x in vsl_links if x["key"] == k[0]), None)
                for i in range(len(want[k])):
                    limited = l is not None and i in l["vsl"]
                    if limited and not (got[k][i] <= want[k][i] + 1e-9 * (1 + abs(want[k][i]))):
                        viol.append((f"[{engine}] finite speed limit increased next speed of {k[0]}[{i}]", float(got[k][i]), float(want[k][i])))
                    if not limited and not close(got[k][i], want[k][i]):
                        viol.append((f"[{engine}] speed limit changed the next speed of unlimited segment {k[0]}[{i}]", float(got[k][i]), float(want[k][i])))
    elif mode == "ramp-r1":
        ramps = [o for o in rec["origins"] if o["kind"] == "ramp"]
        if not ramps:
            return dict(evals=0)
        other = copy.deepcopy(rec)
        for o in other["origins"]:
            if o["kind"] == "ramp":
                o["type"] = "in" if o["type"] == "out" else "out"
        for o in ramps:
            vals[o["key"]]["r"] = [1.0]
        _, got = _run_engine(engine, rec, vals, params)
        _, want = _run_engine(engine, other, vals, params)
        for k in want:
            if not close(got[k], want[k]):
                viol.append((f"[{engine}] metered-ramp flow variants differ at r = 1: next {k[1]} of {k[0]}", jl(got[k]), jl(want[k])))
    elif mode == "simple-inf":
        simple = [o for o in rec["origins"] if o["kind"] == "simple" and o["type"] == "limited"]
        if not simple:
            return dict(evals=0)
        other = copy.deepcopy(rec)
        v2 = copy.deepcopy(vals)
        for o in other["origins"]:
            if o["kind"] == "simple" and o["type"] == "limited":
                o["kind"], o["type"] = "ramp", case.get("ramp_type", "out")
                v2[o["key"]]["r"] = [1.0]
                del v2[o["key"]]["q"]
        for o in simple:
            vals[o["key"]]["q"] = [INF]
        _, got = _run_engine(engine, rec, vals, params)
        _, want = _run_engine(engine, other, v2, params)
        for k in want:
            if not close(got[k], want[k]):
                viol.append((f"[{engine}] limited simplified ramp with unbounded desired flow != metered ramp at r = 1: next {k[1]} of {k[0]}",
                             jl(got[k]), jl(want[k])))
    elif mode == "main-inf":
        mains = [o for o in rec["origins"] if o["kind"] == "main"]
        if not mains:
            return dict(evals=0)
        ldef = {l["up"]: l for l in rec["links"]}
        v2 = copy.deepcopy(vals)
        for o in mains:
            vals[o["key"]]["v_ctrl"] = [INF]
            vf = vals[ldef[o["node"]]["key"]]["v"][0]
            v2[o["key"]]["v_ctrl"] = [vf * case.get("factor", 1.0)]
        _, got = _run_engine(engine, rec, vals, params)
        bb, want = _run_engine(engine, rec, v2, params)
        for k in want:
            if not close(got[k], want[k]):
                viol.append((f"[{engine}] mainstream origin with infinite speed limit is not limited by the first-segment speed only: "
                             f"next {k[1]} of {k[0]}", jl(got[k]), jl(want[k])))
    return dict(violations=viol[:20], evals=2, tags=tags)


def check_C18(rng, budget):
    modes = ["vsl-inf", "vsl-finite", "ramp-r1", "simple-inf", "main-inf"]

    def applicable(rec, mode):
        return {"vsl-inf": any(l.get("vsl") is not None for l in rec["links"]), "vsl-finite": any(l.get("vsl") for l in rec["links"]),
                "ramp-r1": any(o["kind"] == "ramp" for o in rec["origins"]),
                "simple-inf": any(o["kind"] == "simple" and o["type"] == "limited" for o in rec["origins"]),
                "main-inf": any(o["kind"] == "main" for o in rec["origins"])}[mode]

    def gen():
        i = 0
        for c in net_cases(rng, kinds=("interior", "boundary", "negative"), per_net=1, long_links=False):
            for mode in modes:
                if c.get("kind") == "negative" and mode != "vsl-inf":
                    continue
                if not applicable(c["recipe"], mode):
                    continue
                for engine in ("numpy", ["SX", "MX"][i % 2]):
                    for alpha in ([0.0, -0.1, 0.1] if mode == "vsl-inf" else [None]):
                        i += 1
                        cc = copy.deepcopy(c)
                        cc.update(mode=mode, engine=engine, alpha=alpha, ramp_type=["out", "in"][i % 2],
                                  factor=[1.0, 1.0, 1.7][i % 3], tag=mode)
                        if mode == "vsl-inf" and (i % 2 or c.get("kind") == "negative"):
                            # the step options apply to a speed-limited link exactly as to a plain one
                            cc["flags"] = {"positive_init_speed": True, "positive_init_density": True, "positive_next_speed": bool(i % 4 == 1)}
                        yield cc
    return run_cases("paired networks from identical states, NumPy and CasADi (SX/MX): LinkWithVsl with np.inf limits (alpha in "
                     "{0,-0.1,0.1}) or empty set == plain Link; finite limits never increase a next speed and leave unlimited "
                     "segments untouched; metered-ramp variants 'in'/'out' coincide at r=1; limited simplified ramp with q=inf == "
                     "metered ramp at r=1; mainstream origin with v_ctrl=inf == v_ctrl=v_first (and 1.7 v_first)", budget, gen(), eval_C18)
