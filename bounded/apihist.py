"""Histories of construction-API calls over a pool of elements, a ghost graph model
(DESIGN Appendix D) and the recomputation of every lookup / the nine validity conditions from
`net.graph`.  Used by the checks of C06, C08, C09 and C19.

A pool is a recipe-like dict (see netgen) whose links need no end points; API-level ops are
  ["add_node", n] ["add_nodes", [n..]] ["add_link", u, l, v] ["add_links", [[u,l,v]..]]
  ["add_origin", o, n] ["add_destination", d, n] ["add_path", [items..], o|None, d|None]
  ["read", [lookups]] ["is_valid"]
Path items are pool keys or "!str" / "!none" / "!int" / "!origin" (objects that are no nodes/links).
"""
import sym_metanet as sm
from netgen import LOOKUPS, _make_elements, mk_dest, mk_link, mk_origin

MUTATORS = ("add_node", "add_nodes", "add_link", "add_links", "add_origin", "add_destination", "add_path")


def small_pool():
    """4 nodes, 5 links, 5 origins, 3 destinations; several distinct elements share a name"""
    links = [mk_link(f"L{i}", None, None, N=1 + i % 2) for i in range(5)]
    origins = [mk_origin("I0", None, "ideal"), mk_origin("M0", None, "main"), mk_origin("R0", None, "ramp", type="out"),
               mk_origin("R1", None, "ramp", type="in"), mk_origin("S0", None, "simple", type="limited")]
    dests = [mk_dest("D0", None, "free"), mk_dest("D1", None, "congested"), mk_dest("D2", None, "free")]
    names = {"L0": "A", "L1": "L", "L2": "L", "L3": "X", "L4": "A", "I0": "A", "M0": "O", "R0": "A", "R1": "B", "S0": "O",
             "D0": "A", "D1": "D", "D2": "D", "n0": "n0", "n1": "n1", "n2": "n0", "n3": "n3"}
    return dict(nodes=["n0", "n1", "n2", "n3"], links=links, origins=origins, dests=dests, names=names)


def pool_from_recipe(recipe, spare=True):
    """the recipe's own elements plus a few spare ones (keys prefixed with x)"""
    p = dict(nodes=list(recipe["nodes"]), links=list(recipe["links"]), origins=list(recipe["origins"]), dests=list(recipe["dests"]),
             names=dict(recipe.get("names", {})))
    if spare:
        p["nodes"] += ["xn0", "xn1"]
        p["links"] += [mk_link("xL0", None, None, N=2), mk_link("xL1", None, None, N=1, lam=3)]
        p["origins"] += [mk_origin("xI", None, "ideal"), mk_origin("xM", None, "main"), mk_origin("xR", None, "ramp", type="out"),
                         mk_origin("xS", None, "simple", type="unlimited")]
        p["dests"] += [mk_dest("xD0", None, "free"), mk_dest("xD1", None, "congested")]
    return p


def script_to_api(recipe, script):
    """netgen construction script -> API-level ops"""
    ldef = {l["key"]: l for l in recipe["links"]}
    odef = {o["key"]: o for o in recipe["origins"]}
    ddef = {d["key"]: d for d in recipe["dests"]}
    out = []
    for op in script:
        k = op[0]
        if k == "node":
            out.append(["add_node", op[1]])
        elif k == "nodes":
            out.append(["add_nodes", list(op[1])])
        elif k == "link":
            out.append(["add_link", ldef[op[1]]["up"], op[1], ldef[op[1]]["down"]])
        elif k == "links":
            out.append(["add_links", [[ldef[x]["up"], x, ldef[x]["down"]] for x in op[1]]])
        elif k == "origin":
            out.append(["add_origin", op[1], odef[op[1]]["node"]])
        elif k == "dest":
            out.append(["add_destination", op[1], ddef[op[1]]["node"]])
        elif k == "path":
            out.append(["add_path", list(op[1]), op[2], op[3]])
        elif k == "read":
            out.append(["read", list(LOOKUPS) if op[1] == "all" else list(op[1])])
        elif k in ("valid", "elements", "step"):
            out.append(["is_valid"])
    return out


class World:
    """elements of a pool + a Network + the ghost model, driven by API-level ops"""

    def __init__(self, pool):
        self.b = _make_elements(pool)
        self.net = sm.Network(name="net")
        self.b.net = self.net
        self.odd = {"!str": "a string", "!none": None, "!int": 7, "!origin": sm.Origin(name="stray")}
        # ghost model
        self.V, self.o, self.d, self.succ, self.pred, self.lnk = [], {}, {}, {}, {}, {}
        self.calls = 0

    def obj(self, key):
        if key in self.odd:
            return self.odd[key]
        for m in (self.b.nodes, self.b.links, self.b.origins, self.b.dests):
            if key in m:
                return m[key]
        raise KeyError(key)

    # ---- ghost model updates (Appendix D) ----------------------------------------------
    # the model is keyed by object identity (id()), never by the objects' own ==/hash: "the node" of the
    # property statement is that object, whatever equality its class may define
    def m_node(self, n):
        if not any(x is n for x in self.V):
            self.V.append(n)
            self.succ[id(n)], self.pred[id(n)] = [], []

    def m_link(self, u, l, v):
        self.m_node(u)
        self.m_node(v)
        if not any(x is v for x in self.succ[id(u)]):
            self.succ[id(u)].append(v)
            self.pred[id(v)].append(u)
        self.lnk[(id(u), id(v))] = (u, v, l)

    def m_origin(self, o, n):
        self.m_node(n)
        self.o[id(n)] = o

    def m_dest(self, d, n):
        self.m_node(n)
        self.d[id(n)] = d

    def resync(self):
        G = self.net.graph
        self.V = list(G.nodes)
        self.succ = {id(n): list(G.succ[n]) for n in G.nodes}
        self.pred = {id(n): list(G.pred[n]) for n in G.nodes}
        self.lnk = {(id(u), id(v)): (u, v, G.edges[u, v].get("link")) for u, v in G.edges}
        self.o = {id(n): d["origin"] for n, d in G.nodes.data() if "origin" in d}
        self.d = {id(n): d["destination"] for n, d in G.nodes.data() if "destination" in d}

    @staticmethod
    def path_well_formed(items):
        """alternating node/link sequence starting and ending with a node, at least 3 long"""
        if len(items) < 3 or len(items) % 2 == 0:
            return False
        return all(isinstance(x, sm.Node) if i % 2 == 0 else isinstance(x, sm.Link) for i, x in enumerate(items))

    def apply(self, op):
        """executes a mutator on the real network and (if it must succeed) on the model.
        Returns (raised exception or None, must_raise)."""
        k = op[0]
        net, O = self.net, self.obj
        must_raise = False
        try:
            if k == "add_node":
                net.add_node(O(op[1]))
                self.m_node(O(op[1]))
            elif k == "add_nodes":
                self.calls += 1
                xs = [O(x) for x in op[1]]
                net.add_nodes(xs if self.calls % 3 else (x for x in xs))  # (any iterable: every third call a generator)
                for x in op[1]:
                    self.m_node(O(x))
            elif k == "add_link":
                net.add_link(O(op[1]), O(op[2]), O(op[3]))
                self.m_link(O(op[1]), O(op[2]), O(op[3]))
            elif k == "add_links":
                self.calls += 1
                triples = [(O(u), O(l), O(v)) for u, l, v in op[1]]
                # the argument is any iterable of triples: a list, a one-shot generator, a zip
                net.add_links(triples if self.calls % 3 == 0 else (t for t in triples) if self.calls % 3 == 1 else zip(*zip(*triples)) if triples else iter(()))
                for u, l, v in op[1]:
                    self.m_link(O(u), O(l), O(v))
            elif k == "add_links_bad":
                # a batch whose last entry is malformed: networkx has added the earlier edges when the error surfaces
                try:
                    net.add_links([(O(u), O(l), O(v)) for u, l, v in op[1]] + [(O(op[1][0][0]), O(op[1][0][1]))])
                except Exception:  # noqa: BLE001
                    pass
                for u, l, v in op[1]:
                    self.m_link(O(u), O(l), O(v))
            elif k == "add_nodes_bad":
                try:
                    net.add_nodes([O(x) for x in op[1]] + [None])
                except Exception:  # noqa: BLE001
                    pass
                for x in op[1]:
                    self.m_node(O(x))
            elif k == "add_origin":
                net.add_origin(O(op[1]), O(op[2]))
                self.m_origin(O(op[1]), O(op[2]))
            elif k == "add_destination":
                net.add_destination(O(op[1]), O(op[2]))
                self.m_dest(O(op[1]), O(op[2]))
            elif k == "add_path":
                items = [O(x) for x in op[1]]
                must_raise = not self.path_well_formed(items)
                net.add_path(iter(items) if len(op) > 4 and op[4] == "iter" else items,
                             origin=O(op[2]) if op[2] else None, destination=O(op[3]) if op[3] else None)
                if not must_raise:
                    self.m_node(items[0])
                    if op[2]:
                        self.m_origin(O(op[2]), items[0])
                    for i in range(0, len(items) - 2, 2):
                        self.m_node(items[i + 2])
                        self.m_link(items[i], items[i + 1], items[i + 2])
                    if op[3]:
                        self.m_dest(O(op[3]), items[-1])
            else:
                raise ValueError(op)
        except Exception as e:  # noqa: BLE001
            if k != "add_path" or not must_raise:
                raise
            return e, must_raise
        return None, must_raise

    # ---- comparisons -----------------------------------------------------------------
    def graph_vs_model(self):
        G = self.net.graph
        v = []
        if sorted(id(n) for n in G.nodes) != sorted(id(n) for n in self.V):
            v.append(("graph nodes", sorted(str(n) for n in G.nodes), sorted(str(n) for n in self.V)))
        edges = {(id(u), id(w)): (u, w, d) for u, w, d in G.edges(data=True)}
        if set(edges) != set(self.lnk):
            v.append(("graph edges", sorted(f"{u}->{w}" for u, w, _ in edges.values()), sorted(f"{u}->{w}" for u, w, _ in self.lnk.values())))
        for e, (u, w, data) in edges.items():
            if e in self.lnk and (set(data) != {"link"} or data["link"] is not self.lnk[e][2]):
                v.append((f"link carried by edge {u}->{w}", str(data), repr(self.lnk[e][2])))
        for n, data in G.nodes.data():
            exp = {}
            if id(n) in self.o:
                exp["origin"] = self.o[id(n)]
            if id(n) in self.d:
                exp["destination"] = self.d[id(n)]
            if set(data) != set(exp) or any(data[k] is not exp[k] for k in exp):
                v.append((f"attachments of node {n}", str(dict(data)), str(exp)))
        return v

    def non_node_nodes(self):
        return [repr(n) for n in self.net.graph.nodes if not isinstance(n, sm.Node)]


# ---------------------------------------------------------------------------------------------
# recomputation from the graph
# ---------------------------------------------------------------------------------------------
def truth(G, name, node=None):
    """value of a lookup recomputed from the graph (Appendix D)"""
    edges = [(u, v, G.edges[u, v]["link"]) for u in G.nodes for v in G.succ[u]]
    if name == "nodes_by_name":
        return {n.name: n for n in G.nodes}
    if name == "links":
        return edges
    if name == "links_by_name":
        return {l.name: l for _, _, l in edges}
    if name == "nodes_by_link":
        return {l: (u, v) for u, v, l in edges}
    if name in ("origins", "origins_by_name", "origins_by_node"):
        o = {d["origin"]: n for n, d in G.nodes.data() if "origin" in d}
        return o if name == "origins" else {x.name: x for x in o} if name == "origins_by_name" else {n: x for x, n in o.items()}
    if name in ("destinations", "destinations_by_name", "destinations_by_node"):
        o = {d["destination"]: n for n, d in G.nodes.data() if "destination" in d}
        return o if name == "destinations" else {x.name: x for x in o} if name == "destinations_by_name" else {n: x for x, n in o.items()}
    if name == "in_links":
        return [(u, node, G.edges[u, node]["link"]) for u in G.pred[node]]
    if name == "out_links":
        return [(node, v, G.edges[node, v]["link"]) for v in G.succ[node]]
    raise KeyError(name)


def _same_mapping(a, b):
    return set(a) == set(b) and all(a[k] is b[k] or a[k] == b[k] for k in a)


def read_and_compare(net, names):
    """reads the lookups and compares them with the recomputation; list of violations"""
    G = net.graph
    viol = []
    for p in names:
        try:
            if p in ("in_links", "out_links"):
                for n in list(G.nodes):
                    got = list(getattr(net, p)(n))
                    exp = truth(G, p, n)
                    if len(got) != len(exp) or any(a[0] is not b[0] or a[1] is not b[1] or a[2] is not b[2] for a, b in zip(got, exp)):
                        viol.append((f"{p}({n.name})", str(got), str(exp)))
            elif p == "links":
                got, exp = list(net.links), truth(G, p)
                if len(got) != len(exp) or any(any(x is not y for x, y in zip(a, b)) for a, b in zip(got, exp)):
                    viol.append(("links", str(got), str(exp)))
                for u, v, l in exp:
                    if net.links[u, v] is not l:
                        viol.append((f"links[{u.name},{v.name}]", str(net.links[u, v]), str(l)))
            else:
                got, exp = dict(getattr(net, p)), truth(G, p)
                if not _same_mapping(got, exp):
                    viol.append((p, str(got), str(exp)))
        except Exception as e:  # noqa: BLE001
            viol.append((f"reading {p} raised {type(e).__name__}: {e}", None, "a value"))
    return viol


def conditions(G, is_ramp):
    """the nine documented conditions; returns the list of violated ones as (number, node name)"""
    bad = []
    slots = [G.edges[u, v]["link"] for u, v in G.edges]
    slots += [d["origin"] for _, d in G.nodes.data() if "origin" in d] + [d["destination"] for _, d in G.nodes.data() if "destination" in d]
    if len({id(x) for x in slots}) != len(slots):
        bad.append((1, None))
    for n, data in G.nodes.data():
        n_in, n_out = len(G.pred[n]), len(G.succ[n])
        has_o, has_d = "origin" in data, "destination" in data
        checks = [(2, has_o and has_d), (3, n_in == 0 and n_out == 0), (4, n_in == 0 and not has_o), (5, n_out == 0 and not has_d),
                  (6, has_o and not is_ramp(data.get("origin")) and n_in > 0), (7, has_o and n_out > 1), (8, has_d and n_in > 1),
                  (9, has_d and n_out > 0)]
        bad += [(c, n.name) for c, t in checks if t]
    return bad
