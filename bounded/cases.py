"""Case streams shared by the step-level property checks (all JSON-able, hence replayable)."""
import itertools

import numpy as np

from netgen import (build_from_recipe, corner_networks, model_params, random_recipe, random_values, zero_values)

OPTS = [dict(delta=d, phi=p) for d in (True, False) for p in (True, False)]


def recipes(rng, incremental=None, max_interior=4, long_links=True):
    """corner recipes first, then an endless stream of random ones with a random corner recipe mixed
    in now and then (so corner networks also meet other states/options)"""
    corners = corner_networks()
    for r in corners:
        yield r
    while True:
        if rng.random() < 0.12:
            yield dict(corners[int(rng.integers(0, len(corners)))], revisit=True)
        else:
            yield random_recipe(rng, incremental=incremental, max_interior=max_interior, long_links=long_links)


def net_cases(rng, kinds=("interior", "boundary"), per_net=2, shapes=("1d",), zero=False, **kw):
    """{recipe, vals, kind, opts, shape} cases: for every recipe `per_net` random states (kinds cycled;
    plus the all-zero state if `zero`).  The first visit of a corner network has delta and phi on,
    everything else draws the delta/phi combination at random."""
    shape_cycle = itertools.cycle(shapes)
    kind_cycle = itertools.cycle(kinds)
    for rec in recipes(rng, **kw):
        first_visit = bool(rec.get("tag")) and not rec.get("revisit")
        rec = {k: v for k, v in rec.items() if k != "revisit"}
        b = build_from_recipe(rec)

        def opts():
            return dict(OPTS[0]) if first_visit else dict(OPTS[int(rng.integers(0, 4))])
        for kind in [next(kind_cycle) for _ in range(per_net)]:
            yield dict(recipe=rec, tag=rec.get("tag", "random"), kind=kind, vals=random_values(rng, b, kind), opts=opts(),
                       shape=next(shape_cycle))
        if zero:
            yield dict(recipe=rec, tag=rec.get("tag", "random"), kind="zero", vals=zero_values(b), opts=opts(), shape=next(shape_cycle))


def params_of(case):
    return model_params(**case.get("opts", {}))


def topo_tags(built):
    """coarse feature tags of a built network (for the distinct_nontrivial statistics)"""
    G = built.net.graph
    tags = set()
    for n in G.nodes:
        i, o = len(G.pred[n]), len(G.succ[n])
        if i >= 2:
            tags.add("merge")
        if o >= 2:
            tags.add("bifurcation")
        if i >= 1 and "origin" in G.nodes[n]:
            tags.add("interior-ramp")
    for el, s in built.spec.items():
        if s["cat"] == "origin":
            tags.add("origin-" + s["kind"] + ("-" + s["type"] if s.get("type") else ""))
        elif s["cat"] == "dest":
            tags.add("dest-" + s["kind"])
        elif s.get("vsl") is not None:
            tags.add("vsl")
        if s["cat"] == "link" and s["N"] == 1:
            tags.add("N1")
    return tags


def seeded(seed):
    return np.random.default_rng(seed)
