"""Checks of the relational / metamorphic properties C10, C11, C12, C14 on stepped networks."""
import copy
import itertools

import casadi as cs
import numpy as np

from cases import net_cases, params_of, topo_tags
from harness import (call, casadi_function, close, jl, next_states, numpy_step, pack_args, run_cases, same, short_tb,
                     unpack_outputs, var_layout)
from netgen import build_from_recipe, random_script, to_init
from props_step import FLAG_NAMES, _ref, rand_flags
from sym_metanet.engines.casadi import Engine as CasadiEngine
from sym_metanet.engines.numpy import Engine as NumpyEngine

CTRL = {"main": "v_ctrl", "ramp": "r", "simple": "q"}


def graph_maps(b):
    G = b.net.graph
    edges = [(u, v, G.edges[u, v]["link"]) for u in G.nodes for v in G.succ[u]]
    return dict(up={l: u for u, _, l in edges}, down={l: v for _, v, l in edges},
                ins={n: [G.edges[u, n]["link"] for u in G.pred[n]] for n in G.nodes},
                outs={n: [G.edges[n, v]["link"] for v in G.succ[n]] for n in G.nodes},
                orig={n: d["origin"] for n, d in G.nodes.data() if "origin" in d},
                dest={n: d["destination"] for n, d in G.nodes.data() if "destination" in d})


# ---------------------------------------------------------------------------------------------
# C10 dependency footprint
# ---------------------------------------------------------------------------------------------
def footprints(b):
    """{(key, var, i) of a next state: set of (key, var, j) inputs it may depend on}"""
    S, K = b.spec, b.key
    g = graph_maps(b)

    def seg(l, i):
        i = i % S[l]["N"]
        return {(K[l], "rho", i), (K[l], "v", i)}

    def origin_inputs(o, m):
        r = set(seg(m, 0))
        if S[o]["kind"] != "ideal":
            r |= {(K[o], "w", 0), (K[o], "d", 0), (K[o], CTRL[S[o]["kind"]], 0)}
        return r

    fp = {}
    for m in b.links.values():
        s, mk = S[m], K[m]
        N = s["N"]
        nu, nd = g["up"][m], g["down"][m]
        for i in range(N):
            R, V = set(seg(m, i)), set(seg(m, i))
            if i > 0:
                R |= seg(m, i - 1)
                V |= {(mk, "v", i - 1)}
            else:
                for x in g["ins"][nu]:
                    R |= seg(x, -1)
                if nu in g["orig"]:
                    R |= origin_inputs(g["orig"][nu], m)
                e = g["ins"][nu]
                if len(e) == 1:
                    V |= {(K[e[0]], "v", S[e[0]]["N"] - 1)}
                elif len(e) >= 2:
                    for x in e:
                        V |= seg(x, -1)
                if nu in g["orig"] and S[g["orig"][nu]]["kind"] in ("ramp", "simple"):
                    V |= origin_inputs(g["orig"][nu], m)  # merging term
            if i < N - 1:
                V |= {(mk, "rho", i + 1)}
            elif nd in g["dest"]:
                if S[g["dest"][nd]]["kind"] == "congested":
                    V |= {(K[g["dest"][nd]], "d", 0)}
            else:
                V |= {(K[x], "rho", 0) for x in g["outs"][nd]}
            if s.get("vsl") is not None and i in s["vsl"]:
                V |= {(mk, "v_ctrl", s["vsl"].index(i))}
            fp[(mk, "rho", i)], fp[(mk, "v", i)] = R, V
    for n, o in g["orig"].items():
        if S[o]["kind"] != "ideal":
            fp[(K[o], "w", 0)] = origin_inputs(o, g["outs"][n][0])
    return fp


def eval_C10(case):
    params = params_of(case)
    b = build_from_recipe(case["recipe"])
    vals = case["vals"]
    mode = case.get("mode", "SX")
    if mode == "numpy":
        def run(v):
            return numpy_step(b, v, params)
    else:
        F, _ = casadi_function(b, params, sym=mode, compact=0)

        def run(v):
            return unpack_outputs(b, call(F, pack_args(b, F, v, 0)), 0)
    base = run(vals)
    fp = footprints(b)
    viol, evals = [], 0
    for key, d in vals.items():
        for var, xs in d.items():
            for j in range(len(xs)):
                v2 = copy.deepcopy(vals)
                v2[key][var][j] = xs[j] * 1.013 + 0.37
                got = run(v2)
                evals += 1
                for (ok, ovar), arr in got.items():
                    for i in np.nonzero(~((arr == base[(ok, ovar)]) | (np.isnan(arr) & np.isnan(base[(ok, ovar)]))))[0]:
                        if (key, var, j) not in fp[(ok, ovar, int(i))]:
                            viol.append((f"[{mode}] next {ovar}[{int(i)}] of {ok} depends on {var}[{j}] of {key}, outside its footprint",
                                         [float(base[(ok, ovar)][i]), float(arr[i])], "unchanged"))
    return dict(violations=viol[:20], evals=evals, tags=list(topo_tags(b)))


def check_C10(rng, budget):
    def gen():
        for i, c in enumerate(net_cases(rng, kinds=("interior",), per_net=1, long_links=False)):
            c["mode"] = ["SX", "numpy", "MX", "SX"][i % 4]
            yield c
    return run_cases("numeric perturbation of every scalar input (each segment's rho and v, each queue, demand, control, VSL entry, "
                     "destination density) one at a time on the compiled function (SX/MX) and on the NumPy step: a next state may "
                     "change only if the input is in its footprint (own segment, segment/node inflow upstream, upstream speed, "
                     "density immediately downstream, own speed limit, merging ramp; queue: own w,d,control, first segment)",
                     budget, gen(), eval_C10)


# ---------------------------------------------------------------------------------------------
# C11 positivity options are clamps
# ---------------------------------------------------------------------------------------------
def _clamp_vals(b, vals, flags):
    out = copy.deepcopy(vals)
    for key, d in out.items():
        cat = b.spec[b.el(key)]["cat"]
        if cat == "link":
            if flags["positive_init_density"]:
                d["rho"] = [max(0.0, x) for x in d["rho"]]
            if flags["positive_init_speed"]:
                d["v"] = [max(0.0, x) for x in d["v"]]
        elif cat == "origin" and flags["positive_init_queue"] and "w" in d:
            d["w"] = [max(0.0, x) for x in d["w"]]
    return out


def eval_C11(case):
    params = params_of(case)
    b = build_from_recipe(case["recipe"])
    vals = case["vals"]
    viol, evals = [], 0
    off = {k: False for k in FLAG_NAMES}
    plain_cache = {}
    combos = case.get("combos") or [dict(zip(FLAG_NAMES, bits)) for bits in itertools.product((False, True), repeat=6)]
    nontrivial = set()
    # all options off: nothing is clamped (independent oracle where the reference is defined)
    plain = numpy_step(b, vals, params, off)
    try:
        ref = _ref(b, vals, params)
        if not ref["singular"] and not ref["kf"]:
            from props_step import _cmp_with_ref
            v0 = []
            _cmp_with_ref(b, plain, ref, v0, "all options off: ")
            viol += v0
            if any(np.any(x < 0) for x in plain.values()):
                nontrivial.add("negative-next-unclamped")
    except (ValueError, OverflowError, ZeroDivisionError):
        pass
    for flags in combos:
        ikey = tuple(flags[k] for k in FLAG_NAMES[:3])
        if ikey not in plain_cache:
            plain_cache[ikey] = numpy_step(b, _clamp_vals(b, vals, flags), params, off)
        exp = {}
        for (key, var), x in plain_cache[ikey].items():
            fl = {"rho": "positive_next_density", "v": "positive_next_speed", "w": "positive_next_queue"}[var]
            exp[(key, var)] = np.maximum(0.0, x) if flags[fl] else x
            if flags[fl] and np.any(x < 0):
                nontrivial.add("next-" + var)
        got = numpy_step(b, vals, params, flags)
        evals += 1
        for k in exp:
            if not close(got[k], exp[k]):
                on = [n for n in FLAG_NAMES if flags[n]]
                viol.append((f"options {on}: next {k[1]} of {k[0]} != clamp(plain step(clamp(values)))", jl(got[k]), jl(exp[k])))
    if case.get("casadi"):
        flags = combos[case.get("casadi_combo", 0) % len(combos)]
        b2 = build_from_recipe(case["recipe"])
        F, _ = casadi_function(b2, params, sym=case["casadi"], compact=0, flags=flags)
        got = unpack_outputs(b2, call(F, pack_args(b2, F, vals, 0)), 0)
        want = numpy_step(b, vals, params, flags)
        evals += 1
        for k in want:  # (NaN: outside the model's domain, fmax/np.maximum propagate it differently)
            if not np.any(np.isnan(want[k])) and not np.any(np.isnan(got[k])) and not close(got[k], want[k]):
                viol.append((f"casadi {case['casadi']} with options {[n for n in FLAG_NAMES if flags[n]]}: next {k[1]} of {k[0]}",
                             jl(got[k]), jl(want[k])))
    return dict(violations=viol[:20], evals=evals, tags=list(nontrivial) + ["vsl"] * ("vsl" in topo_tags(b)))


def check_C11(rng, budget):
    def gen():
        for i, c in enumerate(net_cases(rng, kinds=("negative", "boundary"), per_net=2, long_links=False)):
            c["casadi"] = [None, "SX", None, "MX"][i % 4]
            c["casadi_combo"] = int(rng.integers(0, 64))
            yield c
    return run_cases("all 64 combinations of the six positivity options on negative and boundary states: step(options)(x) == "
                     "clamp_next(plain step(clamp_init(x))) per element/segment; all-off step == independent reference (unclamped, "
                     "negative next speeds occur); one CasADi function per case with a random combination", budget, gen(), eval_C11)


# ---------------------------------------------------------------------------------------------
# C12 purity and repeatability
# ---------------------------------------------------------------------------------------------
ATTRS = {"link": ("N", "lam", "L", "rho_max", "rho_crit", "v_free", "a", "turnrate"), "origin": (), "dest": ()}


def _element_params(b):
    snap = {}
    for key, el in b.elements.items():
        s = b.spec[el]
        d = {a: getattr(el, a) for a in ATTRS[s["cat"]]}
        if s["cat"] == "link" and s.get("vsl") is not None:
            d["vsl"], d["alpha"] = list(el.vsl), el.alpha
        if s["cat"] == "origin" and s["kind"] in ("ramp", "simple"):
            d["C"], d["type"] = el.C, el.flow_eq_type
        d["name"] = el.name
        snap[key] = d
    return snap


def _expected_params(b):
    snap = {}
    names = b.recipe.get("names", {})
    for key, el in b.elements.items():
        s = b.spec[el]
        d = {a: s[a] for a in ATTRS[s["cat"]]}
        if s["cat"] == "link" and s.get("vsl") is not None:
            d["vsl"], d["alpha"] = list(s["vsl"]), s["alpha"]
        if s["cat"] == "origin" and s["kind"] in ("ramp", "simple"):
            d["C"], d["type"] = s["C"], s["type"]
        d["name"] = names.get(key, key)
        snap[key] = d
    return snap


def _snapshot(init):
    return {el: {k: (copy.deepcopy(x), x) for k, x in d.items()} for el, d in init.items()}


def _check_unchanged(b, init, snap, viol, label):
    if set(init) != set(snap):
        viol.append((label + "supplied dictionary gained/lost elements", len(init), len(snap)))
    for el, d in snap.items():
        cur = init.get(el, {})
        if list(cur) != list(d):
            viol.append((label + f"supplied dictionary of {b.key[el]} changed its keys", list(cur), list(d)))
        for k, (val, obj) in d.items():
            if k in cur:
                if cur[k] is not obj:
                    viol.append((label + f"entry {k} of {b.key[el]} was replaced in the supplied dictionary", repr(cur[k])[:80], repr(obj)[:80]))
                elif isinstance(obj, (cs.SX, cs.MX)):
                    if str(obj) != str(val) or not obj.is_valid_input():
                        viol.append((label + f"supplied symbol {k} of {b.key[el]} was modified", str(obj), str(val)))
                elif not same(obj, val):
                    viol.append((label + f"supplied array {k} of {b.key[el]} was modified in place", jl(obj), jl(val)))


def eval_C12(case):
    params = params_of(case)
    flags = case.get("flags")
    fl = {k: bool(v) for k, v in (flags or {}).items()}
    fa, fb = np.array(case["fills"][0]), np.array(case["fills"][1])
    viol, evals = [], 0
    b = build_from_recipe(case["recipe"])
    vals = copy.deepcopy(case["vals"])
    for key, var in case.get("drop", []):
        if key in vals and var in vals[key]:
            del vals[key][var]
    init = to_init(b, vals, case.get("shape", "1d"))
    snap = _snapshot(init)
    pexp = _expected_params(b)

    def step(bb, ini, fill):
        bb.net.step(init_conditions=ini, engine=NumpyEngine(fill), **fl, **params)
        return next_states(bb)

    ns1 = step(b, init, fa)
    evals += 1
    _check_unchanged(b, init, snap, viol, "after the first step: ")
    if _element_params(b) != pexp:
        viol.append(("element parameters changed by a step", str(_element_params(b))[:300], str(pexp)[:300]))
    # something else in between: other values/options/engines/compilations on the same objects
    rng = np.random.default_rng(case.get("seed", 0))
    other = {k: {n: [float(x * rng.uniform(0.5, 1.5) + rng.uniform(0, 3)) for x in xs] for n, xs in d.items()} for k, d in case["vals"].items()}
    for what in case.get("between", ["numpy", "SX", "MX"]):
        try:
            if what == "numpy":
                b.net.step(init_conditions=to_init(b, other), engine=NumpyEngine(np.array(3.3)), positive_next_speed=True,
                           **{k: v for k, v in params.items() if k not in ("delta", "phi")})
            else:
                eng = CasadiEngine(what)
                b.net.step(engine=eng, **params)
                eng.to_function(b.net, compact=int(rng.integers(0, 3)), **params)
        except Exception as e:
            viol.append((f"intermediate {what} step raised {type(e).__name__}: {e}", short_tb(), "no exception"))
    ns2 = step(b, init, fa)
    _check_unchanged(b, init, snap, viol, "after the repeated step: ")
    for k in ns1:
        if k not in ns2 or not same(ns1[k], ns2[k]):
            viol.append((f"repeated step from the same values: next {k[1]} of {k[0]} differs", jl(ns2.get(k, [])), jl(ns1[k])))
    # same dictionary, another engine default: must equal a fresh network stepped once that way
    ns3 = step(b, init, fb)
    b2 = build_from_recipe(case["recipe"])
    fresh = step(b2, {b2.el(b.key[el]): {k: copy.deepcopy(v[0]) for k, v in d.items()} for el, d in snap.items()}, fb)
    evals += 3
    for k in fresh:
        if k not in ns3 or not same(ns3[k], fresh[k]):
            viol.append((f"step after other steps differs from a fresh network stepped the same way: next {k[1]} of {k[0]}",
                         jl(ns3.get(k, [])), jl(fresh[k])))
    if _element_params(b) != pexp:
        viol.append(("element parameters changed by stepping", str(_element_params(b))[:300], str(pexp)[:300]))
    # a simulation loop that re-uses its buffers: the same array objects, updated in place between two
    # steps, must give what a fresh network gives from those values (no state hidden in the elements)
    try:
        vals_other = {k: {n: other[k][n] for n in d} for k, d in vals.items()}
        b4 = build_from_recipe(case["recipe"])
        init4 = to_init(b4, vals, "1d")
        step(b4, init4, fa)
        for el, d in init4.items():
            for n, arr in d.items():
                arr[...] = np.array(vals_other[b4.key[el]][n], dtype=float)
        got4 = step(b4, init4, fa)
        b5 = build_from_recipe(case["recipe"])
        want4 = step(b5, to_init(b5, vals_other, "1d"), fa)
        evals += 3
        for k in want4:
            if k not in got4 or not same(got4[k], want4[k]):
                viol.append((f"stepping again after the supplied arrays were updated in place: next {k[1]} of {k[0]} differs from a fresh network stepped from the same values",
                             jl(got4.get(k, [])), jl(want4[k])))
    except Exception as e:  # noqa: BLE001
        viol.append((f"re-stepping with buffers updated in place raised {type(e).__name__}: {e}", short_tb(), "no exception"))
    # symbols supplied as initial conditions
    sym = case.get("sym")
    if sym:
        T = getattr(cs, sym)
        b3 = build_from_recipe(case["recipe"])
        init_s = {b3.el(k): {n: T.sym(f"{n}_{k}", len(xs)) for n, xs in d.items()} for k, d in vals.items()}
        snap_s = _snapshot(init_s)
        eng = CasadiEngine(sym)
        outs = []
        for rep in range(2):
            b3.net.step(init_conditions=init_s, engine=eng, **fl, **params)
            F = eng.to_function(b3.net, compact=0, **params)
            _check_unchanged(b3, init_s, snap_s, viol, f"casadi {sym} step {rep}: ")
            if F.has_free():
                viol.append((f"casadi {sym}: function has free symbols", str(F.get_free()), []))
                break
            full = {k: dict(d) for k, d in case["vals"].items()}
            outs.append(np.concatenate([np.zeros(0)] + call(F, _args_for(b3, F, full))))
            if rep == 0:
                b3.net.step(engine=CasadiEngine("MX" if sym == "SX" else "SX"), **params)
        evals += 2
        if len(outs) == 2 and not same(outs[0], outs[1]):
            viol.append((f"casadi {sym}: compiled step repeated from the same symbols differs", jl(outs[1]), jl(outs[0])))
    return dict(violations=viol[:20], evals=evals, tags=list(topo_tags(b)))


def _args_for(b, F, vals):
    """arguments of a compact-0 function by parsing nothing: uses the documented layout, falling back
    to engine-created variables (not in `vals`) as zeros"""
    from harness import expected_inputs
    args = []
    for i, (name, size, es) in enumerate(expected_inputs(b, 0)):
        el, var, n = es[0]
        x = vals.get(b.key[el], {}).get(var)
        args.append(np.asarray(x, float) if x is not None and n else (np.zeros(n) if n else cs.DM.zeros(*F.size_in(i))))
    return args


def check_C12(rng, budget):
    def gen():
        for i, c in enumerate(net_cases(rng, kinds=("interior", "boundary", "negative"), per_net=2, long_links=False,
                                        shapes=("1d", "1d", "0d", "float"))):
            c["flags"] = rand_flags(rng, 0.4) if i % 2 else None
            c["fills"] = [float(rng.uniform(1, 40)), float(rng.uniform(41, 90))]
            drop = []
            if i % 3 != 0:  # partial dictionaries: drop some variables / whole elements
                for key, d in c["vals"].items():
                    r = rng.random()
                    if r < 0.25:
                        drop += [[key, v] for v in d]
                    elif r < 0.6:
                        drop += [[key, v] for v in d if rng.random() < 0.5]
            c["drop"] = drop
            if drop:  # engine-made variables are (1,) arrays: keep the supplied scalars shape-compatible
                c["shape"] = "1d"
            c["seed"] = int(rng.integers(0, 2 ** 31))
            c["sym"] = [None, "SX", "MX"][i % 3]
            c["between"] = [["numpy", "SX"], ["MX", "numpy"], ["SX", "MX", "numpy"]][i % 3]
            yield c
    return run_cases("Network.step with user arrays (complete and partial dictionaries; (1,), 0-d, float scalars) and supplied "
                     "SX/MX symbols: supplied dict (keys, object identity), arrays (bitwise) and element parameters unchanged; "
                     "stepping again from the same dict after other NumPy/CasADi steps and compilations gives bitwise identical "
                     "next states, equal to a fresh network stepped once the same way", budget, gen(), eval_C12)


# ---------------------------------------------------------------------------------------------
# C14 invariance to construction order, names, turn-rate scaling; share = beta / sum(betas)
# ---------------------------------------------------------------------------------------------
def _inflows(b, vals, nxt, T):
    res = {}
    for key, l in b.links.items():
        s = b.spec[l]
        q0 = vals[key]["rho"][0] * vals[key]["v"][0] * s["lam"]
        cap = s["lam"] * s["L"] / T
        res[l] = ((nxt[(key, "rho")][0] - vals[key]["rho"][0]) * cap + q0,
                  (abs(nxt[(key, "rho")][0]) + abs(vals[key]["rho"][0])) * cap + abs(q0))
    return res


def eval_C14(case):
    params = params_of(case)
    T = params["T"]
    rec = case["recipe"]
    vals = case["vals"]
    b = build_from_recipe(rec)
    ref = _ref(b, vals, params)
    if ref["singular"]:
        return dict(evals=0, skipped=1)
    base = numpy_step(b, vals, params)
    viol, evals = [], 1
    rng = np.random.default_rng(case["seed"])
    # (a) permuted construction orders
    for rep in range(case.get("perms", 2)):
        r2 = copy.deepcopy(rec)
        for part in ("nodes", "links", "origins", "dests"):
            rng.shuffle(r2[part])
        r2["script"] = random_script(rng, r2, incremental=False) if rep else None
        b2 = build_from_recipe(r2)
        got = numpy_step(b2, vals, params)
        evals += 1
        for k in base:
            if not close(got[k], base[k]):
                viol.append((f"permuted construction order: next {k[1]} of {k[0]} differs", jl(got[k]), jl(base[k])))
        if case.get("casadi"):
            b3 = build_from_recipe(r2)
            F, _ = casadi_function(b3, params, sym=case["casadi"], compact=0)
            got = unpack_outputs(b3, call(F, pack_args(b3, F, vals, 0)), 0)
            for k in base:
                if not close(got[k], base[k]):
                    viol.append((f"permuted construction order, casadi: next {k[1]} of {k[0]} differs", jl(got[k]), jl(base[k])))
    # (b) renamed elements
    r3 = copy.deepcopy(rec)
    keys = r3["nodes"] + [x["key"] for x in r3["links"] + r3["origins"] + r3["dests"]]
    mode = case.get("rename", "reverse")
    r3["names"] = {k: ("same" if mode == "same" else f"zz{len(keys) - i}_{k[::-1]}") for i, k in enumerate(keys)}
    got = numpy_step(build_from_recipe(r3), vals, params)
    evals += 1
    for k in base:
        if not close(got[k], base[k]):
            viol.append((f"renamed elements ({mode}): next {k[1]} of {k[0]} differs", jl(got[k]), jl(base[k])))
    # (c) turn rates of all links leaving a node scaled by a common factor
    r4 = copy.deepcopy(rec)
    factor = {n: float(rng.choice([0.25, 0.5, 3.0, 7.0])) for n in r4["nodes"]}
    for l in r4["links"]:
        l["turnrate"] = l["turnrate"] * factor[l["up"]]
    got = numpy_step(build_from_recipe(r4), vals, params)
    evals += 1
    for k in base:
        if not close(got[k], base[k]):
            viol.append((f"turn rates scaled per node: next {k[1]} of {k[0]} differs", jl(got[k]), jl(base[k])))
    # (c') the same scaling applied to the turn-rate attributes of a network that was already stepped
    try:
        b4 = build_from_recipe(rec)
        numpy_step(b4, vals, params)
        for key, l in b4.links.items():
            l.turnrate = l.turnrate * factor[next(x["up"] for x in rec["links"] if x["key"] == key)]
        got = numpy_step(b4, vals, params)
        evals += 2
        for k in base:
            if not close(got[k], base[k]):
                viol.append((f"turn rates of an already stepped network scaled per node: next {k[1]} of {k[0]} differs", jl(got[k]), jl(base[k])))
    except Exception as e:  # noqa: BLE001
        viol.append((f"re-stepping after scaling the turn-rate attributes raised {type(e).__name__}: {e}", short_tb(), "no exception"))
    # (d) share of the node inflow = beta / sum(betas)
    g = graph_maps(b)
    infl = _inflows(b, vals, base, T)
    S = b.spec
    for n, outs in g["outs"].items():
        if not outs:
            continue
        Q = sum(vals[b.key[x]]["rho"][-1] * vals[b.key[x]]["v"][-1] * S[x]["lam"] for x in g["ins"][n])
        scale = abs(Q)
        if n in g["orig"]:
            o = g["orig"][n]
            if S[o]["kind"] == "ideal":
                continue  # its flow is defined by the link itself
            ok = b.key[o]
            Q += vals[ok]["d"][0] - (base[(ok, "w")][0] - vals[ok]["w"][0]) / T
            scale += abs(vals[ok]["d"][0]) + (abs(base[(ok, "w")][0]) + abs(vals[ok]["w"][0])) / T
        sb = sum(S[x]["turnrate"] for x in outs)
        for m in outs:
            exp = S[m]["turnrate"] / sb * Q
            if not close(infl[m][0], exp, scale=scale + infl[m][1]):
                viol.append((f"share of the inflow of node {n.name} received by {b.key[m]} != beta/sum(betas)", float(infl[m][0]), float(exp)))
    return dict(violations=viol[:20], evals=evals, tags=list(topo_tags(b)))


def check_C14(rng, budget):
    def gen():
        for i, c in enumerate(net_cases(rng, kinds=("interior",), per_net=1, long_links=False)):
            c["seed"] = int(rng.integers(0, 2 ** 31))
            c["rename"] = ["reverse", "same"][i % 2]
            c["casadi"] = [None, None, "SX", None, "MX", None][i % 6]
            c["opts"] = dict(delta=bool(i % 2), phi=bool(i % 4 < 3))
            yield c
    return run_cases("per-element next states (rel/abs 1e-9) equal under: permuted node/link/origin/destination insertion orders and "
                     "random construction scripts (add_path/add_link/add_links/...), renaming (reversed names, all elements "
                     "named alike), scaling the turn rates of all links leaving a node by a common factor; inflow share of every "
                     "leaving link == beta/sum(betas) of the node's total inflow", budget, gen(), eval_C14)
