"""Shared helpers of the property checks: stepping/compiling wrappers, the documented
argument/result layout recomputed from the graph, tolerant comparison, case bookkeeping."""
import copy
import time
import traceback

import casadi as cs
import numpy as np

from netgen import to_init
from reference import FLAGS
from sym_metanet.engines.casadi import Engine as CasadiEngine
from sym_metanet.engines.numpy import Engine as NumpyEngine

RTOL = ATOL = 1e-9


def close(a, b, rtol=RTOL, atol=ATOL, scale=0.0):
    """tolerant equality of two array-likes (NaN equals NaN, inf equals inf of the same sign)"""
    a, b = np.asarray(a, float).ravel(), np.asarray(b, float).ravel()
    if a.shape != b.shape:
        return False
    with np.errstate(invalid="ignore"):
        return bool(np.all((np.abs(a - b) <= atol * (1 + scale) + rtol * np.maximum(np.abs(a), np.abs(b))) | (a == b)
                           | (np.isnan(a) & np.isnan(b))))


def same(a, b):
    """bitwise-style equality (NaN == NaN)"""
    a, b = np.asarray(a, float), np.asarray(b, float)
    return a.shape == b.shape and bool(np.all((a == b) | (np.isnan(a) & np.isnan(b))))


def jl(x):
    """JSON-able list of floats"""
    return [float(y) for y in np.asarray(x, float).ravel()]


def short_tb():
    return traceback.format_exc(limit=-4)[-1500:]


# ---------------------------------------------------------------------------------------------
# documented layout, recomputed from the graph and the recipe spec
# ---------------------------------------------------------------------------------------------
def element_order(built):
    """links in edge order, then origins, then destinations (dict semantics: first position)"""
    G = built.net.graph
    links = [G.edges[u, v]["link"] for u in G.nodes for v in G.succ[u]]
    origins, dests = [], []
    for n, data in G.nodes.data():
        if "origin" in data and data["origin"] not in origins:
            origins.append(data["origin"])
    for n, data in G.nodes.data():
        if "destination" in data and data["destination"] not in dests:
            dests.append(data["destination"])
    return links, origins, dests


def var_layout(built):
    """{'x': [(el, var, size)], 'u': [...], 'd': [...]} in the documented order"""
    links, origins, dests = element_order(built)
    S = built.spec
    x, u, d = [], [], []
    for l in links:
        x += [(l, "rho", S[l]["N"]), (l, "v", S[l]["N"])]
        if S[l].get("vsl") is not None:
            u.append((l, "v_ctrl", len(S[l]["vsl"])))
    for o in origins:
        k = S[o]["kind"]
        if k != "ideal":
            x.append((o, "w", 1))
            u.append((o, {"main": "v_ctrl", "ramp": "r", "simple": "q"}[k], 1))
            d.append((o, "d", 1))
    for t in dests:
        if S[t]["kind"] == "congested":
            d.append((t, "d", 1))
    return {"x": x, "u": u, "d": d}


def _groups(entries):
    g = {}
    for e in entries:
        g.setdefault(e[1], []).append(e)
    return g


def expected_inputs(built, compact, pnames=()):
    """[(name, size, [entries])] of the function arguments at a compactness level"""
    lay = var_layout(built)
    out = []
    if compact <= 0:
        for grp in ("x", "u", "d"):
            out += [(f"{var}_{el.name}", n, [(el, var, n)]) for el, var, n in lay[grp]]
    elif compact == 1:
        for grp in ("x", "u", "d"):
            out += [(name, sum(e[2] for e in es), es) for name, es in _groups(lay[grp]).items()]
    else:
        for grp in ("x", "u", "d"):
            es = [e for g in _groups(lay[grp]).values() for e in g]
            out.append((grp, sum(e[2] for e in es), es))
    return out


def expected_outputs(built, compact):
    lay = var_layout(built)
    if compact <= 0:
        return [(f"{var}_{el.name}+", n, [(el, var, n)]) for el, var, n in lay["x"]]
    if compact == 1:
        return [(name + "+", sum(e[2] for e in es), es) for name, es in _groups(lay["x"]).items()]
    es = [e for g in _groups(lay["x"]).values() for e in g]
    return [("x+", sum(e[2] for e in es), es)]


def pack_args(built, F, vals, compact, pvalues=()):
    """positional numeric arguments of F from key-indexed values, using the documented layout"""
    args = []
    for i, (name, size, es) in enumerate(expected_inputs(built, compact)):
        if size == 0:
            args.append(cs.DM.zeros(*F.size_in(i)))
        else:
            args.append(np.concatenate([np.asarray(vals[built.key[el]][var], float) for el, var, n in es if n]))
    return args + list(pvalues)


def unpack_outputs(built, outs, compact):
    """{(element key, var): array} from the function results"""
    res = {}
    for (name, size, es), o in zip(expected_outputs(built, compact), outs):
        o = np.asarray(o, float).ravel()
        pos = 0
        for el, var, n in es:
            res[(built.key[el], var)] = o[pos:pos + n]
            pos += n
    return res


# ---------------------------------------------------------------------------------------------
# stepping and compiling
# ---------------------------------------------------------------------------------------------
def split_flags(opts):
    opts = dict(opts or {})
    return {k: bool(opts.get(k, False)) for k in FLAGS}


def numpy_step(built, vals, params, flags=None, shape="1d", engine=None, init=None):
    """Steps with the NumPy engine from (a copy of) the key-indexed values; returns
    {(element key, var): 1-d array} of all next states."""
    init = to_init(built, vals, shape) if init is None else init
    built.net.step(init_conditions=init, engine=engine or NumpyEngine(), **split_flags(flags), **params)
    return next_states(built)


def next_states(built):
    res = {}
    for key, el in built.elements.items():
        if el.next_states:
            for var, x in el.next_states.items():
                res[(key, var)] = np.atleast_1d(np.asarray(x, float)).ravel().copy()
    return res


def casadi_function(built, params, sym="SX", compact=0, flags=None, more_out=False, parameters=None, init=None):
    """Symbolic step + compilation; returns (F, engine)."""
    eng = CasadiEngine(sym)
    step_params = dict(params)
    if parameters:
        step_params.update({k: v for k, v in parameters.items() if k in ("T", "tau", "eta", "kappa", "delta", "phi")})
    built.net.step(init_conditions=init, engine=eng, **split_flags(flags), **step_params)
    kw = {k: v for k, v in params.items() if not (parameters and k in parameters)}
    F = eng.to_function(built.net, compact=compact, more_out=more_out, parameters=parameters, **kw)
    return F, eng


def call(F, args):
    out = F.call([a if isinstance(a, cs.DM) else cs.DM(np.asarray(a, float)) for a in args])
    return [np.asarray(o, float).ravel() for o in out]


def ref_as_keys(built, ref):
    """reference next states keyed like numpy_step's result"""
    res = {}
    for el, d in ref["next"].items():
        for var, x in d.items():
            res[(built.key[el], var)] = np.atleast_1d(np.asarray(x, float))
    return res


# ---------------------------------------------------------------------------------------------
# result bookkeeping
# ---------------------------------------------------------------------------------------------
class Report:
    MAX_RECORDED = 25

    def __init__(self, rule, budget):
        self.t0 = time.time()
        self.budget = budget
        self.rule = rule
        self.evaluations = 0
        self.nontrivial = set()
        self.violations = []
        self.total_violations = 0
        self.samples = []
        self.skipped = 0

    def time_left(self):
        return self.budget - (time.time() - self.t0)

    def out_of_time(self):
        return self.time_left() <= 0

    def sample(self, x):
        if len(self.samples) < 4:
            self.samples.append(x)

    def violation(self, case, what, observed=None, expected=None):
        self.total_violations += 1
        if len(self.violations) < self.MAX_RECORDED:
            c = copy.deepcopy(case)
            self.violations.append({"what": what, "recipe": c.get("recipe"), "inputs": {k: v for k, v in c.items() if k != "recipe"},
                                    "observed": observed, "expected": expected})

    def result(self):
        return {"evaluations": self.evaluations, "distinct_nontrivial": len(self.nontrivial), "rule": self.rule,
                "violations": self.violations, "violations_total": self.total_violations, "samples": self.samples,
                "skipped": self.skipped}


def run_cases(rule, budget, cases, evaluate):
    """Generic driver: `cases` yields JSON-able case dicts, `evaluate(case)` returns a dict
    {"violations": [(what, observed, expected)], "evals": int, "skipped": int, "tags": [..]}."""
    rep = Report(rule, budget)
    for case in cases:
        if rep.out_of_time():
            break
        try:
            r = evaluate(case)
        except Exception as e:  # the library (or the harness) failed on an admissible input
            r = {"violations": [(f"exception {type(e).__name__}: {e}", short_tb(), "no exception")], "evals": 1}
        rep.evaluations += r.get("evals", 1)
        rep.skipped += r.get("skipped", 0)
        for t in r.get("tags", ()):
            rep.nontrivial.add(t)
        for what, obs, exp in r.get("violations", ()):
            rep.violation(case, what, obs, exp)
        if not r.get("violations") and r.get("evals", 1):
            rep.sample({k: v for k, v in case.items() if k in ("tag", "kind", "opts", "recipe_tag", "history")})
    return rep.result()
