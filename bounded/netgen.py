"""Generators for the bounded stand-in: recipes (JSON-able descriptions) of valid sym-metanet
networks, a deterministic builder, hand-made corner networks and random states.

A *recipe* is a dict
    {"nodes":   [node keys in creation order],
     "links":   [{"key","up","down","N","lam","L","rho_max","rho_crit","v_free","a","turnrate",
                  "vsl": None | [segment indices], "alpha": float}],
     "origins": [{"key","node","kind": ideal|main|ramp|simple, "C", "type"}],
     "dests":   [{"key","node","kind": free|congested}],
     "names":   {key: display name}            (optional; default display name = key)
     "script":  [construction ops] | None}     (optional; default = canonical script)
Construction ops (executed through the public construction API of `Network`):
    ["node", n] ["nodes", [n..]] ["link", l] ["links", [l..]] ["origin", o] ["dest", d]
    ["path", [n, l, n, ...], o|None, d|None]
    ["read", [lookup names]]  ["valid"]  ["step"]      (probes interleaved with construction)
Every element appears in exactly one mutating op, so the final graph is the one described by
nodes/links/origins/dests whatever the script; only the insertion orders differ.
"""
import copy

import numpy as np

import sym_metanet as sm
from sym_metanet.engines.numpy import Engine as NumpyEngine

BASE = dict(T=10 / 3600, tau=18 / 3600, eta=60.0, kappa=40.0)
DELTA, PHI = 0.0122, 2.0
LINK_DEFAULT = dict(N=2, lam=2, L=1.0, rho_max=180.0, rho_crit=33.5, v_free=102.0, a=1.867,
                    turnrate=1.0, vsl=None, alpha=0.0)
LOOKUPS = ("nodes_by_name", "links_by_name", "nodes_by_link", "origins", "origins_by_name",
           "origins_by_node", "destinations", "destinations_by_name", "destinations_by_node",
           "in_links", "out_links", "links")


def model_params(delta=False, phi=False, **over):
    p = dict(BASE)
    if delta:
        p["delta"] = DELTA
    if phi:
        p["phi"] = PHI
    p.update(over)
    return p


# ---------------------------------------------------------------------------------------------
# recipes
# ---------------------------------------------------------------------------------------------
def mk_link(key, up, down, **kw):
    d = dict(LINK_DEFAULT, key=key, up=up, down=down)
    d.update(kw)
    if d["vsl"] is not None:
        d["vsl"] = sorted(int(i) for i in d["vsl"])
    return d


def mk_origin(key, node, kind="main", C=2000.0, type=None):
    if type is None:
        type = {"ramp": "out", "simple": "limited"}.get(kind)
    return dict(key=key, node=node, kind=kind, C=C, type=type)


def mk_dest(key, node, kind="free"):
    return dict(key=key, node=node, kind=kind)


def mk_recipe(links, origins, dests, script=None, names=None, nodes=None, tag=None):
    if nodes is None:
        nodes = []
        for l in links:
            for n in (l["up"], l["down"]):
                if n not in nodes:
                    nodes.append(n)
        for x in list(origins) + list(dests):
            if x["node"] not in nodes:
                nodes.append(x["node"])
    r = dict(nodes=list(nodes), links=list(links), origins=list(origins), dests=list(dests))
    if names:
        r["names"] = dict(names)
    if script is not None:
        r["script"] = script
    if tag:
        r["tag"] = tag
    return r


def default_script(recipe):
    """nodes in order, links one by one, origins, destinations."""
    ops = [["nodes", list(recipe["nodes"])]]
    ops += [["link", l["key"]] for l in recipe["links"]]
    ops += [["origin", o["key"]] for o in recipe["origins"]]
    ops += [["dest", d["key"]] for d in recipe["dests"]]
    return ops


class Built:
    """A network built from a recipe together with the maps recipe key <-> element object and
    the per-element specification (taken from the recipe, *not* read back from the objects)."""

    def __init__(self, recipe):
        self.recipe = recipe
        self.net = None
        self.nodes, self.links, self.origins, self.dests = {}, {}, {}, {}
        self.spec = {}  # element object -> dict(cat=link|origin|dest, key=..., **recipe fields)
        self.key = {}  # element object -> recipe key

    def __iter__(self):  # allows `net, recipe = random_valid_network(rng)`
        return iter((self.net, self.recipe))

    @property
    def elements(self):
        return {**self.links, **self.origins, **self.dests}

    def el(self, key):
        return self.elements[key]


def _make_elements(recipe, overrides=None):
    overrides = overrides or {}
    names = recipe.get("names", {})
    b = Built(recipe)

    def ov(key, attr, val):
        return overrides.get((key, attr), val)

    for n in recipe["nodes"]:
        b.nodes[n] = sm.Node(name=names.get(n, n))
    for l in recipe["links"]:
        k = l["key"]
        args = (l["N"], ov(k, "lam", l["lam"]), ov(k, "L", l["L"]), ov(k, "rho_max", l["rho_max"]),
                ov(k, "rho_crit", l["rho_crit"]), ov(k, "v_free", l["v_free"]), ov(k, "a", l["a"]))
        kw = dict(turnrate=ov(k, "turnrate", l["turnrate"]), name=names.get(k, k))
        if l.get("vsl") is not None:
            obj = sm.LinkWithVsl(*args, segments_with_vsl=set(l["vsl"]), alpha=l["alpha"], **kw)
        else:
            obj = sm.Link(*args, **kw)
        b.links[k] = obj
        b.spec[obj] = dict(l, cat="link")
        b.key[obj] = k
    for o in recipe["origins"]:
        k, nm = o["key"], names.get(o["key"], o["key"])
        if o["kind"] == "ideal":
            obj = sm.Origin(name=nm)
        elif o["kind"] == "main":
            obj = sm.MainstreamOrigin(name=nm)
        elif o["kind"] == "ramp":
            obj = sm.MeteredOnRamp(ov(k, "C", o["C"]), o["type"], name=nm)
        elif o["kind"] == "simple":
            obj = sm.SimplifiedMeteredOnRamp(ov(k, "C", o["C"]), o["type"], name=nm)
        else:
            raise ValueError(o["kind"])
        b.origins[k] = obj
        b.spec[obj] = dict(o, cat="origin")
        b.key[obj] = k
    for d in recipe["dests"]:
        k, nm = d["key"], names.get(d["key"], d["key"])
        obj = sm.CongestedDestination(name=nm) if d["kind"] == "congested" else sm.Destination(name=nm)
        b.dests[k] = obj
        b.spec[obj] = dict(d, cat="dest")
        b.key[obj] = k
    return b


def read_lookups(net, which):
    """Reads (and thereby caches) the named lookups; returns nothing."""
    for p in which:
        if p in ("in_links", "out_links"):
            view = getattr(net, p)
            for n in list(net.graph.nodes):
                list(view(n))
        elif p == "links":
            list(net.links)
        else:
            dict(getattr(net, p))


def run_script(b, ops, upto=None):
    """Executes construction ops on b.net; returns the number of ops executed."""
    net = b.net
    ldef = {l["key"]: l for l in b.recipe["links"]}
    odef = {o["key"]: o for o in b.recipe["origins"]}
    ddef = {d["key"]: d for d in b.recipe["dests"]}

    def triple(k):
        return (b.nodes[ldef[k]["up"]], b.links[k], b.nodes[ldef[k]["down"]])

    for i, op in enumerate(ops):
        if upto is not None and i >= upto:
            return i
        kind = op[0]
        if kind == "node":
            net.add_node(b.nodes[op[1]])
        elif kind == "nodes":
            net.add_nodes([b.nodes[n] for n in op[1]])
        elif kind == "link":
            net.add_link(*triple(op[1]))
        elif kind == "links":
            net.add_links([triple(k) for k in op[1]])
        elif kind == "origin":
            net.add_origin(b.origins[op[1]], b.nodes[odef[op[1]]["node"]])
        elif kind == "dest":
            net.add_destination(b.dests[op[1]], b.nodes[ddef[op[1]]["node"]])
        elif kind == "path":
            path = [b.nodes[x] if j % 2 == 0 else b.links[x] for j, x in enumerate(op[1])]
            net.add_path(path, origin=b.origins[op[2]] if op[2] else None,
                         destination=b.dests[op[3]] if op[3] else None)
        elif kind == "read":
            read_lookups(net, LOOKUPS if op[1] == "all" else op[1])
        elif kind == "valid":
            net.is_valid(raises=False)
        elif kind == "elements":
            list(net.elements)
        elif kind == "step":
            try:  # a probe only: the partial network may well be invalid
                if len(net.graph) and net.is_valid(raises=False)[0]:
                    net.step(engine=NumpyEngine(np.array(20.0)), **model_params(delta=True, phi=True))
            except Exception:
                pass
        else:
            raise ValueError(f"unknown op {op!r}")
    return len(ops)


def build_from_recipe(recipe, overrides=None):
    """Deterministically rebuilds the network described by `recipe`."""
    b = _make_elements(recipe, overrides)
    b.net = sm.Network(name="net")
    run_script(b, recipe.get("script") or default_script(recipe))
    return b


def as_built(net):
    """Wraps a foreign Network (spec derived from the objects' own attributes)."""
    from reference import derive_spec  # local import: reference.py does not depend on netgen

    b = Built(None)
    b.net = net
    spec = derive_spec(net)
    for el, s in spec.items():
        b.spec[el] = s
        b.key[el] = s["key"]
        {"link": b.links, "origin": b.origins, "dest": b.dests}[s["cat"]][s["key"]] = el
    return b


# ---------------------------------------------------------------------------------------------
# random recipes
# ---------------------------------------------------------------------------------------------
def _rand_link(rng, key, up, down, long_links=True):
    N = int(rng.choice([1, 1, 2, 2, 3, 4]))
    if long_links and rng.random() < 0.05:
        N = int(rng.choice([11, 12]))
    kw = dict(N=N, lam=int(rng.choice([1, 2, 2, 3, 4])), L=round(float(rng.uniform(0.5, 1.5)), 3),
              rho_max=round(float(rng.uniform(160, 200)), 2), rho_crit=round(float(rng.uniform(28, 38)), 2),
              v_free=round(float(rng.uniform(90, 120)), 2), a=round(float(rng.uniform(1.5, 2.2)), 3),
              turnrate=1.0 if rng.random() < 0.3 else round(float(rng.uniform(0.2, 2.0)), 3))
    if rng.random() < 0.3:
        mode = rng.integers(0, 5)
        if mode == 0:
            segs = []
        elif mode == 1:
            segs = [0]
        elif mode == 2:
            segs = [N - 1]
        elif mode == 3:
            segs = list(range(N))
        else:
            segs = [i for i in range(N) if rng.random() < 0.5]
        kw.update(vsl=segs, alpha=float(rng.choice([0.0, 0.1, -0.1, 0.05])))
    return mk_link(key, up, down, **kw)


def _rand_origin(rng, key, node, ramp_only=False):
    kinds = ["ramp", "simple"] if ramp_only else ["ideal", "main", "main", "ramp", "simple"]
    kind = str(rng.choice(kinds))
    typ = None
    if kind == "ramp":
        typ = str(rng.choice(["in", "out"]))
    elif kind == "simple":
        typ = str(rng.choice(["limited", "unlimited"]))
    return mk_origin(key, node, kind, C=round(float(rng.uniform(1500, 4000)), 1), type=typ)


def random_topology(rng, max_interior=4, long_links=True):
    """Random valid topology: interior nodes with forward edges, optional back edge (cycle) and
    self-loop; sources get origins (directly or through feeder links), sinks get destinations
    (directly or through drain links); extra feeders make merges, extra drains bifurcations,
    and metered/simplified ramps are put on interior nodes with exactly one leaving link."""
    k = int(rng.integers(1, max_interior + 1))
    V = [f"v{i}" for i in range(k)]
    E = []
    for i in range(k - 1):
        if rng.random() < 0.8:
            E.append((V[i], V[i + 1]))
    for i in range(k):
        for j in range(i + 2, k):
            if rng.random() < 0.2:
                E.append((V[i], V[j]))
    if k >= 2 and rng.random() < 0.25:  # back edge -> cycle
        j = int(rng.integers(1, k))
        i = int(rng.integers(0, j))
        E.append((V[j], V[i]))
    if rng.random() < 0.06:
        n = V[int(rng.integers(0, k))]
        E.append((n, n))
    nodes = list(V)
    has_o, has_d = {}, {}
    origins, dests = [], []
    cnt = {"s": 0, "t": 0, "L": 0, "O": 0, "D": 0}

    def fresh(p):
        cnt[p] += 1
        return f"{p}{cnt[p] - 1}"

    def indeg(n):
        return sum(1 for e in E if e[1] == n)

    def outdeg(n):
        return sum(1 for e in E if e[0] == n)

    def feeder(n):
        s = fresh("s")
        nodes.append(s)
        E.append((s, n))
        o = _rand_origin(rng, fresh("O"), s)
        origins.append(o)
        has_o[s] = o

    def drain(n):
        t = fresh("t")
        nodes.append(t)
        E.append((n, t))
        d = mk_dest(fresh("D"), t, str(rng.choice(["free", "congested"])))
        dests.append(d)
        has_d[t] = d

    for n in V:  # sources
        if indeg(n) == 0:
            if outdeg(n) == 1 and rng.random() < 0.5:
                o = _rand_origin(rng, fresh("O"), n)
                origins.append(o)
                has_o[n] = o
            else:
                feeder(n)
    for n in V:  # sinks
        if outdeg(n) == 0:
            if indeg(n) == 1 and n not in has_o and rng.random() < 0.5:
                d = mk_dest(fresh("D"), n, str(rng.choice(["free", "congested"])))
                dests.append(d)
                has_d[n] = d
            else:
                drain(n)
    for n in V:  # merges / bifurcations
        if n not in has_o and n not in has_d and rng.random() < 0.35:
            feeder(n)
        if n not in has_o and n not in has_d and rng.random() < 0.35:
            drain(n)
    for n in V:  # interior ramps
        if n not in has_o and n not in has_d and indeg(n) >= 1 and outdeg(n) == 1 and rng.random() < 0.5:
            o = _rand_origin(rng, fresh("O"), n, ramp_only=True)
            origins.append(o)
            has_o[n] = o
    links = [_rand_link(rng, fresh("L"), u, v, long_links) for (u, v) in E]
    return mk_recipe(links, origins, dests, nodes=nodes)


def random_script(rng, recipe, incremental=False):
    """Random construction script (paths, single/bulk links, origins, destinations in a random
    order); with `incremental`, probes (selective lookup reads, is_valid, steps) are interleaved."""
    ldef = {l["key"]: l for l in recipe["links"]}
    o_at = {o["node"]: o["key"] for o in recipe["origins"]}
    d_at = {d["node"]: d["key"] for d in recipe["dests"]}
    remaining = [l["key"] for l in recipe["links"]]
    rng.shuffle(remaining)
    used_o, used_d = set(), set()
    ops = []
    while remaining:
        mode = rng.random()
        if mode < 0.45:
            k = remaining.pop(0)
            path = [ldef[k]["up"], k, ldef[k]["down"]]
            while rng.random() < 0.6:
                nxt = [x for x in remaining if ldef[x]["up"] == path[-1]]
                if not nxt:
                    break
                k = nxt[0]
                remaining.remove(k)
                path += [k, ldef[k]["down"]]
            o = o_at.get(path[0])
            o = o if o and o not in used_o and rng.random() < 0.7 else None
            d = d_at.get(path[-1])
            d = d if d and d not in used_d and rng.random() < 0.7 else None
            used_o.add(o)
            used_d.add(d)
            ops.append(["path", path, o, d])
        elif mode < 0.75:
            ops.append(["link", remaining.pop(0)])
        else:
            n = int(rng.integers(1, 4))
            ops.append(["links", remaining[:n]])
            del remaining[:n]
    ops += [["origin", o["key"]] for o in recipe["origins"] if o["key"] not in used_o]
    ops += [["dest", d["key"]] for d in recipe["dests"] if d["key"] not in used_d]
    rng.shuffle(ops)
    if rng.random() < 0.4:
        pre = [n for n in recipe["nodes"] if rng.random() < 0.6]
        rng.shuffle(pre)
        if pre:
            ops.insert(0, ["nodes", pre] if rng.random() < 0.5 else ["node", pre[0]])
    if incremental:
        out = []
        for op in ops:
            out.append(op)
            if rng.random() < 0.6:
                r = rng.random()
                if r < 0.5:
                    sub = [p for p in LOOKUPS if rng.random() < 0.4]
                    out.append(["read", sub or ["origins"]])
                elif r < 0.65:
                    out.append(["read", "all"])
                elif r < 0.8:
                    out.append(["valid"])
                elif r < 0.9:
                    out.append(["elements"])
                else:
                    out.append(["step"])
        ops = out
    return [list(op) for op in ops]


def random_recipe(rng, incremental=None, max_interior=4, long_links=True):
    r = random_topology(rng, max_interior, long_links)
    if incremental is None:
        incremental = rng.random() < 0.4
    r["script"] = random_script(rng, r, incremental)
    return r


def random_valid_network(rng, incremental=None, max_interior=4, long_links=True):
    """Returns a `Built` (unpackable as `net, recipe`) of a random valid network."""
    return build_from_recipe(random_recipe(rng, incremental, max_interior, long_links))


# ---------------------------------------------------------------------------------------------
# corner networks
# ---------------------------------------------------------------------------------------------
def corner_networks():
    """Small deterministic list of hand-made recipes; each listed feature occurs at least once."""
    L, O, D = mk_link, mk_origin, mk_dest
    out = []

    def add(tag, links, origins, dests, script=None, names=None):
        out.append(mk_recipe(links, origins, dests, script=script, names=names, tag=tag))

    # chain with lane drop then lane gain, N=2/1/3, mainstream origin, congested destination, VSL
    add("chain", [L("L0", "a", "b", N=2, lam=3, L=0.8), L("L1", "b", "c", N=1, lam=2, L=1.2, v_free=95.0, rho_crit=30.0),
                  L("L2", "c", "d", N=3, lam=3, a=2.0, vsl=[0, 2], alpha=0.1)],
        [O("O0", "a", "main")], [D("D0", "d", "congested")],
        script=[["path", ["a", "L0", "b", "L1", "c", "L2", "d"], "O0", "D0"]])
    # merge of a 2-lane and a 1-lane road into a 3-lane road; ideal origin + ramp at pure source
    add("merge", [L("L0", "a", "m", N=2, lam=2, turnrate=0.7), L("L1", "b", "m", N=1, lam=1, turnrate=1.3),
                  L("L2", "m", "c", N=3, lam=3, turnrate=0.5)],
        [O("O0", "a", "ideal"), O("O1", "b", "ramp", 1800.0, "in")], [D("D0", "c", "free")])
    # bifurcation with differing turn rates, lanes and segment counts
    add("bifurcation", [L("L0", "a", "n", N=2, lam=3), L("L1", "n", "b", N=3, lam=2, turnrate=0.7, rho_crit=31.0),
                        L("L2", "n", "c", N=2, lam=1, turnrate=0.4, v_free=98.0)],
        [O("O0", "a", "ramp", 3500.0, "out")], [D("D0", "b", "free"), D("D1", "c", "congested")])
    # bifurcation whose leaving links were attached in the other order (lanes differ)
    add("bifurcation-rev", [L("L0", "a", "n", N=2, lam=3), L("L2", "n", "c", N=2, lam=1, turnrate=0.4),
                            L("L1", "n", "b", N=3, lam=2, turnrate=0.7)],
        [O("O0", "a", "main")], [D("D0", "b", "free"), D("D1", "c", "free")])
    # merge + bifurcation at one node (crossing), leaving turn rates 0.6/0.4
    add("crossing", [L("L0", "a", "x", N=2, lam=2), L("L1", "b", "x", N=1, lam=3), L("L2", "x", "c", N=2, lam=2, turnrate=0.6),
                     L("L3", "x", "d", N=3, lam=1, turnrate=0.4)],
        [O("O0", "a", "main"), O("O1", "b", "simple", 2500.0, "limited")], [D("D0", "c", "free"), D("D1", "d", "congested")])
    # interior metered ramps of both flow-equation kinds
    add("ramps", [L("L0", "a", "b", N=2, lam=2), L("L1", "b", "c", N=2, lam=2), L("L2", "c", "d", N=1, lam=2)],
        [O("O0", "a", "main"), O("O1", "b", "ramp", 2000.0, "in"), O("O2", "c", "ramp", 1700.0, "out")], [D("D0", "d", "free")])
    # interior simplified ramps, limited and unlimited
    add("simplified", [L("L0", "a", "b", N=1, lam=2), L("L1", "b", "c", N=2, lam=2), L("L2", "c", "d", N=2, lam=3)],
        [O("O0", "a", "ideal"), O("O1", "b", "simple", 2000.0, "unlimited"), O("O2", "c", "simple", 1500.0, "limited")],
        [D("D0", "d", "congested")])
    # ramp at a merge node feeding a single-segment link followed by a lane drop
    add("ramp-at-merge", [L("L0", "a", "m", N=2, lam=2), L("L1", "b", "m", N=2, lam=1), L("L2", "m", "c", N=1, lam=3),
                          L("L3", "c", "d", N=2, lam=2)],
        [O("O0", "a", "main"), O("O1", "b", "main"), O("O2", "m", "ramp", 2200.0, "out")], [D("D0", "d", "free")])
    # ring fed by a ramp, drained by an off-link
    add("ring", [L("R0", "r0", "r1", N=2, lam=2), L("R1", "r1", "r2", N=1, lam=2, turnrate=0.8), L("R2", "r2", "r0", N=2, lam=2),
                 L("OFF", "r1", "x", N=2, lam=1, turnrate=0.3)],
        [O("O0", "r0", "ramp", 2500.0, "out")], [D("D0", "x", "free")])
    # self-loop at a node that is both merge and bifurcation
    add("self-loop", [L("L0", "a", "n", N=2, lam=2), L("LOOP", "n", "n", N=2, lam=1, turnrate=0.2), L("L1", "n", "b", N=1, lam=2)],
        [O("O0", "a", "main")], [D("D0", "b", "free")])
    # speed-limited links: empty set, first, last, all; alpha 0, -0.1, 0.1
    add("vsl", [L("L0", "a", "b", N=3, lam=2, vsl=[], alpha=0.1), L("L1", "b", "c", N=3, lam=2, vsl=[0], alpha=0.0),
                L("L2", "c", "d", N=3, lam=2, vsl=[2], alpha=-0.1), L("L3", "d", "e", N=2, lam=2, vsl=[0, 1], alpha=0.1)],
        [O("O0", "a", "main")], [D("D0", "e", "free")])
    # single-segment speed-limited links: empty set and the only segment (F9 regression)
    add("vsl-N1", [L("L0", "a", "b", N=1, lam=2, vsl=[], alpha=0.1), L("L1", "b", "c", N=1, lam=2, vsl=[0], alpha=0.0)],
        [O("O0", "a", "main")], [D("D0", "c", "free")])
    # a long link (more than 10 segments) behind a metered ramp
    add("long", [L("L1", "a", "b", N=12, lam=3, L=0.5)], [O("O1", "a", "ramp", 3500.0, "out")], [D("D1", "b", "free")])
    # distinct elements sharing names
    add("same-names", [L("L0", "a", "b", N=2), L("L1", "b", "c", N=2)], [O("O0", "a", "main")], [D("D0", "c", "congested")],
        names={"L0": "A", "L1": "A", "O0": "A", "D0": "A"})
    # incremental construction: validated/stepped stretch, then ramp, upstream feeder and a branch
    inc_links = [L("L0", "a", "b", N=2, lam=2), L("L1", "b", "c", N=2, lam=2), L("L2", "e", "b", N=2, lam=1),
                 L("L3", "f", "g", N=1, lam=2), L("L4", "g", "c", N=2, lam=2)]
    inc_o = [O("O0", "a", "main"), O("O1", "b", "ramp", 2000.0, "out"), O("O2", "e", "ramp", 1500.0, "in"), O("O3", "f", "simple", 1800.0, "limited")]
    inc_d = [D("D0", "d", "free")]
    inc_links.append(L("L5", "c", "d", N=2, lam=3))
    for j, probe in enumerate([["read", "all"], ["valid"], ["step"], ["read", ["origins_by_node", "nodes_by_link", "links_by_name"]]]):
        add(f"incremental-{j}", inc_links, inc_o, inc_d,
            script=[["path", ["a", "L0", "b", "L1", "c", "L5", "d"], "O0", "D0"], probe, ["origin", "O1"], probe,
                    ["link", "L2"], ["origin", "O2"], probe, ["path", ["f", "L3", "g", "L4", "c"], "O3", None], probe])
    return out


# ---------------------------------------------------------------------------------------------
# states
# ---------------------------------------------------------------------------------------------
def _pick(rng, options, p):
    i = int(rng.choice(len(options), p=p))
    o = options[i]
    return float(o()) if callable(o) else float(o)


def random_values(rng, built, kind="interior"):
    """JSON-able values {element key: {var: [floats]}} for every element with variables."""
    U = rng.uniform
    vals = {}
    for key, link in built.links.items():
        s = built.spec[link]
        N = s["N"]
        if kind == "interior":
            regime = rng.integers(0, 3)
            rho, v = [], []
            for _ in range(N):
                r = regime if regime < 2 else rng.integers(0, 2)
                if r == 0:
                    rho.append(U(4, s["rho_crit"]))
                    v.append(U(0.55, 1.05) * s["v_free"])
                else:
                    rho.append(U(s["rho_crit"], 0.85 * s["rho_max"]))
                    v.append(U(6, 55))
        elif kind == "boundary":
            rho = [_pick(rng, [0.0, s["rho_max"], s["rho_crit"], lambda: U(1, 100)], [0.3, 0.15, 0.1, 0.45]) for _ in range(N)]
            v = [_pick(rng, [0.0, s["v_free"], lambda: U(1, 110)], [0.35, 0.1, 0.55]) for _ in range(N)]
        elif kind == "negative":
            rho = [U(-15, 160) for _ in range(N)]
            v = [U(-25, 110) for _ in range(N)]
        else:
            raise ValueError(kind)
        vals[key] = {"rho": [float(x) for x in rho], "v": [float(x) for x in v]}
        if s.get("vsl") is not None:
            n = len(s["vsl"])
            if kind == "boundary":
                vc = [_pick(rng, [0.0, lambda: U(20, 120)], [0.3, 0.7]) for _ in range(n)]
            else:
                vc = [float(U(25, 125)) for _ in range(n)]
            vals[key]["v_ctrl"] = vc
    for key, o in built.origins.items():
        s = built.spec[o]
        if s["kind"] == "ideal":
            continue
        if kind == "interior":
            w = _pick(rng, [0.0, lambda: U(0, 3), lambda: U(0, 120)], [0.3, 0.35, 0.35])
            d = _pick(rng, [lambda: U(0, 1500), lambda: U(1500, 9000)], [0.5, 0.5])
            ctrl = {"main": lambda: _pick(rng, [lambda: U(8, 60), lambda: U(60, 140)], [0.5, 0.5]),
                    "ramp": lambda: _pick(rng, [0.0, 1.0, lambda: U(0, 1)], [0.1, 0.2, 0.7]),
                    "simple": lambda: U(0, 3500)}[s["kind"]]()
        elif kind == "boundary":
            w = _pick(rng, [0.0, lambda: U(0, 80)], [0.6, 0.4])
            d = _pick(rng, [0.0, lambda: U(0, 5000)], [0.5, 0.5])
            ctrl = {"main": lambda: _pick(rng, [0.0, lambda: U(1, 130)], [0.4, 0.6]),
                    "ramp": lambda: _pick(rng, [0.0, 1.0, lambda: U(0, 1)], [0.35, 0.35, 0.3]),
                    "simple": lambda: _pick(rng, [0.0, lambda: U(0, 3500)], [0.4, 0.6])}[s["kind"]]()
        else:
            w = float(U(-40, 60))
            d = float(U(-500, 4000))
            ctrl = {"main": lambda: U(-10, 130), "ramp": lambda: U(-0.3, 1.3), "simple": lambda: U(-500, 3500)}[s["kind"]]()
        cname = {"main": "v_ctrl", "ramp": "r", "simple": "q"}[s["kind"]]
        vals[key] = {"w": [float(w)], cname: [float(ctrl)], "d": [float(d)]}
    for key, dst in built.dests.items():
        if built.spec[dst]["kind"] == "congested":
            if kind == "interior":
                d = U(5, 110)
            elif kind == "boundary":
                d = _pick(rng, [0.0, lambda: U(0, 150)], [0.5, 0.5])
            else:
                d = U(-30, 120)
            vals[key] = {"d": [float(d)]}
    return vals


def zero_values(built):
    vals = random_values(np.random.default_rng(0), built, "interior")
    return {k: {n: [0.0] * len(x) for n, x in d.items()} for k, d in vals.items()}


def to_init(built, vals, shape="1d"):
    """init_conditions {element: {var: array}} from key-indexed values.  Link variables are always
    1-d arrays; scalar variables of origins/destinations are (1,) arrays ('1d'), 0-d arrays
    ('0d') or python floats ('float')."""
    out = {}
    for key, d in vals.items():
        el = built.el(key)
        cat = built.spec[el]["cat"]
        e = {}
        for n, x in d.items():
            if cat == "link" or shape == "1d":
                e[n] = np.array(x, dtype=float)
            elif shape == "0d":
                e[n] = np.array(float(x[0]))
            else:
                e[n] = float(x[0])
        out[el] = e
    return out


def random_state(rng, net, kind="interior", shape="1d"):
    """init_conditions dict (numpy arrays) for all elements of `net` (a Built or a Network)."""
    b = net if isinstance(net, Built) else as_built(net)
    return to_init(b, random_values(rng, b, kind), shape)


def copy_vals(vals):
    return copy.deepcopy(vals)
