"""Measures detection of the seeded bugs: for every /verif/seeded_incoming/Cxx/m*.diff applies the
diff to a scratch copy of the library and runs the check of property Cxx against it.
usage: detect.py [--tier quick|thorough] [--props C01,C02] [--seed 1] [--all-props] [--jobs 8]"""
import argparse
import glob
import json
import os
import shutil
import subprocess
import sys
import tempfile
from concurrent.futures import ThreadPoolExecutor

HERE = os.path.dirname(os.path.abspath(__file__))
SEEDED = os.path.join(os.path.dirname(HERE), "seeded_incoming")
SRC = os.environ.get("SYM_METANET_SRC", "/repo/src")


def run_one(diff, prop, tier, seed):
    d = tempfile.mkdtemp(prefix="bounded_mut_")
    try:
        shutil.copytree(SRC, os.path.join(d, "src"))
        p = subprocess.run(["patch", "-p1", "-s", "-i", diff], cwd=d, capture_output=True, text=True)
        partial = False
        if p.returncode:  # the tree moved on (e.g. a later fix: commit): apply the hunks that still fit
            shutil.rmtree(os.path.join(d, "src"))
            shutil.copytree(SRC, os.path.join(d, "src"))
            p = subprocess.run(["patch", "-p1", "-f", "-s", "--no-backup-if-mismatch", "-r", "-", "-i", diff], cwd=d, capture_output=True, text=True)
            partial = True
            if subprocess.run(["diff", "-rq", SRC, os.path.join(d, "src")], capture_output=True).returncode == 0:
                return dict(diff=diff, prop=prop, error="patch failed: " + p.stdout + p.stderr)
        out = os.path.join(d, "r.json")
        env = dict(os.environ, PYTHONPATH=os.path.join(d, "src"))
        p = subprocess.run([sys.executable, os.path.join(HERE, "run.py"), "--property", prop, "--tier", tier, "--seed", str(seed),
                            "--out", out], env=env, capture_output=True, text=True)
        if p.returncode != 0 or not os.path.exists(out):
            return dict(diff=diff, prop=prop, error=f"exit {p.returncode}: {p.stderr[-400:]}")
        r = json.load(open(out))
        known = sum(1 for v in r["violations"] if (v.get("inputs") or {}).get("tag") == "vsl-empty-N1")
        return dict(diff=diff, prop=prop, violations=r.get("violations_total", len(r["violations"])) - known,
                    first=(next((v["what"] for v in r["violations"] if (v.get("inputs") or {}).get("tag") != "vsl-empty-N1"), None)),
                    evaluations=r["evaluations"], wall=r["wall_s"], partial=partial)
    finally:
        shutil.rmtree(d, ignore_errors=True)


def main():
    ap = argparse.ArgumentParser()
    ap.add_argument("--tier", default="quick")
    ap.add_argument("--props", default="")
    ap.add_argument("--seed", type=int, default=1)
    ap.add_argument("--jobs", type=int, default=6)
    ap.add_argument("--all-props", action="store_true", help="run every property check against every diff")
    ap.add_argument("--json")
    a = ap.parse_args()
    props = [p for p in a.props.split(",") if p]
    jobs = []
    for diff in sorted(glob.glob(os.path.join(SEEDED, "C*", "m*.diff"))):
        own = os.path.basename(os.path.dirname(diff))
        if props and own not in props:
            continue
        targets = [f"C{i:02d}" for i in range(1, 20)] if a.all_props else [own]
        jobs += [(diff, t) for t in targets]
    with ThreadPoolExecutor(a.jobs) as ex:
        res = list(ex.map(lambda j: run_one(j[0], j[1], a.tier, a.seed), jobs))
    for r in res:
        name = "/".join(r["diff"].split("/")[-2:])
        if "error" in r:
            print(f"{name:14s} {r['prop']} ERROR {r['error']}")
        else:
            print(f"{name:14s} {r['prop']} {'DETECTED' if r['violations'] else 'missed  '} viol={r['violations']:<5d} "
                  f"evals={r['evaluations']:<6d} {r['wall']}s  {'(partial patch) ' if r.get('partial') else ''}{str(r['first'])[:110]}")
    if a.json:
        json.dump(res, open(a.json, "w"), indent=1)


if __name__ == "__main__":
    main()
