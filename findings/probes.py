"""Native probes of the defects F1..F8 found by reading the code (DESIGN.md section 4).
Run: /venv/bin/python findings/probes.py   (prints one line per probe: FAILS / ok)."""
import sys, traceback, warnings
import numpy as np
import sym_metanet as M
from sym_metanet import (Network, Node, Link, LinkWithVsl, Origin, MainstreamOrigin, MeteredOnRamp,
                         SimplifiedMeteredOnRamp, Destination, CongestedDestination, engines)
from sym_metanet.engines.numpy import Engine as NpEngine, LinksEngine, OriginsEngine

def mk(n=2, lam=2, **kw):
    return Link(n, lam, 1.0, 180.0, 33.5, 102.0, 1.867, **kw)

def probe(name):
    def deco(f):
        try:
            r = f()
            print(f"{name}: {'ok' if r is None else r}")
        except Exception as e:
            print(f"{name}: FAILS {type(e).__name__}: {str(e)[:100]}")
        return f
    return deco

@probe("F1 per-node link views")
def _():
    net = Network(); a, b = Node(), Node(); net.add_link(a, mk(), b)
    assert len(net.out_links(a)) == 1 and len(net.in_links(b)) == 1

def bif_net():
    net = Network(); n1, n2, n3, n4 = Node(), Node(), Node(), Node()
    l1, l2, l3 = mk(2), mk(3, turnrate=1.0), mk(3, turnrate=3.0)
    net.add_path((n1, l1, n2, l2, n3), origin=MainstreamOrigin(), destination=Destination())
    net.add_path((n2, l3, n4), destination=Destination())
    return net, (n1, n2, n3, n4), (l1, l2, l3)

@probe("F2 downstream density uses first segments")
def _():
    net, (n1, n2, n3, n4), (l1, l2, l3) = bif_net()
    eng = NpEngine()
    for l in (l1, l2, l3):
        l.init_vars({"rho": np.arange(1.0, l.N + 1) * 10 + l.N, "v": np.full(l.N, 50.0)}, eng)
    got = float(n2.get_downstream_density(net, eng))
    r = np.array([l2.states["rho"][0], l3.states["rho"][0]])
    exp = float((r ** 2).sum() / r.sum())
    assert abs(got - exp) < 1e-9, (got, exp)

@probe("F3 turn-rate split behind a single entering link")
def _():
    net, (n1, n2, n3, n4), (l1, l2, l3) = bif_net()
    eng = NpEngine()
    for l in (l1, l2, l3):
        l.init_vars({"rho": np.full(l.N, 20.0), "v": np.full(l.N, 50.0)}, eng)
    q2 = float(np.ravel(n2.get_upstream_speed_and_flow(net, l2, eng, T=10 / 3600)[1])[0])
    q3 = float(np.ravel(n2.get_upstream_speed_and_flow(net, l3, eng, T=10 / 3600)[1])[0])
    qin = float(l1.get_flow(eng)[-1])
    assert abs(q2 + q3 - qin) < 1e-9 and abs(q3 - 3 * q2) < 1e-9, (q2, q3, qin)

@probe("F4 numpy mainstream flow finite at zero speed / equal to casadi below ratio 0.05")
def _():
    import casadi as cs
    from sym_metanet.engines.casadi import OriginsEngine as CsO
    args = (1000.0, 5.0, 200.0, 0.0, 33.5, 1.867, 102.0, 2.0, 10 / 3600)
    with warnings.catch_warnings():
        warnings.simplefilter("ignore")
        a = float(OriginsEngine.get_mainstream_flow(*map(np.float64, args)))
    assert np.isfinite(a), a
    args = (1000.0, 5.0, 200.0, 2.0, 33.5, 1.867, 102.0, 2.0, 10 / 3600)
    a = float(OriginsEngine.get_mainstream_flow(*map(np.float64, args)))
    b = float(cs.DM(CsO.get_mainstream_flow(*map(cs.DM, args))))
    assert abs(a - b) < 1e-9 * max(1, abs(b)), (a, b)

@probe("F5 nodes_by_name after add_link creating nodes")
def _():
    net = Network(); a, b = Node(name="a"), Node(name="b")
    net.add_node(a); net.nodes_by_name
    net.add_link(a, mk(), b)
    assert set(net.nodes_by_name) == {"a", "b"}, set(net.nodes_by_name)

@probe("F6 path ending in a link is rejected")
def _():
    net = Network(); a = Node(); l = mk()
    try:
        net.add_path((a, l), destination=Destination())
    except (TypeError, ValueError):
        return
    bad = [n for n in net.nodes if not isinstance(n, Node)]
    raise AssertionError(f"accepted; non-node graph nodes: {bad}")

@probe("F7 valid net with ideal origin can be stepped")
def _():
    net = Network(); a, b = Node(), Node()
    net.add_path((a, mk(), b), origin=Origin(), destination=Destination())
    assert net.is_valid()[0]
    net.step(engine=NpEngine("rand"), T=10 / 3600, tau=18 / 3600, eta=60, kappa=40)

@probe("F8 merging term with the numpy engine's own (1,) ramp variables")
def _():
    net = Network(); a, b, c = Node(), Node(), Node()
    net.add_path((a, mk(), b, mk(), c), origin=MainstreamOrigin(), destination=Destination())
    net.add_origin(MeteredOnRamp(2000.0), b)
    assert net.is_valid()[0]
    net.step(engine=NpEngine("rand"), T=10 / 3600, tau=18 / 3600, eta=60, kappa=40, delta=0.0122)
