"""Which obligations decide which property (DESIGN.md 3) and what each check claims."""

# obligation kinds that bear on each property (an obligation is counted for property P if the task
# lists P and the kind is in KINDS[P]; `pre` obligations about engine forwarding belong to C13)
FUNCTIONAL = {"post", "refines", "lemma", "shape", "safe", "pre", "inv"}
KINDS = {
    "C01": FUNCTIONAL,
    "C02": {"post", "refines", "lemma", "pre"},
    "C03": FUNCTIONAL | {"defined"},
    "C04": FUNCTIONAL,
    "C05": FUNCTIONAL,
    "C06": FUNCTIONAL,
    "C07": {"safe", "shape", "defined", "pre", "lemma"},
    "C08": FUNCTIONAL | {"frame"},
    "C09": FUNCTIONAL,
    "C10": {"post", "lemma", "refines"},
    "C11": {"post", "lemma", "pre"},
    "C12": {"fresh", "frame", "lemma"},
    "C13": {"pre", "noglobal", "post", "lemma"},
    "C14": {"post", "lemma", "refines"},
    "C15": {"refines", "shape", "defined", "safe", "pre", "fresh", "frame"},
    "C16": FUNCTIONAL,
    "C17": {"lemma", "refines", "post"},
    "C18": {"lemma", "refines", "post"},
    "C19": FUNCTIONAL,
}


def relevant(prop, rec, res):
    kind = res["kind"]
    if kind == "unsupported":
        return True
    if kind not in KINDS[prop]:
        return False
    engine_pre = kind == "pre" and "engine forwarded" in res["label"]
    if prop == "C13":
        return kind in ("noglobal", "lemma") or engine_pre or (kind == "post" and "engines.core" in rec["func"])
    if engine_pre and prop not in ("C01", "C03"):
        return False
    return True


T_ENG = "both engines are verified to refine EngineSpec (contracts/engine_spec.py) for every argument-shape configuration the element layer produces"
T_VIEW = "the ghost view of Network lookups (contracts/ghost.py: what in_links/out_links/origins*/destinations*/nodes_by_link return on a well-formed, valid network) is assumed at the element layer"

PROPS = {
    "C01": {
        "level": "proof",
        "bounded": True,
        "explanation": "every function on the step path is executed symbolically from the real source and must return the METANET value of specs/metanet.py (Hegyi 2004) over the ghost view; callers are checked against callee contracts",
        "trusted_base": [T_VIEW],
        "assumptions": ["KF1 (known finding): the guarded mainstream-origin flow differs from Hegyi 3.3.3 for 0 < v_lim/v_free < 0.05"],
    },
    "C02": {"level": "proof", "bounded": True, "explanation": "node balance and link telescoping as lemmas over the postconditions of C01; network-wide balance by the Lean lemma network_balance", "trusted_base": [T_VIEW, "hand transcription of the two postconditions into the hypotheses of lemmas/Metanet.lean:network_balance"]},
    "C07": {"level": "proof", "bounded": True, "explanation": "safety half of all contracts: no exception, shapes, partial operations inside their domains under the admissible precondition", "trusted_base": [T_VIEW]},
    "C10": {"level": "proof", "bounded": True, "explanation": "the proved postconditions are stated through spec functions whose state reads are checked, case by case, to lie inside the allowed footprint", "trusted_base": [T_VIEW]},
    "C11": {"level": "proof", "bounded": True, "explanation": "flags are symbolic Booleans; each result is proved equal to ite(flag, max(0, R), R) with R the plain law", "trusted_base": [T_VIEW]},
    "C12": {"level": "proof", "bounded": True, "explanation": "every in-place write is proved to target a value created by the same call (obligations fresh/frame); element-layer functions are verified against a read-only heap", "trusted_base": [T_VIEW, "numpy view/copy semantics as modelled in pyvc/arrays.py"]},
    "C13": {"level": "proof", "bounded": True, "explanation": "every call on the step path is obliged to receive the caller's engine; with an explicit engine any read of the selected engine fails a noglobal obligation", "trusted_base": [T_VIEW]},
    "C14": {"level": "proof", "bounded": True, "explanation": "share and scaling invariance as lemmas (induction discharged by z3) over the proved postcondition of Node.get_upstream_speed_and_flow; order/name independence because the specs aggregate over link sets and names are opaque tokens", "trusted_base": [T_VIEW, "Lean lemma sum_enum (finite sums are independent of the enumeration)"]},
    "C15": {"level": "proof", "bounded": True, "explanation": "each of the 17 primitives x 2 engines is proved equal, at a generic index for symbolic lengths, to one spec value; equality of the engines follows", "trusted_base": []},
    "C17": {"level": "proof", "bounded": True, "explanation": "bounds proved as lemmas over the EngineSpec values (which both engines refine); the mainstream bound uses the Lean lemma fd_max", "trusted_base": ["Lean lemma fd_max and the exp/log/rpow facts (lemmas/Metanet.lean), instantiated as SMT hypotheses"]},
    "C18": {"level": "proof", "bounded": True, "explanation": "neutral-control identities and monotonicity proved as lemmas over the EngineSpec values; 'infinite' is 'at least every value it is compared with'", "trusted_base": ["IEEE +inf behaving like such a value is assumed (bounded stand-in samples it)"]},
}
