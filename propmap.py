"""Which obligations decide which property (DESIGN.md 3) and what each check claims."""

# obligation kinds that bear on each property (an obligation is counted for property P if the task
# lists P and the kind is in KINDS[P]; `pre` obligations about engine forwarding belong to C13)
# (`fresh`/`frame`: the value postconditions are modular - a caller uses the callee's contract, which is only
# stable if nothing writes in place into a value another function still reads; these obligations discharge that)
FUNCTIONAL = {"post", "refines", "lemma", "shape", "safe", "pre", "inv", "fresh", "frame"}
KINDS = {
    "C01": FUNCTIONAL,
    "C02": {"post", "refines", "lemma", "pre", "frame", "fresh"},
    "C03": FUNCTIONAL | {"defined"},
    "C04": FUNCTIONAL | {"frame"},
    "C05": FUNCTIONAL,
    "C06": FUNCTIONAL | {"frame"},
    "C07": {"safe", "shape", "defined", "pre", "lemma", "frame"},
    "C08": FUNCTIONAL | {"frame"},
    "C09": FUNCTIONAL,
    "C10": {"post", "lemma", "refines", "frame", "fresh"},
    "C11": {"post", "lemma", "pre", "frame", "fresh"},
    "C12": {"fresh", "frame", "lemma"},
    "C13": {"pre", "noglobal", "post", "lemma"},
    "C14": {"post", "lemma", "refines", "frame", "fresh"},
    "C15": {"refines", "shape", "defined", "safe", "pre", "fresh", "frame"},
    "C16": FUNCTIONAL,
    "C17": {"lemma", "refines", "post", "fresh", "frame"},
    "C18": {"lemma", "refines", "post", "frame", "fresh"},
    "C19": FUNCTIONAL | {"frame"},
}


# which properties depend on the functions verified by a whole contracts module (in addition to the
# properties its tasks name themselves): lookups and mutators are read by every step / compilation,
# constructors / init_vars / ElementWithVars.step write the values every step law reads, and
# Network.step is the composition all step properties go through
_LOOKUPS = ("C01", "C02", "C03", "C04", "C05", "C06", "C07", "C08", "C09", "C10", "C11", "C14", "C16", "C17", "C18", "C19")
_WRITERS = ("C01", "C02", "C03", "C04", "C05", "C07", "C10", "C11", "C12", "C13", "C14", "C16", "C17", "C18", "C19")
_NETSTEP = ("C01", "C02", "C03", "C05", "C07", "C10", "C11", "C12", "C13", "C14", "C16", "C17", "C18")
DEPENDENTS = {"construct_tasks": _LOOKUPS, "views_content_tasks": _LOOKUPS, "writers_tasks": _WRITERS, "network_tasks": _NETSTEP}


def relevant(prop, rec, res):
    kind = res["kind"]
    if kind == "unsupported":
        return True
    if rec.get("stratum") in ("construct_tasks", "views_content_tasks") and kind in FUNCTIONAL | {"frame", "fresh"}:
        # coherence and content of the lookups: a stale or wrong lookup breaks whatever reads it
        return True
    if prop == "C07" and "Network.is_valid" in rec.get("func", "") and kind in ("post", "inv"):
        # C07 is about the networks validation accepts: that a valid verdict implies the nine conditions
        # (which the element layer is verified under) is part of it
        return res["label"].startswith("valid =>") or kind == "inv" or "returns (verdict" in res["label"]
    if kind not in KINDS[prop]:
        return False
    engine_pre = kind == "pre" and "engine forwarded" in res["label"]
    if prop == "C13":
        return kind in ("noglobal", "lemma") or engine_pre or (kind == "post" and "engines.core" in rec["func"])
    if engine_pre and prop not in ("C01", "C03", "C07"):
        return False
    return True


T_ENG = "both engines are verified to refine EngineSpec (contracts/engine_spec.py) for every argument-shape configuration the element layer produces"
T_VIEW = "the element layer is verified against the ghost view of Network lookups (contracts/ghost.py). What origins, origins_by_node, destinations, destinations_by_node, nodes_by_link and elements return is proved from their real bodies on a symbolic graph (contracts/views_content_tasks.py: present iff such a node/edge exists, with that value; uses validity condition (1)); the per-node views in_links(n)/out_links(n) are verified to ask networkx for the edges at n with data='link' - that networkx then lists exactly the edges entering/leaving n is the assumed library contract; the ghost view's facts about origins/destinations (GhostNet.node_facts/origin_facts/dest_facts and the answers of the four origin/destination lookups) are derived as obligations from these results with `x in net := x in Network.origins`, `node_of(x) := Network.origins[x]` (ghost view refinement tasks); link_in_net/up/down are by definition membership and value of nodes_by_link, and how the per-node edge enumerations relate to the edge list is the assumed networkx contract"

T_FUN = "casadi.Function: raises unless its inputs are stacks of distinct symbols and no output symbol is free; calling it substitutes arguments for input symbols (assumed contract, pyvc/libmodels/casadi_model.py)"
T_SPINE = "only on five fixed element lists (spines, 3-8 elements; reported as obligations on bounded input families): the order of the per-name groups at compact >= 1 (order of first occurrence) and the acceptance test of casadi.Function itself (inputs purely symbolic and distinct, no free symbol)"
T_LAYOUT = "layout for any number of elements (contracts/layout_tasks.py): loops over elements are not unrolled - their bodies are summarised at a generic element of every class and their effect on the lists/dicts they fill is the corresponding segment (pyvc/abscoll.py: list append / group-by idioms only, anything else is undecided); elements are pairwise distinct and all initialised and stepped (the readiness scan is proved separately)"
T_NX = "networkx.DiGraph and its views at region granularity (pyvc/libmodels/nx_graph.py): what each call reads/writes, views are live, edge iteration order = node order then successor order"

PROPS = {
    "C01": {
        "level": "proof",
        "explanation": "every function on the step path (constructors, init_vars, Network.step, ElementWithVars.step, step_dynamics of links and origins, node and origin/destination laws, both engines' primitives) is executed symbolically from the real source and must return the METANET value of specs/metanet.py (Hegyi 2004) over the ghost view; callers are checked against callee contracts",
        "trusted_base": [T_VIEW, "composition of the per-function contracts into the network-level statement (Network.step calls init_vars on all elements, then step on origins and links) is by the call-structure obligations of Network.step"],
        "assumptions": ["KF1 (known finding): the guarded mainstream-origin flow differs from Hegyi 3.3.3 for 0 < v_lim/v_free < 0.05"],
    },
    "C02": {"level": "proof", "explanation": "node balance (induction over the leaving links) and link telescoping (induction over the segments) as lemmas over the postconditions proved for C01, discharged by z3; the network-wide sum is the Lean lemma network_balance", "trusted_base": [T_VIEW, "hand transcription of the two postconditions into the hypotheses of lemmas/Metanet.lean:network_balance"]},
    "C03": {"level": "proof", "explanation": "lemma over contracts: (i) both engines refine EngineSpec for every primitive (proved), (ii) the element layer is verified against EngineSpec only (proved), (iii) to_function outputs the elements' next_states and takes exactly their symbols as inputs, for any number of elements (layout obligations at a generic element of every class), (iv) calling a casadi.Function substitutes arguments (assumed). SX and MX share every contract except _filter_vars (both branches verified).", "trusted_base": [T_VIEW, T_FUN, T_LAYOUT, T_SPINE, "floating point treated as real arithmetic"]},
    "C04": {"level": "proof", "explanation": "layout of arguments/results proved for a network with a symbolic number of links, origins and destinations of symbolic class by executing to_function, its helpers and Network.elements/states/... against the layout written from the property statement: per group and category one run over the elements in enumeration order (links, origins, destinations), every element contributing exactly its declared variables, named <key>_<name>, bound to its own symbols; results = next states in the same element/key order (+), of the size of their states; compact 1 = per-name stacks over the carriers, compact 2 = stacks of those; parameters last in declaration order. In addition five concrete spines are executed (exact order of the per-name groups, casadi.Function acceptance)", "trusted_base": [T_FUN, T_LAYOUT, T_SPINE]},
    "C05": {"level": "proof", "explanation": "extra outputs are, for any number of elements, Link.get_flow(engine) of every link then origin.get_flow(net, engine, **parameters, **other_parameters) of every origin, in enumeration order (per-element, stacked, or stacked together according to compact) - the same calls (same contract term) the queue update and the node inflow use; Link.get_flow = rho*v*lanes and the step_dynamics postconditions are proved", "trusted_base": [T_VIEW, T_FUN, T_LAYOUT, T_SPINE]},
    "C06": {"level": "proof", "explanation": "is_valid is executed as a whole on a graph with a symbolic number of nodes, edges and attachments (not assumed valid). Loops are not unrolled: each body is summarised at a generic index (all paths) and the loop's effect is stated by a rule - msgs non-empty afterwards iff some iteration reports (witness / universal fact), with raises=True the loop raises iff some iteration raises, and the count dict satisfies the invariant count[o] = number of earlier slots holding o (prefix sum of indicators; every write is obliged to re-establish it). Postconditions, written from the documented list: valid => none of the nine conditions is violated at any edge/node (two generic holders never hold the same object; (2)-(9) at a generic node), invalid => an explicit witness violates one of them, InvalidNetworkError exactly when invalid, invalid => a message exists. The whole function is also exercised natively by the bounded stand-in", "trusted_base": [T_NX, "python dict semantics of Network.origins/destinations (a repeated key keeps its last node) and the per-node link views (verified for C08) enter as the model of what is_valid iterates over", "loop rule: the effect of a loop is derived from the summary of its body at a generic index (pyvc/summary.py); finite-sum facts: lemma:sum-membership, lemma:sum-signs (induction, discharged by z3)"]},
    "C07": {"level": "proof", "explanation": "safety half of all contracts: no exception, indices/keys/asserts, shapes (next state = state), engine primitives keep every partial operation inside its domain under their admissible precondition (both engines, all argument-shape configurations incl. the NumPy engine's own (1,) variables and exact zeros), and the element layer is proved to call them inside that precondition for every admissible state (positive parameters, non-negative states, excluding the model's own 0/0 cases)", "trusted_base": [T_VIEW, T_FUN, T_SPINE]},
    "C08": {"level": "proof", "explanation": "representation invariant: a cached lookup is either dropped by the mutator (the real invalidate_cache wrapper is interpreted) or cannot change because the graph regions it reads are disjoint from the regions the mutator writes; holds after every interleaving of mutators and reads (no bound on histories)", "trusted_base": [T_NX]},
    "C09": {"level": "proof", "explanation": "each add_* makes exactly the described networkx call (node, edge direction, attribute key, replace on an existing node); add_path is proved for paths of any length and content by a loop invariant (inv-init, inv-step for a generic iteration of either parity, summary): accepted iff at least three items alternating node-link-node and ending in a node, every node/link/origin/destination added exactly as described, and only Node items ever reach add_node/add_origin/add_destination; in addition every concrete path shape up to length 5 is executed", "trusted_base": [T_NX]},
    "C10": {"level": "proof", "explanation": "the proved postconditions are stated through spec functions whose state reads are checked, case by case, to lie inside the allowed footprint", "trusted_base": [T_VIEW]},
    "C11": {"level": "proof", "explanation": "flags are symbolic Booleans; init_vars results are proved equal to ite(flag, max(0, given), given), step_dynamics results to ite(flag, max(0, R), R); Network.step is proved to forward each flag to the parameter of the same name and to no other call", "trusted_base": [T_VIEW]},
    "C12": {"level": "proof", "explanation": "every in-place write is proved to target a value created by the same call (fresh/frame obligations), init_vars leaves the supplied dict and arrays untouched, step writes only next_states, element-layer functions run against a read-only heap; repeatability because every postcondition is a function of the supplied values only (prior states/next_states arbitrary)", "trusted_base": [T_VIEW, "numpy view/copy semantics as modelled in pyvc/arrays.py"]},
    "C13": {"level": "proof", "explanation": "use/get_current_engine verified from an arbitrary prior selection state; every call on the step path is obliged to receive the caller's engine; with an explicit engine any read of the selected engine fails a noglobal obligation", "trusted_base": [T_VIEW]},
    "C14": {"level": "proof", "explanation": "share and scaling invariance as lemmas (induction discharged by z3) over the proved postcondition of Node.get_upstream_speed_and_flow; order/name independence because the specs aggregate over link sets and names are opaque tokens that cannot enter arithmetic", "trusted_base": [T_VIEW, "Lean lemma sum_enum (finite sums are independent of the enumeration)"]},
    "C15": {"level": "proof", "explanation": "each of the 17 primitives x 2 engines is proved equal, at a generic index for symbolic lengths, to one spec value; equality of the engines follows", "trusted_base": []},
    "C16": {"level": "proof", "explanation": "strata A and B are verified with every model parameter an arbitrary real (= the denotation of a symbol under every valuation) or a 1x1 CasADi symbol, and no python-level truth test may involve a parameter that can be symbolic; parameters are appended as trailing inputs in declaration order / stacked as p, for any number of elements (same-named symbols declared interleaved)", "trusted_base": [T_VIEW, T_FUN, T_LAYOUT, T_SPINE]},
    "C17": {"level": "proof", "explanation": "bounds proved as lemmas over the EngineSpec values (which both engines refine); the mainstream bound uses the Lean lemma fd_max", "trusted_base": ["Lean lemma fd_max and the exp/log/rpow facts (lemmas/Metanet.lean), instantiated as SMT hypotheses"]},
    "C18": {"level": "proof", "explanation": "neutral-control identities and monotonicity proved as lemmas over the EngineSpec values; 'infinite' is 'at least every value it is compared with'", "trusted_base": ["IEEE +inf behaving like such a value is assumed (the bounded stand-in runs real np.inf)"]},
    "C19": {"level": "proof", "explanation": "readiness scan of to_function proved for a symbolic number of elements of symbolic class and initialisation status (raises RuntimeError iff some element is not ready); ElementWithVars.step stores exactly the values of this call; for any number of elements the outputs are the elements' current next_states and the inputs their current symbols; a stale next state (symbols no longer among the inputs) makes casadi.Function raise (assumed library contract, sampled on every run and exercised on the spines)", "trusted_base": [T_FUN, T_LAYOUT, T_SPINE]},
}
