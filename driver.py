"""Check driver: selects the obligations of a property, runs the prover, reports verdicts,
known findings, replays and evidence (DESIGN.md 2.9, 2.10, 5)."""
from __future__ import annotations

import glob
import hashlib
import json
import os
import shutil
import subprocess
import sys
import time

HERE = os.path.dirname(os.path.abspath(__file__))
OUT = os.path.join(HERE, "out")
EVID = os.path.join(HERE, "evidence")
REPO = os.environ.get("VERIF_REPO", "/repo")
PY = "/venv/bin/python"

import runner  # noqa: E402
from pyvc import solver as S  # noqa: E402
from propmap import PROPS, relevant, DEPENDENTS  # noqa: E402


def all_tasks():
    tasks = []
    from contracts import engines_tasks, blocks_tasks

    tasks += engines_tasks.all_tasks()
    tasks += blocks_tasks.all_tasks()
    for modname in ("writers_tasks", "network_tasks", "lemma_tasks", "core_tasks", "construct_tasks", "views_content_tasks", "valid_agg_tasks", "compile_tasks", "layout_tasks"):
        try:
            mod = __import__("contracts." + modname, fromlist=["all_tasks"])
        except ImportError:
            continue
        ts = mod.all_tasks()
        # a property that speaks about stepping / compiling a network depends on every function that builds
        # the network and its variables, whichever property the task was first written for
        extra = DEPENDENTS.get(modname, ())
        for t in ts:
            t.stratum = modname
            if extra and not (modname == "construct_tasks" and tuple(t.props) == ("C09",)):
                t.props = tuple(t.props) + tuple(p for p in extra if p not in t.props)
        tasks += ts
    return tasks


def load_known_findings():
    p = os.path.join(HERE, "known_findings.json")
    if not os.path.exists(p):
        return []
    return json.load(open(p)).get("findings", [])


def source_fingerprint():
    h = hashlib.sha256()
    for f in sorted(glob.glob(os.path.join(REPO, "src", "sym_metanet", "**", "*.py"), recursive=True)):
        h.update(f.encode())
        h.update(open(f, "rb").read())
    return h.hexdigest()[:16]


def run_bounded(prop, tier, seed, outdir, budget_note=""):
    """the bounded stand-in on the real code (native); returns its result dict or None"""
    script = os.path.join(HERE, "bounded", "run.py")
    if not os.path.exists(script):
        return None
    out = os.path.join(outdir, f"bounded_{prop}.json")
    env = dict(os.environ)
    if REPO != "/repo":
        env["PYTHONPATH"] = os.path.join(REPO, "src") + os.pathsep + env.get("PYTHONPATH", "")
    try:
        p = subprocess.run([PY, script, "--property", prop, "--tier", tier, "--seed", str(seed), "--out", out],
                           capture_output=True, text=True, timeout=900 if tier == "thorough" else 120, env=env, cwd=HERE)
    except subprocess.TimeoutExpired:
        return {"error": "bounded stand-in timed out"}
    if p.returncode != 0 or not os.path.exists(out):
        return {"error": f"bounded stand-in exit {p.returncode}: {(p.stderr or p.stdout)[-1500:]}"}
    r = json.load(open(out))
    r["file"] = out
    return r


def write_replay(prop, rec, res, outdir, bounded=None, note=""):
    os.makedirs(outdir, exist_ok=True)
    key = hashlib.sha1((prop + res["id"]).encode()).hexdigest()[:12]
    path = os.path.join(outdir, f"{prop}_{key}.json")
    data = {
        "property": prop,
        "obligation": res["id"],
        "kind": res["kind"],
        "label": res["label"],
        "function": rec["func"],
        "configuration": rec["config"],
        "where": res["where"],
        "verdict": res["verdict"],
        "solver": res["solver"],
        "smt_file": res.get("file"),
        "solver_output": res.get("output", "")[:4000],
        "note": note,
        "repo_fingerprint": source_fingerprint(),
        "replay_cmd": f"./check replay {path}",
    }
    model_replay = replay_engine_model(rec, res, path)
    if model_replay is not None:
        data["verifier_counterexample_replayed_on_real_code"] = model_replay
    if model_replay is not None and model_replay.get("reproduced"):
        data["found_by"] = "the solver's model of the failed obligation, replayed natively (tools/replay_model.py)"
        json.dump(data, open(path, "w"), indent=1, default=str)
        return path, True
    if bounded and bounded.get("violations"):
        v = bounded["violations"][0]
        data["concrete_failing_input"] = v
        data["found_by"] = "bounded stand-in (native run of the real code)"
        data["bounded_result_file"] = bounded.get("file")
    json.dump(data, open(path, "w"), indent=1, default=str)
    return path, bool(bounded and bounded.get("violations"))


def replay_engine_model(rec, res, path):
    """stratum A: replay the verifier's counterexample on the real primitive (None if not applicable)"""
    func = rec.get("func", "")
    if not func.startswith("sym_metanet.engines.") or not res.get("file") or not os.path.exists(res["file"]):
        return None
    module, prim = func.split(":")[0].rsplit(".", 1)[1], func.split(":", 1)[1]
    if module not in ("numpy", "casadi"):
        return None
    try:
        from contracts import engines_tasks as ET

        cfg = [c for p_, l_, c in ET.configs({"numpy": "np", "casadi": "cs"}[module]) if p_ == prim and l_ == rec.get("config")]
        if not cfg:
            return None
        out = path + ".model_replay.json"
        env = dict(os.environ)
        if REPO != "/repo":
            env["PYTHONPATH"] = os.path.join(REPO, "src") + os.pathsep + env.get("PYTHONPATH", "")
        p = subprocess.run([PY, os.path.join(HERE, "tools", "replay_model.py"), res["file"], module, prim, json.dumps(cfg[0]), "--out", out],
                           capture_output=True, text=True, timeout=120, env=env, cwd=HERE)
        if os.path.exists(out):
            r = json.load(open(out))
            r["cmd"] = f"{PY} tools/replay_model.py {res['file']} {module} {prim} '{json.dumps(cfg[0])}'"
            return r
        return {"reproduced": False, "note": (p.stdout + p.stderr)[-400:]}
    except Exception as e:  # noqa: BLE001
        return {"reproduced": False, "note": f"{type(e).__name__}: {e}"}


def finding_matches(f, prop, res):
    if f.get("property") != prop or f.get("status", "open") != "open":
        return False
    pat = f.get("obligation_contains")
    return bool(pat) and pat in res["id"]


def main(argv):
    import argparse

    ap = argparse.ArgumentParser()
    ap.add_argument("prop")
    ap.add_argument("file", nargs="?")
    ap.add_argument("--tier", default=os.environ.get("VERIF_TIER", "quick"))
    ap.add_argument("--jobs", type=int, default=int(os.environ.get("VERIF_JOBS", "16")))
    ap.add_argument("--no-bounded", action="store_true")
    a = ap.parse_args(argv)
    seed = int(os.environ.get("VERIF_SEED", "1"))
    if a.prop == "replay":
        return replay(a.file)
    if a.prop == "list":
        for t in all_tasks():
            print(t.name, ",".join(t.props))
        return 0
    prop = a.prop
    if prop not in PROPS:
        print(f"unknown property {prop}")
        return 3
    cfg = PROPS[prop]
    tier = a.tier if a.tier in ("quick", "thorough") else "quick"
    os.environ["VERIF_TIER_EFFECTIVE"] = tier
    t0 = time.time()
    run_id = f"{prop}_{tier}" + os.environ.get("VERIF_OUT_SUFFIX", "")
    outdir = os.path.join(OUT, run_id)
    shutil.rmtree(outdir, ignore_errors=True)
    os.makedirs(outdir, exist_ok=True)
    tasks = [t for t in all_tasks() if prop in t.props]
    timeout = 10.0 if tier == "quick" else 60.0
    recs = runner.run_tasks(tasks, outdir, timeout=timeout, jobs=a.jobs, want_all=(tier == "thorough"), cover=True)
    findings = load_known_findings()

    n_obl = n_dis = 0
    b_obl = b_dis = 0
    bounds = set()
    failed, undecided, errors, known_hits = [], [], [], []
    by_solver, solver_time = {}, 0.0
    functions = {}
    samples = []
    dead = 0
    for rec in recs:
        if rec["error"]:
            errors.append((rec["task"], rec["error"]))
            continue
        if rec["undecided"]:
            undecided.append((rec, {"id": rec["task"] + "::unsupported", "kind": "unsupported", "label": rec["undecided"], "where": "", "verdict": "unknown", "solver": None}))
        dead += sum(1 for _, v in rec.get("cover", []) if v == "unsat")
        fn = functions.setdefault(rec["func"], {"configs": 0, "obligations": 0, "discharged": 0, "paths": 0})
        fn["configs"] += 1
        fn["paths"] += rec["paths"]
        for res in rec["results"]:
            if not relevant(prop, rec, res):
                continue
            is_b = bool(rec.get("bounded"))
            if is_b:
                b_obl += 1
                bounds.add(rec["bounded"])
            else:
                n_obl += 1
            fn["obligations"] += 1
            solver_time += res["time_s"]
            if res["verdict"] == "unsat":
                if is_b:
                    b_dis += 1
                else:
                    n_dis += 1
                fn["discharged"] += 1
                by_solver[res["solver"] or "?"] = by_solver.get(res["solver"] or "?", 0) + 1
                if len(samples) < 6 and res["solver"] not in (None, "syntactic-identity") and res["kind"] in ("post", "refines", "lemma", "defined", "fresh"):
                    samples.append({"obligation": res["id"], "verdict": "unsat", "solver": res["solver"], "time_s": res["time_s"], "smt_file": res.get("file")})
            elif res["verdict"] == "sat":
                hit = [f for f in findings if finding_matches(f, prop, res)]
                if hit:
                    # a recorded finding: reported as KNOWN-FINDING, not counted among the obligations
                    # claimed (its companion obligation outside the finding's region is counted)
                    known_hits.append((hit[0], rec, res))
                    if is_b:
                        b_obl -= 1
                    else:
                        n_obl -= 1
                    fn["obligations"] -= 1
                else:
                    failed.append((rec, res))
            else:
                undecided.append((rec, res))

    # vacuity guards
    vacuous = (n_obl + b_obl) == 0 or all(f["paths"] == 0 for f in functions.values())
    canary_ok = True

    # the bounded stand-in (native, labelled bounded; never counted as proved)
    bounded = None
    if not a.no_bounded and (cfg.get("bounded", True) or failed or undecided):
        bounded = run_bounded(prop, tier, seed, outdir)

    # guard on the verifier itself (thorough tier): the assumed numpy/CasADi models and the
    # interpreter against the real libraries on every engine primitive
    crosscheck = None
    if tier == "thorough" and prop in ("C15", "C03", "C01"):
        try:
            p = subprocess.run([PY, os.path.join(HERE, "tools", "crosscheck.py"), "--samples", "8", "--seed", str(seed)], capture_output=True, text=True, timeout=1800, cwd=HERE)
            crosscheck = {"exit": p.returncode, "summary": (p.stdout.strip().splitlines() or [""])[-1], "disagreements": [l for l in p.stdout.splitlines() if l.startswith("DISAGREE")][:10]}
        except subprocess.TimeoutExpired:
            crosscheck = {"exit": None, "summary": "timed out"}
        if crosscheck.get("exit") not in (0, None):
            errors.append(("tools/crosscheck.py", "assumed library contract refuted: " + "; ".join(crosscheck["disagreements"])[:1500]))

    # the assumed library contracts sampled against the installed numpy / CasADi / networkx
    libc = None
    try:
        p = subprocess.run([PY, os.path.join(HERE, "tools", "library_contracts.py")], capture_output=True, text=True, timeout=120, cwd=HERE)
        libc = {"exit": p.returncode, "summary": (p.stdout.strip().splitlines() or [""])[0], "refuted": [l.strip() for l in p.stdout.splitlines() if "REFUTED" in l][:10]}
        if p.returncode == 1:
            errors.append(("tools/library_contracts.py", "assumed library contract refuted: " + "; ".join(libc["refuted"])[:1500]))
    except subprocess.TimeoutExpired:
        libc = {"exit": None, "summary": "timed out"}

    # conformance sampler of the assumed ghost view / spec transcription against the real code
    ghostc = None
    if prop in ("C01", "C02", "C10", "C14") and (tier == "thorough" or prop == "C01") and not a.no_bounded:
        budget = "120" if tier == "thorough" else "8"
        env = dict(os.environ)
        if REPO != "/repo":
            env["PYTHONPATH"] = os.path.join(REPO, "src") + os.pathsep + env.get("PYTHONPATH", "")
        try:
            p = subprocess.run([PY, os.path.join(HERE, "tools", "ghost_conformance.py"), "--seed", str(seed), "--budget", budget], capture_output=True, text=True, timeout=900, cwd=HERE, env=env)
            ghostc = {"exit": p.returncode, "summary": (p.stdout.strip().splitlines() or [""])[-1], "disagreements": [l[:300] for l in p.stdout.splitlines() if "!=" in l or "FALSE" in l or "real code raised" in l][:5]}
        except subprocess.TimeoutExpired:
            ghostc = {"exit": None, "summary": "timed out"}

    status = 0
    lines = []
    for f, rec, res in known_hits:
        lines.append(f"KNOWN-FINDING: property={prop} {f['id']}: {f['what']}")
    seen_groups = set()
    rdir = os.path.join(OUT, "replays")
    for rec, res in failed:
        grp = (rec["func"], res["kind"], res["label"])
        if grp in seen_groups:
            continue
        seen_groups.add(grp)
        path, concrete = write_replay(prop, rec, res, rdir, bounded)
        lines.append(f"VIOLATION property={prop} replay={path}" + ("" if concrete else " no-failing-input-found"))
        lines.append(f"  failed obligation: {res['id']} ({res['solver']}) at {res['where']}")
        status = 1
    if bounded and bounded.get("violations") and status == 0:
        # found by the bounded stand-in only (the prover was undecided or silent)
        v = bounded["violations"][0]
        os.makedirs(rdir, exist_ok=True)
        path = os.path.join(rdir, f"{prop}_bounded_{seed}.json")
        json.dump({"property": prop, "found_by": "bounded stand-in (native run of the real code)", "concrete_failing_input": v,
                   "bounded_result_file": bounded.get("file"), "replay_cmd": f"./check replay {path}"}, open(path, "w"), indent=1, default=str)
        lines.append(f"VIOLATION property={prop} replay={path}")
        lines.append(f"  found by the bounded stand-in: {str(v.get('what'))[:300]}")
        status = 1
    if ghostc and ghostc.get("exit") == 1 and status == 0:
        os.makedirs(rdir, exist_ok=True)
        path = os.path.join(rdir, f"{prop}_ghost_conformance_{seed}.json")
        json.dump({"property": prop, "found_by": "tools/ghost_conformance.py: the proved specification term (or an assumed ghost fact) disagrees with the real code on a concrete network",
                   "details": ghostc, "replay_cmd": f"{PY} tools/ghost_conformance.py --seed {seed} --budget 30"}, open(path, "w"), indent=1)
        lines.append(f"VIOLATION property={prop} replay={path}")
        lines.append(f"  {ghostc['disagreements'][:1]}")
        status = 1
    downgraded = False
    if status == 0 and (vacuous or dead):
        status = 2
    elif status == 0 and undecided:
        # the prover could not decide some obligation (unsupported construct, solver unknown): nothing
        # is refuted.  If the bounded stand-in ran the real code and found nothing the property held
        # on everything explored: exit 0, but this run is evidence of level `other` (bounded), not proof
        if bounded is not None and not bounded.get("error") and not bounded.get("violations"):
            downgraded = True
            lines.append(f"UNDECIDED-BY-PROVER property={prop}: {len(undecided)} obligation(s)/task(s) not decided deductively; the bounded stand-in "
                         f"held on {bounded.get('evaluations')} evaluations - this run counts as bounded, not as proved")
        else:
            status = 2
    if errors:
        status = 3 if status != 1 else 1

    # ---- thorough tier: self-test of this check on the seeded changes aimed at this property
    selftest = None
    if tier == "thorough" and REPO == "/repo" and not os.environ.get("VERIF_NO_SELFTEST"):
        import tempfile

        selftest = {}
        mine = []
        for sid in sorted(os.listdir(os.path.join(HERE, "seeded"))) if os.path.isdir(os.path.join(HERE, "seeded")) else []:
            try:
                meta = json.load(open(os.path.join(HERE, "seeded", sid, "meta.json")))
            except Exception:  # noqa: BLE001
                continue
            if meta.get("property") == prop:
                mine.append(sid)
        if len(mine) > 4:  # (bounds the time of the thorough tier: a spread of four of the seeded changes)
            mine = [mine[0], mine[2], mine[4], mine[-1]]
        for sid in mine:
            d = tempfile.mkdtemp(prefix="selftest_")
            try:
                shutil.copytree(os.path.join(REPO, "src"), os.path.join(d, "src"))
                ap_ = subprocess.run(["patch", "-p1", "-s", "-i", os.path.join(HERE, "seeded", sid, "patch.diff")], cwd=d, capture_output=True, text=True)
                if ap_.returncode != 0:
                    selftest[sid] = "patch does not apply"
                    continue
                env = dict(os.environ, VERIF_REPO=d, VERIF_OUT_SUFFIX="_selftest", VERIF_NO_EVIDENCE="1", VERIF_NO_SELFTEST="1")
                q = subprocess.run([os.path.join(HERE, "check"), prop, "--tier", "quick"], env=env, capture_output=True, text=True, timeout=1800, cwd=HERE)
                selftest[sid] = f"exit {q.returncode}" + (" (detected)" if q.returncode == 1 else " (NOT detected)")
            except subprocess.TimeoutExpired:
                selftest[sid] = "timed out"
            finally:
                shutil.rmtree(d, ignore_errors=True)

    wall = time.time() - t0
    # ---- evidence
    os.makedirs(EVID, exist_ok=True)
    level = cfg["level"]
    if downgraded or (level == "proof" and n_dis != n_obl):
        level = "other"
    trusted = list(cfg.get("trusted_base", [])) + [
        "pyvc: the interpreter's model of Python (call binding, MRO, closures, dict order) and the VC generator",
        "reals for floats, mathematical integers (IEEE rounding/overflow/inf not modelled)",
        "assumed contracts of numpy, CasADi (denotational) and networkx (pyvc/arrays.py, pyvc/libmodels/*)",
        "solvers: z3 4.8.12, z3 5.1.0, cvc5 1.0.3",
        "transcription of Hegyi (2004) into specs/metanet.py",
    ]
    coverage = {
        "obligations": n_obl,
        "discharged": n_dis,
        "checker_cmd": f"./check {prop} --tier {tier}",
        "trusted_base": trusted,
        "obligations_on_bounded_input_families": {"obligations": b_obl, "discharged": b_dis, "bounds": sorted(bounds),
                                                   "note": "deductive runs over a bounded family of inputs; reported separately, not part of obligations/discharged above"},
        "functions_under_contract": {k: v for k, v in sorted(functions.items())},
        "discharged_by_backend": by_solver,
        "solver_time_s": round(solver_time, 2),
        "undecided": [r["id"] for _, r in undecided][:20],
        "failed": [r["id"] for _, r in failed][:20],
        "known_findings_reported": [f["id"] for f, _, _ in known_hits],
        "dead_paths": dead,
        "samples": samples or [{"note": "all obligations were discharged by syntactic identity after AC-normalisation"}],
        "explanation": ("THIS RUN: some obligations were not decided deductively (see `undecided`); the verdict rests on the bounded stand-in for them - level `other` for this run. " if downgraded else "") + cfg.get("explanation", ""),
        "repo_fingerprint": source_fingerprint(),
    }
    if crosscheck is not None:
        coverage["model_vs_real_crosscheck"] = crosscheck
    if libc is not None:
        coverage["library_contract_samples"] = libc
    if ghostc is not None:
        coverage["ghost_view_conformance_sampler"] = ghostc
    if selftest is not None:
        coverage["selftest_on_seeded_changes"] = selftest
    if bounded is not None:
        coverage["bounded_stand_in"] = {k: bounded.get(k) for k in ("evaluations", "distinct_nontrivial", "rule", "bound", "skipped", "error") if k in bounded}
        coverage["bounded_stand_in"]["violations"] = len(bounded.get("violations", []))
        coverage["bounded_stand_in"]["note"] = "bounded: run-time check of the real code over an enumerated scope; never counted in `discharged`"
        if level != "proof":
            coverage["evaluations"] = max(1, int(bounded.get("evaluations", 0) or 0) + n_obl)
            coverage["distinct_nontrivial"] = max(2, int(bounded.get("distinct_nontrivial", 0) or 0))
    ev = {
        "property_id": prop,
        "tier": tier,
        "seed": seed,
        "level": level,
        "coverage": coverage,
        "assumptions": cfg.get("assumptions", []) + list(cfg.get("trusted_base", [])) + [
            "closed world of element classes; no concurrency; graph mutated only through the Network API",
            "machine arithmetic (float64, CasADi) treated as real arithmetic; exp/log/pow are uninterpreted symbols constrained by Lean-proved lemma instances",
            "pyvc's semantics of the Python subset used by the repository (pyvc/interp.py) and its assumed contracts of numpy, CasADi, networkx, functools, itertools (pyvc/arrays.py, pyvc/libmodels/*; sampled on every run by tools/library_contracts.py, cross-checked against CPython by tools/crosscheck.py in the thorough tier)",
            "loop rules and local fragment summaries (pyvc/loops.py, pyvc/summary.py, pyvc/abscoll.py, contracts/*_tasks.py): the effect of a loop over a symbolic number of items is derived from its body at a generic index (induction performed by the rule, not by the solver)",
            "SMT solvers z3 4.8.12 / z3 5.1.0 / cvc5 1.0.3 and Lean 4.33 + Mathlib are trusted",
        ],
        "wall_s": round(wall, 2),
        "violations": sum(1 for l in lines if l.startswith("VIOLATION")),
    }
    if not os.environ.get("VERIF_NO_EVIDENCE"):
        json.dump(ev, open(os.path.join(EVID, f"{prop}.json"), "w"), indent=1, default=str)

    print(f"{prop} [{tier}] functions={len(functions)} obligations={n_obl} discharged={n_dis} (+{b_dis}/{b_obl} on bounded input families) failed={len(failed)} undecided={len(undecided)} "
          f"known={len(known_hits)} errors={len(errors)} wall={wall:.1f}s")
    if bounded is not None and not bounded.get("error"):
        print(f"  bounded stand-in: evaluations={bounded.get('evaluations')} violations={len(bounded.get('violations', []))}")
    for l in lines:
        print(l)
    if selftest:
        print("  self-test on seeded changes:", ", ".join(f"{k}: {v}" for k, v in selftest.items()))
    for _, r in undecided[:10]:
        print(f"  UNDECIDED {r['id']}: {r['label'][:200]}")
    for t, e in errors[:5]:
        print(f"  CHECKER ERROR in {t}:\n{e[-1500:]}")
    if bounded and bounded.get("error"):
        print("  bounded stand-in unavailable (not counted, does not affect the verdict):", bounded["error"][-300:].replace("\n", " "))
    return status


def replay(path):
    if not path or not os.path.exists(path):
        print("no such replay file")
        return 3
    d = json.load(open(path))
    print(json.dumps({k: d[k] for k in d if k not in ("solver_output",)}, indent=1)[:4000])
    rc = 0
    if d.get("smt_file") and os.path.exists(d["smt_file"]):
        v, out, dt = S.run_solver("z3-4.8", d["smt_file"], 20)
        print(f"re-running the failed obligation: {v} ({dt:.2f}s)")
        rc = 1 if v == "sat" else 0
    mr = d.get("verifier_counterexample_replayed_on_real_code")
    if mr and mr.get("cmd"):
        env = dict(os.environ)
        if REPO != "/repo":
            env["PYTHONPATH"] = os.path.join(REPO, "src") + os.pathsep + env.get("PYTHONPATH", "")
        p = subprocess.run(mr["cmd"], shell=True, cwd=HERE, env=env)
        rc = max(rc, p.returncode)
    v = d.get("concrete_failing_input")
    if isinstance(v, dict) and v.get("inputs") is not None:
        # self-contained: the failing input is in the replay file itself (the bounded result file it
        # came from is rewritten by later runs)
        tmp = path + ".case.json"
        json.dump({"property": d.get("property"), "violations": [v]}, open(tmp, "w"), default=str)
        env = dict(os.environ)
        if REPO != "/repo":
            env["PYTHONPATH"] = os.path.join(REPO, "src") + os.pathsep + env.get("PYTHONPATH", "")
        p = subprocess.run([PY, os.path.join(HERE, "bounded", "run.py"), "--replay", tmp], cwd=HERE, env=env)
        rc = max(rc, p.returncode)
    return rc
