"""AST interpreter of pyvc: executes the real functions of /repo/src/sym_metanet on symbolic
values (DESIGN.md 2.1, 2.2, 8). The source is parsed from the working tree on every run; no
text is copied or rewritten. Constructs outside the supported subset raise Unsupported, which
makes every obligation of the function being verified *undecided*.
"""
from __future__ import annotations

import ast
import os

from . import arrays as A
from . import terms as T
from .ctx import Ctx, Infeasible, cur
from . import ctx as ctxmod
from .values import (
    Arr,
    BoundMethod,
    Builtin,
    ClassValue,
    ExcClass,
    ExcValue,
    FuncValue,
    LocalObj,
    ModuleValue,
    ObjRef,
    OpaqueStr,
    PropertyValue,
    SSeq,
    StaticMethod,
    SymName,
    Unsupported,
)


import itertools as _it

_permctr = _it.count(1)


class ReturnEx(Exception):
    def __init__(self, value):
        self.value = value


class BreakEx(Exception):
    pass


class ContinueEx(Exception):
    pass


class PyRaise(Exception):
    """a python exception raised by the interpreted program"""

    def __init__(self, exc):
        self.exc = exc


class Env:
    __slots__ = ("vars", "parent", "module", "func", "cls")

    def __init__(self, parent=None, module=None, func=None, cls=None):
        self.vars = {}
        self.parent = parent
        self.module = module if module is not None else (parent.module if parent else None)
        self.func = func
        self.cls = cls if cls is not None else (parent.cls if parent is not None and func is None else cls)

    def lookup(self, name):
        e = self
        while e is not None:
            if name in e.vars:
                return e.vars[name]
            e = e.parent
        raise KeyError(name)


_MISSING = object()


def _pure_test(node):
    """comparisons / names / constants / boolean combinations of those: evaluation order and
    short-circuiting cannot be observed"""
    if isinstance(node, ast.Compare):
        return all(isinstance(x, (ast.Name, ast.Constant, ast.Attribute, ast.UnaryOp, ast.BinOp)) and _no_calls(x) for x in [node.left] + node.comparators)
    if isinstance(node, ast.BoolOp):
        return all(_pure_test(x) for x in node.values)
    if isinstance(node, ast.UnaryOp) and isinstance(node.op, ast.Not):
        return _pure_test(node.operand)
    return isinstance(node, (ast.Name, ast.Constant))


def _no_calls(node):
    return not any(isinstance(n, (ast.Call, ast.Subscript)) for n in ast.walk(node))


class StarPack:
    """opaque *args / **kwargs of a function verified for arbitrary extra arguments"""

    def __init__(self, name, known_kwargs=None):
        self.name = name
        self.known = dict(known_kwargs or {})

    def __repr__(self):
        return f"<StarPack {self.name} {list(self.known)}>"


class SuperProxy:
    def __init__(self, cls, obj):
        self.cls, self.obj = cls, obj


EXC_HIERARCHY = {
    "BaseException": (),
    "Exception": ("BaseException",),
    "TypeError": ("Exception",),
    "ValueError": ("Exception",),
    "RuntimeError": ("Exception",),
    "NotImplementedError": ("RuntimeError",),
    "KeyError": ("LookupError",),
    "IndexError": ("LookupError",),
    "LookupError": ("Exception",),
    "AttributeError": ("Exception",),
    "AssertionError": ("Exception",),
    "StopIteration": ("Exception",),
    "ImportError": ("Exception",),
    "Warning": ("Exception",),
    "ZeroDivisionError": ("ArithmeticError",),
    "ArithmeticError": ("Exception",),
}


def exc_isinstance(exc: ExcValue, name: str):
    seen = set()
    stack = [exc.cls_name] + list(exc.bases)
    while stack:
        n = stack.pop()
        if n == name:
            return True
        if n in seen:
            continue
        seen.add(n)
        stack.extend(EXC_HIERARCHY.get(n, ()))
    return False


class Interp:
    def __init__(self, src_root, package="sym_metanet"):
        self.src_root = src_root
        self.package = package
        self.modules: dict = {}
        self.loading: set = set()
        self.ext_modules: dict = {}  # name -> ModuleValue (library models)
        self.contracts: dict = {}  # qualname -> contract object with .apply(interp, args, kwargs)
        self.inline_only: set = set()  # qualnames to interpret even if a contract exists
        self.class_tags: dict = {}
        self.classes: dict = {}
        self.call_depth = 0
        self.max_depth = 40
        self.call_hook = None  # optional (qualname, args, kwargs) observer
        self.builtins = self._make_builtins()
        self.file_of: dict = {}
        self.calls_made: list = []

    # ------------------------------------------------------------------------------
    # modules

    def module_path(self, name):
        rel = name.split(".")
        p = os.path.join(self.src_root, *rel)
        if os.path.isdir(p):
            return os.path.join(p, "__init__.py")
        return p + ".py"

    def load_module(self, name):
        if name in self.modules:
            return self.modules[name]
        if name in self.ext_modules:
            return self.ext_modules[name]
        if not name.startswith(self.package):
            top = name.split(".")[0]
            if top in self.ext_modules and name in self.ext_modules:
                return self.ext_modules[name]
            raise Unsupported(f"import of unmodelled module {name}")
        path = self.module_path(name)
        if not os.path.exists(path):
            raise Unsupported(f"module {name} not found at {path}")
        mod = ModuleValue(name)
        self.modules[name] = mod
        mod.ns["__name__"] = name
        with open(path) as f:
            src = f.read()
        tree = ast.parse(src, filename=path)
        self.file_of[name] = path
        env = Env(module=mod)
        env.vars = mod.ns
        mod.tree = tree
        mod.path = path
        self.loading.add(name)
        try:
            if name == self.package:
                # the package __init__ selects a default engine at import time by trying to
                # import each engine: only its imports of names matter to the verified code
                self._exec_package_init(tree, env)
            else:
                for st in tree.body:
                    self.exec_stmt(st, env)
        finally:
            self.loading.discard(name)
        return mod

    def _exec_package_init(self, tree, env):
        for st in tree.body:
            if isinstance(st, (ast.Import, ast.ImportFrom)):
                try:
                    self.exec_stmt(st, env)
                except (Unsupported, PyRaise):
                    pass
        env.vars.setdefault("engine", None)

    # ------------------------------------------------------------------------------
    # statements

    def exec_block(self, stmts, env):
        for st in stmts:
            self.exec_stmt(st, env)

    def exec_stmt(self, node, env):
        m = getattr(self, "s_" + node.__class__.__name__, None)
        if m is None:
            raise Unsupported(f"statement {node.__class__.__name__} at line {node.lineno}")
        c = ctxmod.CUR
        if c is not None and c.where:
            c.where[-1] = f"{c.where[-1].rsplit(':', 1)[0]}:{node.lineno}"
        return m(node, env)

    def s_Expr(self, node, env):
        if isinstance(node.value, ast.Constant) and isinstance(node.value.value, str):
            return  # docstring
        self.eval(node.value, env)

    def s_Pass(self, node, env):
        pass

    def s_Import(self, node, env):
        for al in node.names:
            mod = self.load_module(al.name)
            if al.asname:
                env.vars[al.asname] = mod
            else:
                top = al.name.split(".")[0]
                if "." in al.name:
                    topm = self.load_module(top)
                    # bind submodule chain
                    cur_m = topm
                    parts = al.name.split(".")
                    for k in range(1, len(parts)):
                        sub = self.load_module(".".join(parts[: k + 1]))
                        cur_m.ns[parts[k]] = sub
                        cur_m = sub
                    env.vars[top] = topm
                else:
                    env.vars[top] = mod

    def s_ImportFrom(self, node, env):
        modname = node.module
        if node.level:
            raise Unsupported("relative import")
        if modname in ("typing", "collections.abc", "abc", "__future__"):
            for al in node.names:
                env.vars[al.asname or al.name] = self._typing_stub(modname, al.name)
            return
        mod = self.load_module(modname)
        for al in node.names:
            if al.name in mod.ns:
                env.vars[al.asname or al.name] = mod.ns[al.name]
            else:
                # maybe a submodule
                try:
                    env.vars[al.asname or al.name] = self.load_module(modname + "." + al.name)
                except Unsupported:
                    if modname in self.loading or modname == self.package:
                        # circular import during loading: bind lazily
                        env.vars[al.asname or al.name] = _Lazy(self, modname, al.name)
                    elif not modname.startswith(self.package):
                        # a name of an external library outside its model: usable as a value, Unsupported when used
                        env.vars[al.asname or al.name] = _Unmodelled(f"{modname}.{al.name}")
                    else:
                        raise Unsupported(f"cannot import {al.name} from {modname}")

    def _typing_stub(self, modname, name):
        if name == "TYPE_CHECKING":
            return False
        if name in ("abstractmethod",):
            return Builtin("abstractmethod", lambda it, a, k: a[0])
        if name == "ABC":
            return _TypingThing("ABC")
        return _TypingThing(name)

    def s_FunctionDef(self, node, env):
        qual = self._qual(env, node.name)
        fv = FuncValue(node, env, qual, env.module, cls=env.cls if env.func is None else None)
        val = fv
        for dec in reversed(node.decorator_list):
            d = self.eval(dec, env)
            val = self.call(d, [val], {})
        env.vars[node.name] = val

    def _qual(self, env, name):
        modname = env.module.name if env.module else "?"
        e = env
        while e is not None:
            if e.func is not None:
                outer = e.func.qualname.split(":", 1)[1]
                return f"{modname}:{outer}.<locals>.{name}"
            if isinstance(e.cls, str) and e.func is None:
                return f"{modname}:{e.cls}.{name}"
            e = e.parent
        return f"{modname}:{name}"

    def s_ClassDef(self, node, env):
        bases = []
        for b in node.bases:
            try:
                bases.append(self.eval(b, env))
            except Unsupported:
                bases.append(_TypingThing("?"))
        cenv = Env(parent=env, cls=node.name)
        cenv.func = None
        for st in node.body:
            self.exec_stmt(st, cenv)
        real_bases = [b for b in bases if isinstance(b, ClassValue)]
        exc_bases = [b for b in bases if isinstance(b, ExcClass)]
        if exc_bases and not real_bases:
            ec = ExcClass(node.name, tuple(b.name for b in exc_bases))
            EXC_HIERARCHY[node.name] = tuple(b.name for b in exc_bases)
            env.vars[node.name] = ec
            return
        qual = f"{env.module.name}:{node.name}"
        cv = ClassValue(node.name, qual, real_bases, cenv.vars, env.module)
        cv.ext_bases = [b for b in bases if not isinstance(b, (ClassValue, _TypingThing))]
        for k, v in list(cenv.vars.items()):
            if isinstance(v, FuncValue):
                v.cls = cv
            elif isinstance(v, StaticMethod) and isinstance(v.func, FuncValue):
                v.func.cls = cv
            elif isinstance(v, PropertyValue):
                if isinstance(v.fget, FuncValue):
                    v.fget.cls = cv
                if v.cached and v.attrname is None:
                    v.attrname = k
        custom = [k for k in ("__eq__", "__ne__", "__hash__") if k in cenv.vars]
        if custom:
            # objects are modelled with identity equality and identity hashing (dict keys, `==`, `in`,
            # graph nodes); a class that defines its own is outside that model
            raise Unsupported(f"class {node.name} defines {', '.join(custom)}: pyvc models objects with identity equality and hashing only")
        cv.tag = len(self.class_tags) + 1
        self.class_tags[qual] = cv.tag
        self.classes[qual] = cv
        env.vars[node.name] = cv

    def s_Return(self, node, env):
        raise ReturnEx(None if node.value is None else self.eval(node.value, env))

    def s_Assign(self, node, env):
        v = self.eval(node.value, env)
        for tgt in node.targets:
            self.assign(tgt, v, env)

    def s_AnnAssign(self, node, env):
        if node.value is None:
            return
        self.assign(node.target, self.eval(node.value, env), env)

    def s_AugAssign(self, node, env):
        op = _BINOPS[type(node.op)]
        tgt = node.target
        if isinstance(tgt, ast.Name):
            old = self.lookup(tgt.id, env)
            rhs = self.eval(node.value, env)
            new = self.aug(op, old, rhs)
            env.vars[tgt.id] = new
        elif isinstance(tgt, ast.Subscript):
            obj = self.eval(tgt.value, env)
            idx = self.eval_index(tgt.slice, env)
            old = self.getitem(obj, idx)
            rhs = self.eval(node.value, env)
            new = self.aug(op, old, rhs)
            self.setitem(obj, idx, new)
        elif isinstance(tgt, ast.Attribute):
            obj = self.eval(tgt.value, env)
            old = self.getattr(obj, tgt.attr)
            rhs = self.eval(node.value, env)
            self.setattr(obj, tgt.attr, self.aug(op, old, rhs))
        else:
            raise Unsupported("augmented assignment target")

    def aug(self, op, old, rhs):
        """x op= rhs: in place for mutable arrays, rebinding otherwise"""
        if isinstance(old, Arr):
            mutable = (old.dialect == "np" and old.kind in ("a0", "a1")) or (old.dialect == "abs" and old.kind == "vec")
            if mutable and op in ("+", "-", "*", "/"):
                return A.inplace_binop(op, old, rhs)
            if old.dialect == "abs" and old.kind == "sc" and op in ("+", "-", "*", "/"):
                # a scalar-like engine value may be a 0-d / length-1 ndarray: op= then writes into it
                A._check_writable(old, f"in-place {op}= on an engine value")
        if isinstance(old, list) and op == "+":
            if isinstance(rhs, SSeq):
                raise Unsupported("list += symbolic sequence")
            old.extend(rhs)
            return old
        return self.binop(op, old, rhs)

    def s_If(self, node, env):
        tv = self.eval(node.test, env)
        if self._try_merge_if(node, tv, env):
            return
        if self.truth(tv, why=f"if@{node.lineno}"):
            self.exec_block(node.body, env)
        else:
            self.exec_block(node.orelse, env)

    def _try_merge_if(self, node, tv, env):
        """`if c: x = e` (no else) with a symbolic c and array/number values: no path fork, x
        becomes ite(c, e, x).  The right-hand side is evaluated under the assumption c."""
        if node.orelse or len(node.body) != 1:
            return False
        st = node.body[0]
        if not (isinstance(st, ast.Assign) and len(st.targets) == 1):
            return False
        tgt = st.targets[0]
        if isinstance(tgt, ast.Name):
            getter = lambda: env.vars.get(tgt.id, _MISSING)
            setter = lambda v: env.vars.__setitem__(tgt.id, v)
        elif isinstance(tgt, ast.Subscript) and isinstance(tgt.slice, ast.Constant) and isinstance(tgt.slice.value, str):
            if not isinstance(tv, T.Term) or tv.sort != T.BOOL or tv.op == "const":
                return False
            holder = self.eval(tgt.value, env)
            key = tgt.slice.value
            if not isinstance(holder, dict) or key not in holder:
                return False
            getter = lambda: holder[key]

            def setter(v):
                cur().effects.append(("dict-write", id(holder), key))
                holder[key] = v
        else:
            return False
        if not isinstance(tv, T.Term) or tv.sort != T.BOOL or tv.op == "const":
            return False
        if isinstance(st.value, ast.Constant):
            return False
        old = getter()
        if not (isinstance(old, Arr) or A.is_num(old)):
            return False
        c = cur()
        mark = len(c.hyps)
        ndec = len(c.decisions)
        c.hyps.append(tv)
        try:
            new = self.eval(st.value, env)
        finally:
            del c.hyps[mark:]
        if len(c.decisions) != ndec:
            raise Unsupported("branching inside a merged conditional assignment")
        merged = A.merge(tv, new, old)
        if merged is None:
            return False  # not one numeric value: fork the path instead
        setter(merged)
        return True

    def s_Assert(self, node, env):
        ok = self.eval(node.test, env)
        c = cur()
        if isinstance(ok, T.Term):
            c.oblige("safe", f"assert at line {node.lineno} holds", ok)
            return
        if not self.truth(ok):
            c.oblige("safe", f"assert at line {node.lineno} holds", T.FALSE)
            raise Infeasible()

    def s_Raise(self, node, env):
        if node.exc is None:
            raise Unsupported("bare raise")
        e = self.eval(node.exc, env)
        if isinstance(e, ExcClass):
            e = ExcValue(e.name, (), e.bases)
        if not isinstance(e, ExcValue):
            raise Unsupported(f"raise of {e!r}")
        raise PyRaise(e)

    def s_Delete(self, node, env):
        for tgt in node.targets:
            if isinstance(tgt, ast.Subscript):
                obj = self.eval(tgt.value, env)
                idx = self.eval_index(tgt.slice, env)
                self.delitem(obj, idx)
            elif isinstance(tgt, ast.Name):
                env.vars.pop(tgt.id, None)
            elif isinstance(tgt, ast.Attribute):
                self.delattr(self.eval(tgt.value, env), tgt.attr)
            else:
                raise Unsupported("del target")

    def delattr(self, obj, name):
        if not isinstance(name, str):
            raise PyRaise(ExcValue("TypeError", ("attribute name must be string",)))
        if isinstance(obj, LocalObj):
            if name in obj.attrs:
                cur().effects.append(("attr-write", obj.ident, name))
                del obj.attrs[name]
                return
            raise PyRaise(ExcValue("AttributeError", (f"{obj.cls.name} object has no attribute {name}",)))
        raise Unsupported(f"attribute deletion on {type(obj).__name__}")

    def s_For(self, node, env):
        it = self.eval(node.iter, env)
        if hasattr(it, "pyvc_for"):
            return it.pyvc_for(self, node, env)
        if isinstance(it, A.SIntList):
            lst = it
            it = SSeq(lst.n, lambda k: lst.at(k), f"items of {lst.name}")
        if isinstance(it, SSeq) or hasattr(it, "pyvc_symbolic_iter"):
            from .loops import exec_symbolic_for

            return exec_symbolic_for(self, node, it, env)
        try:
            for item in self.iterate(it):
                self.assign(node.target, item, env)
                try:
                    self.exec_block(node.body, env)
                except ContinueEx:
                    continue
                except BreakEx:
                    break
            else:
                self.exec_block(node.orelse, env)
        except _SymbolicIterationNeeded as e:
            from .loops import exec_symbolic_for

            return exec_symbolic_for(self, node, e.seq, env)

    def s_While(self, node, env):
        raise Unsupported("while loop")

    def s_Break(self, node, env):
        raise BreakEx()

    def s_Continue(self, node, env):
        raise ContinueEx()

    def s_Try(self, node, env):
        try:
            self.exec_block(node.body, env)
        except PyRaise as pr:
            for h in node.handlers:
                if h.type is None or self._exc_matches(pr.exc, self.eval(h.type, env)):
                    if h.name:
                        env.vars[h.name] = pr.exc
                    self.exec_block(h.body, env)
                    break
            else:
                raise
        else:
            self.exec_block(node.orelse, env)
        finally:
            if node.finalbody:
                self.exec_block(node.finalbody, env)

    def _exc_matches(self, exc, spec):
        if isinstance(spec, tuple):
            return any(self._exc_matches(exc, s) for s in spec)
        if isinstance(spec, ExcClass):
            return exc_isinstance(exc, spec.name)
        return False

    def s_Global(self, node, env):
        e = env
        while e is not None and e.func is None:
            e = e.parent
        if e is None:
            return
        g = e.vars.setdefault("$globals", set())
        g.update(node.names)

    def s_Nonlocal(self, node, env):
        raise Unsupported("nonlocal statement")

    def s_With(self, node, env):
        raise Unsupported("with statement")

    # ------------------------------------------------------------------------------
    # assignment targets

    def assign(self, tgt, v, env):
        if isinstance(tgt, ast.Name):
            e = env
            while e is not None and e.func is None:
                e = e.parent
            if e is not None and tgt.id in e.vars.get("$globals", ()):
                cur().effects.append(("global-write", env.module.name, tgt.id))
                env.module.ns[tgt.id] = v
                return
            env.vars[tgt.id] = v
        elif isinstance(tgt, (ast.Tuple, ast.List)):
            items = self.unpack(v, len(tgt.elts))
            for t, x in zip(tgt.elts, items):
                self.assign(t, x, env)
        elif isinstance(tgt, ast.Attribute):
            self.setattr(self.eval(tgt.value, env), tgt.attr, v)
        elif isinstance(tgt, ast.Subscript):
            self.setitem(self.eval(tgt.value, env), self.eval_index(tgt.slice, env), v)
        else:
            raise Unsupported(f"assignment target {tgt.__class__.__name__}")

    def unpack(self, v, n):
        if isinstance(v, (tuple, list)):
            if len(v) != n:
                raise PyRaise(ExcValue("ValueError", ("unpack",)))
            return list(v)
        items = list(self.iterate(v))
        if len(items) != n:
            raise PyRaise(ExcValue("ValueError", ("unpack",)))
        return items

    # ------------------------------------------------------------------------------
    # expressions

    def eval(self, node, env):
        m = getattr(self, "e_" + node.__class__.__name__, None)
        if m is None:
            raise Unsupported(f"expression {node.__class__.__name__} at line {getattr(node, 'lineno', '?')}")
        return m(node, env)

    def lookup(self, name, env):
        try:
            v = env.lookup(name)
        except KeyError:
            if env.module is not None and name in env.module.ns:
                v = env.module.ns[name]
            elif name in self.builtins:
                v = self.builtins[name]
            else:
                import builtins as _b

                if hasattr(_b, name):
                    # a python builtin the interpreter does not model: a limit of the model, not a NameError
                    raise Unsupported(f"builtin {name} is not modelled")
                raise PyRaise(ExcValue("NameError", (name,)))
        if isinstance(v, _Lazy):
            v = v.get()
        return v

    def e_Constant(self, node, env):
        return node.value

    def e_Name(self, node, env):
        return self.lookup(node.id, env)

    def e_Attribute(self, node, env):
        return self.getattr(self.eval(node.value, env), node.attr)

    def e_Tuple(self, node, env):
        return tuple(self._elts(node.elts, env))

    def e_List(self, node, env):
        items = list(self._elts(node.elts, env))
        hook = getattr(self, "display_hook", None)
        if hook is not None:
            r = hook(self, "list", items, env)
            if r is not None:
                return r
        return items

    def e_Set(self, node, env):
        return set(self._elts(node.elts, env))

    def _elts(self, elts, env):
        out = []
        for e in elts:
            if isinstance(e, ast.Starred):
                out.extend(self.iterate(self.eval(e.value, env)))
            else:
                out.append(self.eval(e, env))
        return out

    def e_Dict(self, node, env):
        d = {}
        for k, v in zip(node.keys, node.values):
            if k is None:
                vv = self.eval(v, env)
                if hasattr(vv, "pyvc_update_into"):
                    vv.pyvc_update_into(self, d)
                else:
                    d.update(self.as_mapping(vv))
            else:
                d[self.hashable(self.eval(k, env))] = self.eval(v, env)
        hook = getattr(self, "display_hook", None)
        if hook is not None:
            r = hook(self, "dict", d, env)
            if r is not None:
                return r
        return d

    def hashable(self, k):
        return k

    def as_mapping(self, v):
        if isinstance(v, dict):
            return v
        if hasattr(v, "pyvc_as_mapping"):
            return v.pyvc_as_mapping(self)
        if isinstance(v, StarPack):
            raise Unsupported("** of an opaque argument pack inside a dict display")
        if v is None or isinstance(v, (bool, int, float, str, list, tuple, ClassValue, FuncValue)):
            raise PyRaise(ExcValue("TypeError", ("argument after ** must be a mapping",), ("Exception",)))
        raise Unsupported(f"** of {type(v).__name__}")

    def e_JoinedStr(self, node, env):
        parts = []
        for v in node.values:
            if isinstance(v, ast.Constant):
                parts.append(v.value)
            else:
                x = self.eval(v.value, env)
                parts.append(self.to_str(x))
        if all(isinstance(p, str) for p in parts):
            return "".join(parts)
        flat = []
        for p in parts:
            if isinstance(p, OpaqueStr):
                flat.extend(p.parts)
            else:
                flat.append(p)
        return OpaqueStr(flat)

    def to_str(self, x):
        if isinstance(x, (str, OpaqueStr, SymName)):
            return x
        if isinstance(x, (int, float, bool)) or x is None:
            return str(x)
        if isinstance(x, ClassValue):
            return f"<class '{x.name}'>"
        if isinstance(x, LocalObj):
            s, _ = x.cls.lookup("__str__")
            if s is not None:
                return self.call(BoundMethod(s, x), [], {})
        return OpaqueStr([("str", id(x))])

    def e_FormattedValue(self, node, env):
        return self.to_str(self.eval(node.value, env))

    def e_UnaryOp(self, node, env):
        v = self.eval(node.operand, env)
        if isinstance(node.op, ast.Not):
            t = self.truth_term(v)
            if isinstance(t, bool):
                return not t
            return T.not_(t)
        if isinstance(node.op, ast.USub):
            if isinstance(v, (int, float)):
                return -v
            if isinstance(v, T.Term):
                return T.neg(v)
            if isinstance(v, Arr):
                return A.unary(T.neg, v, "negation")
        if isinstance(node.op, ast.UAdd):
            return v
        raise Unsupported("unary operator")

    def e_BinOp(self, node, env):
        a = self.eval(node.left, env)
        b = self.eval(node.right, env)
        return self.binop(_BINOPS[type(node.op)], a, b)

    def binop(self, op, a, b):
        if hasattr(a, "pyvc_binop"):
            return a.pyvc_binop(self, op, b, False)
        if hasattr(b, "pyvc_binop"):
            return b.pyvc_binop(self, op, a, True)
        if isinstance(a, bool):
            a = int(a)
        if isinstance(b, bool):
            b = int(b)
        pa = isinstance(a, (int, float))
        pb = isinstance(b, (int, float))
        if pa and pb:
            try:
                if op == "+":
                    return a + b
                if op == "-":
                    return a - b
                if op == "*":
                    return a * b
                if op == "/":
                    return a / b
                if op == "**":
                    return a**b
                if op == "//":
                    return a // b
                if op == "%":
                    return a % b
            except ZeroDivisionError:
                raise PyRaise(ExcValue("ZeroDivisionError", ()))
        if A.is_numlike(a) and A.is_numlike(b):
            if op in ("+", "-", "*", "/", "**"):
                return A.elementwise(op, a, b)
            raise Unsupported(f"operator {op} on symbolic numbers")
        if op == "+":
            if isinstance(a, str) and isinstance(b, str):
                return a + b
            if isinstance(a, (str, OpaqueStr, SymName)) and isinstance(b, (str, OpaqueStr, SymName)):
                pa_ = a.parts if isinstance(a, OpaqueStr) else (a,)
                pb_ = b.parts if isinstance(b, OpaqueStr) else (b,)
                return OpaqueStr(pa_ + pb_)
            if isinstance(a, list) and isinstance(b, list):
                return a + b
            if isinstance(a, tuple) and isinstance(b, tuple):
                return a + b
        if op == "*" and isinstance(a, (list, tuple, str)) and isinstance(b, int):
            return a * b
        if op == "%" and isinstance(a, str):
            return OpaqueStr([a, "%"])
        raise Unsupported(f"binary {op} on {type(a).__name__}, {type(b).__name__}")

    def e_BoolOp(self, node, env):
        is_and = isinstance(node.op, ast.And)
        last = None
        for i, e in enumerate(node.values):
            last = self.eval(e, env)
            if i == len(node.values) - 1:
                return last
            if isinstance(last, T.Term) and last.sort == T.BOOL and last.op != "const" and all(_pure_test(x) for x in node.values[i + 1:]):
                # symbolic and side-effect free operands: one Boolean term, no path fork
                acc = last
                ok = True
                for x in node.values[i + 1:]:
                    v = self.truth_term(self.eval(x, env))
                    acc = T.and_(acc, T.lift(v)) if is_and else T.or_(acc, T.lift(v))
                return acc
            t = self.truth(last, why=f"boolop@{node.lineno}")
            if is_and and not t:
                return last if not isinstance(last, T.Term) else False
            if not is_and and t:
                return last if not isinstance(last, T.Term) else True
        return last

    def e_IfExp(self, node, env):
        if self.truth(self.eval(node.test, env), why=f"ifexp@{node.lineno}"):
            return self.eval(node.body, env)
        return self.eval(node.orelse, env)

    def e_Compare(self, node, env):
        left = self.eval(node.left, env)
        result = None
        for op, rn in zip(node.ops, node.comparators):
            right = self.eval(rn, env)
            r = self.compare(op, left, right)
            if result is None:
                result = r
            else:
                result = self._and(result, r)
            if result is False:
                return False
            left = right
        return result

    def _and(self, a, b):
        if isinstance(a, bool) and isinstance(b, bool):
            return a and b
        return T.and_(T.lift(a), T.lift(b))

    def compare(self, op, a, b):
        if isinstance(op, (ast.Is, ast.IsNot)):
            r = self.identical(a, b)
            if isinstance(op, ast.IsNot):
                r = (not r) if isinstance(r, bool) else T.not_(r)
            return r
        if isinstance(op, (ast.In, ast.NotIn)):
            r = self.contains(b, a)
            if isinstance(op, ast.NotIn):
                r = (not r) if isinstance(r, bool) else T.not_(r)
            return r
        name = _CMPOPS[type(op)]
        if isinstance(op, (ast.Eq, ast.NotEq)):
            r = self.equal(a, b)
            if isinstance(op, ast.NotEq):
                r = (not r) if isinstance(r, bool) else T.not_(r)
            return r
        if isinstance(a, bool):
            a = int(a)
        if isinstance(b, bool):
            b = int(b)
        if isinstance(a, (int, float)) and isinstance(b, (int, float)):
            return {"<": a < b, "<=": a <= b, ">": a > b, ">=": a >= b}[name]
        if A.is_numlike(a) and A.is_numlike(b):
            return A.elementwise(name, a, b)
        containers = (dict, list, set, LocalObj, ObjRef)
        num = (int, float, T.Term, Arr)
        if (isinstance(a, containers) or hasattr(a, "pyvc_for") or hasattr(a, "pyvc_as_mapping")) and isinstance(b, num) \
                or (isinstance(b, containers) or hasattr(b, "pyvc_for") or hasattr(b, "pyvc_as_mapping")) and isinstance(a, num):
            # ordering a container / object against a number: python raises TypeError
            raise PyRaise(ExcValue("TypeError", (f"'{name}' not supported between these operands",), ("Exception",)))
        raise Unsupported(f"comparison {name} on {type(a).__name__}, {type(b).__name__}")

    def identical(self, a, b):
        if a is None or b is None:
            if a is None and b is None:
                return True
            other = b if a is None else a
            if hasattr(other, "pyvc_is_none"):
                return other.pyvc_is_none()
            return False
        if hasattr(a, "pyvc_identical"):
            return a.pyvc_identical(self, b)
        if hasattr(b, "pyvc_identical"):
            return b.pyvc_identical(self, a)
        if isinstance(a, ObjRef) and isinstance(b, ObjRef):
            return T.eq(a.term, b.term)
        if isinstance(a, LocalObj) and isinstance(b, ObjRef) and a.ref is not None:
            return T.eq(a.ref, b.term)
        if isinstance(b, LocalObj) and isinstance(a, ObjRef) and b.ref is not None:
            return T.eq(b.ref, a.term)
        if isinstance(a, (bool, str, int)) and isinstance(b, (bool, str, int)):
            return a is b or (type(a) is type(b) and a == b)
        return a is b

    def equal(self, a, b):
        """python == ; returns bool or Bool term (or Arr for arrays)"""
        if a is None or b is None:
            r = self.identical(a, b)
            return r
        if isinstance(a, (ObjRef, LocalObj)) or isinstance(b, (ObjRef, LocalObj)):
            return self.identical(a, b)
        if isinstance(a, bool):
            a = int(a)
        if isinstance(b, bool):
            b = int(b)
        if isinstance(a, (int, float)) and isinstance(b, (int, float)):
            return a == b
        if hasattr(a, "pyvc_eq"):
            return a.pyvc_eq(b)
        if hasattr(b, "pyvc_eq"):
            return b.pyvc_eq(a)
        if A.is_numlike(a) and A.is_numlike(b):
            return A.elementwise("==", a, b)
        if isinstance(a, str) and isinstance(b, str):
            return a == b
        if isinstance(a, (str, OpaqueStr, SymName)) and isinstance(b, (str, OpaqueStr, SymName)):
            if a == b:
                return True
            raise Unsupported("comparison of opaque strings")
        if isinstance(a, tuple) and isinstance(b, tuple):
            if len(a) != len(b):
                return False
            r = True
            for x, y in zip(a, b):
                r = self._and(r, self.equal(x, y))
                if r is False:
                    return False
            return r
        if type(a) is not type(b):
            return False
        if isinstance(a, (list, dict, set)):
            return a == b
        return a is b

    def contains(self, container, item):
        if hasattr(container, "pyvc_contains"):
            return container.pyvc_contains(self, item)
        if isinstance(container, (dict, set, frozenset)):
            if isinstance(item, ObjRef):
                r = False
                for k in container:
                    e = self.equal(k, item)
                    r = e if r is False else (T.or_(T.lift(r), T.lift(e)) if not (r is True or e is True) else True)
                return r
            try:
                return item in container
            except TypeError:
                raise PyRaise(ExcValue("TypeError", ("unhashable",)))
        if isinstance(container, (list, tuple)):
            r = False
            for k in container:
                e = self.equal(k, item)
                if e is True:
                    return True
                if e is not False:
                    r = e if r is False else T.or_(T.lift(r), T.lift(e))
            return r
        if isinstance(container, str) and isinstance(item, str):
            return item in container
        raise Unsupported(f"'in' on {type(container).__name__}")

    def e_Subscript(self, node, env):
        obj = self.eval(node.value, env)
        if isinstance(obj, (_TypingThing,)) or (isinstance(obj, ClassValue)):
            return obj  # Generic[...] subscription
        if isinstance(obj, Builtin) and obj.name in ("dict", "list", "tuple", "set", "type"):
            return obj
        idx = self.eval_index(node.slice, env)
        return self.getitem(obj, idx)

    def eval_index(self, node, env):
        if isinstance(node, ast.Slice):
            lo = None if node.lower is None else self.eval(node.lower, env)
            hi = None if node.upper is None else self.eval(node.upper, env)
            st = None if node.step is None else self.eval(node.step, env)
            if st not in (None, 1):
                raise Unsupported("slice with a step")
            return slice(lo, hi)
        return self.eval(node, env)

    def getitem(self, obj, idx):
        if hasattr(obj, "pyvc_getitem"):
            return obj.pyvc_getitem(self, idx)
        if isinstance(obj, LocalObj):
            return self.call(self.getattr(obj, "__getitem__"), [idx], {})
        if isinstance(obj, Arr):
            if isinstance(idx, slice):
                return A.getitem_slice(obj, idx.start, idx.stop)
            if isinstance(idx, (list, A.SIntList)):
                return A.getitem_list(obj, idx)
            if isinstance(idx, (int, T.Term)) and not isinstance(idx, bool):
                return A.getitem_int(obj, idx)
            raise Unsupported(f"array index {type(idx).__name__}")
        if isinstance(obj, dict):
            if isinstance(idx, ObjRef) and idx not in obj:
                for k in obj:
                    if isinstance(k, (ObjRef, LocalObj)) and cur().decide(T.lift(self.identical(k, idx)), "dict key alias"):
                        return obj[k]
                raise PyRaise(ExcValue("KeyError", (idx,)))
            try:
                return obj[idx]
            except KeyError:
                raise PyRaise(ExcValue("KeyError", (idx,)))
            except TypeError:
                raise PyRaise(ExcValue("TypeError", ("unhashable",)))
        if isinstance(obj, (list, tuple, str)):
            if isinstance(idx, slice):
                if isinstance(idx.start, T.Term) or isinstance(idx.stop, T.Term):
                    raise Unsupported("symbolic slice of a python sequence")
                return obj[idx]
            if isinstance(idx, T.Term):
                raise Unsupported("symbolic index into a python sequence")
            try:
                return obj[idx]
            except IndexError:
                raise PyRaise(ExcValue("IndexError", ()))
        if isinstance(obj, SSeq):
            if isinstance(idx, int):
                i = A.norm_index(idx, obj.n)
                cur().oblige("safe", "sequence index in bounds", T.and_(T.le(0, i), T.lt(i, obj.n)))
                return obj.elem(i)
            raise Unsupported("index into a symbolic sequence")
        raise Unsupported(f"subscript of {type(obj).__name__}")

    def setitem(self, obj, idx, v):
        if hasattr(obj, "pyvc_setitem"):
            return obj.pyvc_setitem(self, idx, v)
        if isinstance(obj, Arr):
            if idx is Ellipsis:
                if obj.is_scalar:
                    raise Unsupported("x[...] = v on a scalar value")
                return A.setitem_slice(obj, None, None, v)  # whole-array overwrite in place
            if isinstance(idx, slice):
                return A.setitem_slice(obj, idx.start, idx.stop, v)
            if isinstance(idx, (list, A.SIntList)):
                return A.setitem_list(obj, idx, v)
            return A.setitem_int(obj, idx, v)
        if isinstance(obj, dict):
            cur().effects.append(("dict-write", id(obj), idx))
            obj[idx] = v
            return
        if isinstance(obj, list):
            obj[idx] = v
            return
        raise Unsupported(f"item assignment on {type(obj).__name__}")

    def delitem(self, obj, idx):
        if hasattr(obj, "pyvc_delitem"):
            return obj.pyvc_delitem(self, idx)
        if isinstance(obj, dict):
            if idx not in obj:
                raise PyRaise(ExcValue("KeyError", (idx,)))
            cur().effects.append(("dict-del", id(obj), idx))
            del obj[idx]
            return
        raise Unsupported("del item")

    def e_Call(self, node, env):
        fn = self.eval(node.func, env)
        args = []
        star = None
        for a in node.args:
            if isinstance(a, ast.Starred):
                v = self.eval(a.value, env)
                if isinstance(v, SSeq):
                    if star is not None or args:
                        raise Unsupported("symbolic *args mixed with other positional arguments")
                    star = v
                elif isinstance(v, StarPack):
                    args.append(v)
                else:
                    try:
                        args.extend(self.iterate(v))
                    except _SymbolicIterationNeeded as e:
                        if args:
                            raise Unsupported("symbolic *args mixed with other positional arguments")
                        star = e.seq
            else:
                args.append(self.eval(a, env))
        kwargs = {}
        for kw in node.keywords:
            if kw.arg is None:
                v = self.eval(kw.value, env)
                if isinstance(v, StarPack):
                    kwargs.setdefault("**", []).append(v)
                    for k2, v2 in v.known.items():
                        if k2 in kwargs:
                            raise PyRaise(ExcValue("TypeError", (f"multiple values for keyword argument '{k2}'",)))
                        kwargs[k2] = v2
                else:
                    m = self.as_mapping(v)
                    for k2, v2 in m.items():
                        if k2 in kwargs:
                            raise PyRaise(ExcValue("TypeError", (f"multiple values for keyword argument '{k2}'",)))
                        kwargs[k2] = v2
            else:
                if kw.arg in kwargs:
                    raise PyRaise(ExcValue("TypeError", (f"multiple values for keyword argument '{kw.arg}'",)))
                kwargs[kw.arg] = self.eval(kw.value, env)
        if star is not None:
            args = [_SymStar(star)]
        # zero-argument super()
        if isinstance(fn, Builtin) and fn.name == "super" and not args:
            e = env
            while e is not None and e.func is None:
                e = e.parent
            if e is None or e.func.cls is None:
                raise Unsupported("super() outside a method")
            selfname = e.func.node.args.args[0].arg
            return SuperProxy(e.func.cls, e.vars[selfname])
        return self.call(fn, args, kwargs)

    def e_Lambda(self, node, env):
        fd = ast.FunctionDef(name="<lambda>", args=node.args, body=[ast.Return(value=node.body, lineno=node.lineno, col_offset=0)],
                             decorator_list=[], returns=None, type_comment=None, lineno=node.lineno, col_offset=node.col_offset)
        return FuncValue(fd, env, self._qual(env, "<lambda>"), env.module)

    def e_ListComp(self, node, env):
        r = self._comprehension(node, env, "list")
        return r

    def e_SetComp(self, node, env):
        r = self._comprehension(node, env, "list")
        if isinstance(r, SSeq) and not T.is_const(r.n):
            # the distinct values of a symbolic number of items: some m <= n of them, each one of the items
            c = cur()
            m = T.fresh("n_distinct", T.INT)
            pick = T.uf(f"pick!{m.uid}", [T.INT], T.INT)
            c.axiom(T.and_(T.le(0, m), T.le(m, r.n), T.implies(T.lt(0, r.n), T.le(1, m))))

            def elem(j, r=r, pick=pick):
                j = T.lift(j, T.INT)
                cur().axiom(T.and_(T.le(0, pick(j)), T.lt(pick(j), r.n)))
                return r.elem(pick(j))

            return SSeq(m, elem, f"set of {r.desc}")
        return set(r)

    def e_GeneratorExp(self, node, env):
        return self._comprehension(node, env, "gen")

    def e_DictComp(self, node, env):
        return self._comprehension(node, env, "dict")

    def _comprehension(self, node, env, kind):
        from .loops import eval_comprehension

        return eval_comprehension(self, node, env, kind)

    def e_Starred(self, node, env):
        raise Unsupported("starred expression here")

    def e_NamedExpr(self, node, env):
        v = self.eval(node.value, env)
        if not isinstance(node.target, ast.Name):
            raise Unsupported("walrus target")
        # PEP 572: binds in the enclosing function scope (comprehension scopes are skipped)
        e = env
        while e.parent is not None and e.func is None and e.parent.module is e.module and e.parent.parent is not None:
            e = e.parent
        e.vars[node.target.id] = v
        env.vars[node.target.id] = v
        return v

    def e_YieldFrom(self, node, env):
        e = env
        while e is not None and "$yield" not in e.vars:
            e = e.parent
        if e is None:
            raise Unsupported("yield from outside generator")
        v = self.eval(node.value, env)
        if isinstance(v, SSeq) and not T.is_const(v.n):
            if e.vars["$yield"]:
                raise Unsupported("yield from a symbolic sequence after other yields")
            e.vars["$yield_value"] = v
            return None
        for item in self.iterate(v):
            e.vars["$yield"].append(item)
        return None

    def e_Yield(self, node, env):
        e = env
        while e is not None and "$yield" not in e.vars:
            e = e.parent
        if e is None:
            raise Unsupported("yield outside generator")
        e.vars["$yield"].append(None if node.value is None else self.eval(node.value, env))
        return None

    # ------------------------------------------------------------------------------
    # truth values

    def truth_term(self, v):
        """python truthiness as bool or Bool term"""
        if isinstance(v, bool):
            return v
        if v is None:
            return False
        if isinstance(v, T.Term):
            self._check_not_symbolic_param(v)
            if v.sort == T.BOOL:
                return v
            return T.ne(v, 0)
        if isinstance(v, (int, float, str, list, tuple, dict, set)):
            return bool(v)
        if hasattr(v, "pyvc_truth"):
            return v.pyvc_truth(self)
        if isinstance(v, Arr):
            c = cur()
            if not v.is_scalar:
                if v.dialect == "cs":
                    c.oblige("safe", "truth value of a CasADi matrix: must be 1x1 and numeric", T.eq(v.n, 1))
                    if v.symtype in ("SX", "MX"):
                        c.oblige("safe", "truth value of a symbolic CasADi expression", T.FALSE)
                        raise Infeasible()
                else:
                    c.oblige("safe", "truth value of an array needs exactly one element", T.eq(v.n, 1))
            if v.dialect == "abs":
                # raises under CasADi with symbols; with numbers (NumPy) it depends on the value: the run goes on
                # with that meaning, so that what the test then does to the results is seen too
                c.oblige("safe", "truth value of an engine value (symbolic under CasADi)", T.FALSE, assume_after=False)
                if not v.is_scalar:
                    c.oblige("safe", "truth value of an array needs exactly one element", T.eq(v.n, 1))
            e = v.at(0)
            return e if e.sort == T.BOOL else T.ne(e, 0)
        if isinstance(v, SSeq):
            return T.lt(0, v.n)
        if isinstance(v, (LocalObj, ObjRef, ClassValue, FuncValue, BoundMethod, Builtin, OpaqueStr, SymName)):
            return True
        raise Unsupported(f"truth value of {type(v).__name__}")

    def _check_not_symbolic_param(self, t):
        """model parameters may be CasADi symbols (C16): a python-level truth test of a value
        computed from one would raise under CasADi"""
        c = cur()
        names = getattr(c, "maybe_symbolic", None)
        if not names:
            return
        for x in T.subterms([t]):
            nm = x.args[0] if x.op == "var" else (x.op[3:] if x.op.startswith("uf:") else None)
            if nm in names:
                c.oblige("safe", f"no python-level truth test of a value computed from the model parameter {nm} (may be a CasADi symbol)",
                         T.FALSE, assume_after=False)
                return

    def truth(self, v, why=""):
        t = self.truth_term(v)
        if isinstance(t, bool):
            return t
        return cur().decide(t, why)

    # ------------------------------------------------------------------------------
    # attributes

    def getattr(self, obj, name):
        if isinstance(obj, _Lazy):
            obj = obj.get()
        if hasattr(obj, "pyvc_getattr"):
            return obj.pyvc_getattr(self, name)
        if isinstance(obj, ModuleValue):
            if name in obj.ns:
                v = obj.ns[name]
                return v.get() if isinstance(v, _Lazy) else v
            try:
                return self.load_module(obj.name + "." + name)
            except Unsupported:
                if not obj.name.startswith(self.package):
                    # an external library is modelled only as far as the repository uses it: a name that
                    # is not modelled is a limit of the model, not an AttributeError of the program
                    raise Unsupported(f"{obj.name}.{name} is not part of the model of {obj.name.split('.')[0]}")
                raise PyRaise(ExcValue("AttributeError", (f"module {obj.name} has no attribute {name}",)))
        if isinstance(obj, LocalObj):
            if name == "__dict__":
                return obj.attrs
            if name == "__class__":
                return obj.cls
            if name in obj.attrs:
                return obj.attrs[name]
            v, owner = obj.cls.lookup(name)
            if owner is None:
                for c in obj.cls.mro:
                    for eb in getattr(c, "ext_bases", ()):
                        if hasattr(eb, "pyvc_ext_method"):
                            m = eb.pyvc_ext_method(self, obj, name)
                            if m is not None:
                                return m
                if obj.cls.declares_attr(name):
                    # the class gives its instances this attribute, the harness that built the object did
                    # not: a limit of the harness, not an AttributeError of the program
                    raise Unsupported(f"attribute {name} of {obj.cls.name} is not set up by the verification harness")
                raise PyRaise(ExcValue("AttributeError", (f"{obj.cls.name} object has no attribute {name}",)))
            return self.bind(v, obj)
        if isinstance(obj, ObjRef):
            return obj.heap.getattr(self, obj, name)
        if isinstance(obj, SuperProxy):
            mro = obj.obj.cls.mro if isinstance(obj.obj, LocalObj) else obj.obj.heap.mro_of(self, obj.obj)
            i = mro.index(obj.cls)
            for c in mro[i + 1:]:
                if name in c.ns:
                    return self.bind(c.ns[name], obj.obj)
            for c in mro[i:]:
                for eb in getattr(c, "ext_bases", ()):
                    if hasattr(eb, "pyvc_ext_method"):
                        m = eb.pyvc_ext_method(self, obj.obj, name)
                        if m is not None:
                            return m
            if name == "__init__":
                return Builtin("object.__init__", lambda it, a, k: None)
            raise PyRaise(ExcValue("AttributeError", (f"super has no attribute {name}",)))
        if isinstance(obj, ClassValue):
            if name == "__name__":
                return obj.name
            v, owner = obj.lookup(name)
            if owner is None:
                raise PyRaise(ExcValue("AttributeError", (f"class {obj.name} has no attribute {name}",)))
            if isinstance(v, StaticMethod):
                return v.func
            return v
        if isinstance(obj, FuncValue):
            if name == "__name__":
                return obj.name
            if name == "__wrapped__" and obj.wrapped is not None:
                return obj.wrapped
            raise PyRaise(ExcValue("AttributeError", (name,)))
        if isinstance(obj, PropertyValue):
            if name == "attrname":
                return obj.attrname
            raise PyRaise(ExcValue("AttributeError", (name,)))
        if isinstance(obj, ExcClass):
            if name == "__name__":
                return obj.name
        if isinstance(obj, Arr):
            return self.arr_attr(obj, name)
        if isinstance(obj, (dict, list, str, tuple, set)):
            return self.native_method(obj, name)
        if isinstance(obj, _TypingThing):
            return _TypingThing(f"{obj.name}.{name}")
        if isinstance(obj, SSeq) and name == "append" and type(obj) is SSeq:
            # a list built by a map-style loop over a symbolic sequence, then extended by one item
            def append(it, a, k, seq=obj):
                x = a[0]
                old_n, old_elem = seq.n, seq.elem

                def elem(i, x=x, old_n=old_n, old_elem=old_elem):
                    i = T.lift(i, T.INT)
                    if i is old_n:
                        return x
                    if T.is_const(i) and T.is_const(old_n):
                        return x if T.cval(i) == T.cval(old_n) else old_elem(i)
                    m = A.merge(T.eq(i, old_n), x, old_elem(i))
                    if m is None:
                        raise Unsupported("append of a value of another kind to a symbolic list")
                    return m

                seq.n, seq.elem = T.add(old_n, 1), elem
                seq.desc = f"{seq.desc}+[item]"

            return Builtin("sseq.append", append)
        if obj is None and not name.startswith("__"):
            raise PyRaise(ExcValue("AttributeError", (f"'NoneType' object has no attribute '{name}'",)))
        raise Unsupported(f"attribute {name} of {type(obj).__name__}")

    def bind(self, v, obj):
        if isinstance(v, FuncValue):
            return BoundMethod(v, obj)
        if isinstance(v, StaticMethod):
            return v.func
        if isinstance(v, PropertyValue):
            if v.cached and isinstance(obj, LocalObj):
                if v.attrname in obj.attrs:
                    return obj.attrs[v.attrname]
                val = self.call(v.fget, [obj], {})
                obj.attrs[v.attrname] = val
                cur().effects.append(("cache-fill", v.attrname))
                return val
            return self.call(v.fget, [obj], {})
        if isinstance(v, Builtin):
            return v
        if hasattr(v, "pyvc_bind"):
            return v.pyvc_bind(self, obj)
        return v

    def setattr(self, obj, name, v):
        if hasattr(obj, "pyvc_setattr"):
            return obj.pyvc_setattr(self, name, v)
        if isinstance(obj, LocalObj):
            pv, owner = obj.cls.lookup(name)
            if isinstance(pv, PropertyValue) and not pv.cached:
                if pv.fset is None:
                    raise PyRaise(ExcValue("AttributeError", (f"can't set attribute {name}",)))
                self.call(pv.fset, [obj, v], {})
                return
            cur().effects.append(("attr-write", obj.ident, name))
            obj.attrs[name] = v
            return
        if isinstance(obj, ModuleValue):
            cur().effects.append(("global-write", obj.name, name))
            obj.ns[name] = v
            return
        if isinstance(obj, ObjRef):
            return obj.heap.setattr(self, obj, name, v)
        raise Unsupported(f"attribute assignment on {type(obj).__name__}")

    def arr_attr(self, a, name):
        if name == "shape":
            return _Shape(A.shape_of(a))
        if a.dialect == "cs":
            from .libmodels import casadi_model

            return casadi_model.arr_method(self, a, name)
        if name == "ndim" and a.dialect == "np":
            return 1 if a.kind == "a1" else 0
        if name == "ndim" and a.dialect == "abs" and a.kind == "vec":
            # a value of the engine in use: a NumPy array (ndim 1) or a CasADi matrix (no such attribute)
            if cur().decide(T.var("engine_values_are_numpy_arrays", T.BOOL), "ndim of an engine value"):
                return 1
            raise PyRaise(ExcValue("AttributeError", (name,)))
        if name == "ndim" and a.dialect == "abs" and a.kind == "sc":
            # a scalar-like engine value: a (1,) NumPy array, a 0-d NumPy value, a python number or a 1x1 CasADi matrix
            if cur().decide(T.var("engine_values_are_numpy_arrays", T.BOOL), "ndim of an engine value"):
                if cur().decide(T.eq(A.sct_of(a), 1), "scalar-like value is a (1,) array"):
                    return 1
                if cur().decide(T.fresh("scalar_is_numpy_0d", T.BOOL), "0-d value is a NumPy scalar (else a python number)"):
                    return 0
            raise PyRaise(ExcValue("AttributeError", (name,)))
        raise PyRaise(ExcValue("AttributeError", (name,))) if name not in ("size", "ndim") else Unsupported(name)

    def native_method(self, obj, name):
        interp = self
        if isinstance(obj, dict):
            if name == "items":
                return Builtin("dict.items", lambda it, a, k: _DictItems(obj))
            if name == "keys":
                return Builtin("dict.keys", lambda it, a, k: _DictKeys(obj))
            if name == "values":
                return Builtin("dict.values", lambda it, a, k: _DictValues(obj))
            if name == "get":
                def get(it, a, k):
                    key = a[0]
                    default = a[1] if len(a) > 1 else k.get("default")
                    if isinstance(key, ObjRef) and key not in obj:
                        for kk in obj:
                            if isinstance(kk, (ObjRef, LocalObj)) and cur().decide(T.lift(interp.identical(kk, key)), "dict.get alias"):
                                return obj[kk]
                        return default
                    try:
                        return obj.get(key, default)
                    except TypeError:
                        raise PyRaise(ExcValue("TypeError", ("unhashable",)))
                return Builtin("dict.get", get)
            if name == "update":
                def upd(it, a, k):
                    for x in a:
                        if hasattr(x, "pyvc_update_into"):
                            x.pyvc_update_into(it, obj)
                            continue
                        obj.update(x)
                    obj.update(k)
                    cur().effects.append(("dict-write", id(obj), "*"))
                return Builtin("dict.update", upd)
            if name == "pop":
                def pop(it, a, k):
                    cur().effects.append(("dict-del", id(obj), a[0]))
                    if a[0] in obj:
                        return obj.pop(a[0])
                    if len(a) > 1:
                        return a[1]
                    raise PyRaise(ExcValue("KeyError", (a[0],)))
                return Builtin("dict.pop", pop)
            if name == "setdefault":
                def sd(it, a, k):
                    if a[0] not in obj:
                        cur().effects.append(("dict-write", id(obj), a[0]))
                    return obj.setdefault(a[0], a[1] if len(a) > 1 else None)
                return Builtin("dict.setdefault", sd)
            if name == "copy":
                return Builtin("dict.copy", lambda it, a, k: dict(obj))
        if isinstance(obj, list):
            if name == "append":
                return Builtin("list.append", lambda it, a, k: obj.append(a[0]))
            if name == "extend":
                def ext(it, a, k):
                    obj.extend(list(it.iterate(a[0])))
                return Builtin("list.extend", ext)
            if name == "copy":
                return Builtin("list.copy", lambda it, a, k: list(obj))
            if name == "index":
                return Builtin("list.index", lambda it, a, k: obj.index(a[0]))
            if name == "insert":
                return Builtin("list.insert", lambda it, a, k: obj.insert(a[0], a[1]))
            if name == "pop":
                return Builtin("list.pop", lambda it, a, k: obj.pop(*a))
        if isinstance(obj, str):
            if name == "join":
                def join(it, a, k):
                    items = list(it.iterate(a[0]))
                    if all(isinstance(x, str) for x in items):
                        return obj.join(items)
                    return OpaqueStr([obj] + items)
                return Builtin("str.join", join)
            if name in ("format", "lower", "upper", "strip", "startswith", "endswith"):
                return Builtin("str." + name, lambda it, a, k: getattr(obj, name)(*a, **k))
        if isinstance(obj, set):
            if name == "add":
                return Builtin("set.add", lambda it, a, k: obj.add(a[0]))
        raise Unsupported(f"method {name} of {type(obj).__name__}")

    # ------------------------------------------------------------------------------
    # iteration

    def iterate(self, v):
        """python-level iteration over a concrete-spine iterable"""
        if isinstance(v, (list, tuple, str)):
            return iter(list(v))
        if isinstance(v, dict):
            return iter(list(v.keys()))
        if isinstance(v, (set, frozenset)):
            return iter(list(v))
        if isinstance(v, (_DictItems, _DictKeys, _DictValues, _Iter)):
            return iter(v)
        if isinstance(v, range):
            return iter(v)
        if isinstance(v, SSeq):
            if T.is_const(v.n):
                return iter([v.elem(T.const(i, T.INT)) for i in range(T.cval(v.n))])
            raise _SymbolicIterationNeeded(v)
        if hasattr(v, "pyvc_iter"):
            return v.pyvc_iter(self)
        if isinstance(v, LocalObj):
            r = self.call(self.getattr(v, "__iter__"), [], {})
            return self.iterate(r)
        if isinstance(v, StarPack):
            raise Unsupported("iteration over an opaque argument pack")
        if v is None or isinstance(v, (bool, int, float, ClassValue, FuncValue)):
            raise PyRaise(ExcValue("TypeError", (f"object is not iterable",), ("Exception",)))
        raise Unsupported(f"iteration over {type(v).__name__}")

    # ------------------------------------------------------------------------------
    # calls

    def call(self, fn, args, kwargs):
        if isinstance(fn, _Lazy):
            fn = fn.get()
        if isinstance(fn, BoundMethod):
            return self.call(fn.func, [fn.self_obj] + list(args), kwargs)
        if isinstance(fn, StaticMethod):
            return self.call(fn.func, args, kwargs)
        if isinstance(fn, Builtin):
            try:
                return fn.fn(self, list(args), dict(kwargs))
            except (TypeError, AttributeError, KeyError, ValueError, IndexError) as e:
                raise Unsupported(f"{fn.name} applied to values outside its model ({type(e).__name__}: {str(e)[:120]})")
        if isinstance(fn, FuncValue):
            return self.call_function(fn, list(args), dict(kwargs))
        if isinstance(fn, ClassValue):
            return self.instantiate(fn, args, kwargs)
        if isinstance(fn, ExcClass):
            return ExcValue(fn.name, tuple(args), fn.bases)
        if hasattr(fn, "pyvc_call"):
            return fn.pyvc_call(self, list(args), dict(kwargs))
        if isinstance(fn, LocalObj):
            return self.call(self.getattr(fn, "__call__"), args, kwargs)
        if isinstance(fn, _TypingThing):
            return fn
        raise PyRaise(ExcValue("TypeError", (f"{fn!r} is not callable",)))

    def instantiate(self, cls, args, kwargs):
        for c in cls.mro:
            for k, v in c.ns.items():
                pass
        obj = LocalObj(cls)
        init, owner = cls.lookup("__init__")
        if init is not None:
            self.call(BoundMethod(init, obj) if isinstance(init, FuncValue) else init, args, kwargs)
        else:
            for c in cls.mro:
                for eb in getattr(c, "ext_bases", ()):
                    if hasattr(eb, "pyvc_ext_init"):
                        eb.pyvc_ext_init(self, obj, list(args), dict(kwargs))
                        return obj
        return obj

    def contract_for(self, fn):
        q = fn.alias or fn.qualname
        if q in self.inline_only:
            return None
        return self.contracts.get(q)

    def call_function(self, fn, args, kwargs):
        ct = self.contract_for(fn)
        if ct is not None:
            self.calls_made.append(fn.alias or fn.qualname)
            return ct.apply(self, fn, args, kwargs)
        if self.call_depth > self.max_depth:
            raise Unsupported("call depth exceeded (recursion?)")
        env = Env(parent=fn.env, module=fn.module, func=fn)
        env.cls = None
        self.bind_args(fn, args, kwargs, env)
        c = cur()
        c.where.append(f"{fn.qualname}:{fn.node.lineno}")
        self.call_depth += 1
        try:
            if fn.is_generator:
                env.vars["$yield"] = []
                try:
                    self.exec_block(fn.node.body, env)
                except ReturnEx:
                    pass
                if "$yield_value" in env.vars:  # a registered loop rule summarised the generator
                    return env.vars["$yield_value"]
                if env.vars.get("$yield_symbolic"):
                    items = env.vars["$yield"]
                    if len(items) != 1:
                        raise Unsupported("generator with several yield sites inside symbolic loops")
                    n = T.fresh("n_yielded", T.INT)
                    c.axiom(T.le(0, n))
                    return SSeq(n, lambda i, it=items[0]: it, f"generator {fn.name}")
                return _Iter(env.vars["$yield"])
            try:
                self.exec_block(fn.node.body, env)
            except ReturnEx as r:
                return r.value
            return None
        finally:
            self.call_depth -= 1
            c.where.pop()

    def bind_args(self, fn, args, kwargs, env):
        a = fn.node.args
        params = [p.arg for p in a.posonlyargs + a.args]
        defaults = a.defaults
        ndef = len(defaults)
        npos = len(params)
        kwargs = dict(kwargs)
        packs = kwargs.pop("**", [])
        args = list(args)
        if any(isinstance(x, _SymStar) for x in args):
            # one symbolic-length *args: legal only directly into the *args parameter
            if a.vararg is None or not isinstance(args[-1], _SymStar) or len(args) - 1 != npos:
                raise Unsupported("symbolic *args bound to named parameters")
            env.vars[a.vararg.arg] = args[-1].seq
            args = args[:-1]
            sym_star = True
        else:
            sym_star = False
        pack_pos = [x for x in args if isinstance(x, StarPack)]
        if pack_pos:
            # opaque *args forwarded: only legal into a *args parameter at the same position
            k = args.index(pack_pos[0])
            if a.vararg is None or k < npos and k != len(args) - 1:
                raise Unsupported("opaque *args bound to named parameters")
        bound = {}
        i = 0
        for i, v in enumerate(args):
            if isinstance(v, StarPack):
                if i < npos:
                    # unknown number of positionals for named parameters
                    raise Unsupported("opaque *args bound to named parameters")
                bound[a.vararg.arg] = v
                break
            if i < npos:
                bound[params[i]] = v
            else:
                if a.vararg is None:
                    raise PyRaise(ExcValue("TypeError", (f"{fn.name}() takes {npos} positional arguments but {len(args)} were given",)))
                rest = args[i:]
                if any(isinstance(x, StarPack) for x in rest):
                    raise Unsupported("opaque *args mixed into *args")
                bound[a.vararg.arg] = tuple(rest)
                break
        if a.vararg is not None and a.vararg.arg not in bound and not sym_star:
            bound[a.vararg.arg] = ()
        kwonly = [p.arg for p in a.kwonlyargs]
        extra = {}
        for k, v in kwargs.items():
            if k in params and k not in [p.arg for p in a.posonlyargs]:
                if k in bound:
                    raise PyRaise(ExcValue("TypeError", (f"{fn.name}() got multiple values for argument '{k}'",)))
                bound[k] = v
            elif k in kwonly:
                bound[k] = v
            else:
                extra[k] = v
        for j, p in enumerate(params):
            if p not in bound:
                dj = j - (npos - ndef)
                if dj >= 0:
                    bound[p] = self.eval(_def_time_default(defaults[dj]), fn.env)
                else:
                    if packs:
                        raise Unsupported(f"parameter {p} may or may not be supplied by an opaque **kwargs")
                    raise PyRaise(ExcValue("TypeError", (f"{fn.name}() missing required positional argument: '{p}'",)))
        for p, d in zip(a.kwonlyargs, a.kw_defaults):
            if p.arg not in bound:
                if d is None:
                    raise PyRaise(ExcValue("TypeError", (f"{fn.name}() missing keyword-only argument '{p.arg}'",)))
                bound[p.arg] = self.eval(_def_time_default(d), fn.env)
        if a.kwarg is not None:
            if packs:
                sp = StarPack("+".join(p.name for p in packs), extra)
                sp.sources = packs
                bound[a.kwarg.arg] = sp
            else:
                bound[a.kwarg.arg] = extra
        elif extra:
            raise PyRaise(ExcValue("TypeError", (f"{fn.name}() got an unexpected keyword argument '{next(iter(extra))}'",)))
        elif packs:
            raise Unsupported("opaque **kwargs forwarded to a function without **kwargs")
        env.vars.update(bound)

    # ------------------------------------------------------------------------------
    # builtins

    def _make_builtins(self):
        b = {}

        def reg(name):
            def deco(f):
                b[name] = Builtin(name, f)
                return f
            return deco

        @reg("len")
        def _len(it, a, k):
            x = a[0]
            if isinstance(x, (list, tuple, dict, str, set)):
                return len(x)
            if isinstance(x, SSeq):
                return x.n
            if hasattr(x, "pyvc_len"):
                return x.pyvc_len(it)
            if isinstance(x, LocalObj):
                return it.call(it.getattr(x, "__len__"), [], {})
            if isinstance(x, A.SIntList):
                return x.n
            if isinstance(x, (_DictItems, _DictKeys, _DictValues)):
                return len(x.d)
            if isinstance(x, Arr):
                if x.is_scalar:
                    raise PyRaise(ExcValue("TypeError", ("len() of unsized object",)))
                return x.n
            raise Unsupported(f"len of {type(x).__name__}")

        @reg("isinstance")
        def _isinstance(it, a, k):
            return it.isinstance(a[0], a[1])

        @reg("delattr")
        def _delattr(it, a, k):
            return it.delattr(a[0], a[1])

        @reg("hasattr")
        def _hasattr(it, a, k):
            obj, name = a
            if isinstance(obj, Arr):
                if name == "shape":
                    return True
                raise Unsupported(f"hasattr(array, {name})")
            if isinstance(obj, (int, float, T.Term)) or obj is None:
                return False if name in ("shape", "cache_clear") else _unsup(f"hasattr(number, {name})")
            if isinstance(obj, PropertyValue):
                return name in ("attrname", "func")
            if isinstance(obj, FuncValue):
                return name in ("__name__", "__wrapped__") and (name != "__wrapped__" or obj.wrapped is not None)
            if isinstance(obj, LocalObj):
                if name in obj.attrs:
                    return True
                v, owner = obj.cls.lookup(name)
                return owner is not None
            if hasattr(obj, "pyvc_hasattr"):
                return obj.pyvc_hasattr(it, name)
            raise Unsupported(f"hasattr on {type(obj).__name__}")

        @reg("getattr")
        def _getattr(it, a, k):
            try:
                return it.getattr(a[0], a[1])
            except PyRaise as e:
                if len(a) > 2 and e.exc.cls_name == "AttributeError":
                    return a[2]
                raise

        @reg("iter")
        def _iter(it, a, k):
            x = a[0]
            if isinstance(x, _Iter):
                return x
            if isinstance(x, SSeq) and not T.is_const(x.n):
                return _SymIter(x)
            if hasattr(x, "pyvc_iter_obj"):
                return x.pyvc_iter_obj(it)
            try:
                return _Iter(list(it.iterate(x)))
            except _SymbolicIterationNeeded as e:
                return _SymIter(e.seq)

        @reg("next")
        def _next(it, a, k):
            x = a[0]
            if isinstance(x, _Iter):
                try:
                    return next(x)
                except StopIteration:
                    if len(a) > 1:
                        return a[1]
                    raise PyRaise(ExcValue("StopIteration", ()))
            if isinstance(x, _SymIter):
                return x.next(it)
            if hasattr(x, "pyvc_next"):
                return x.pyvc_next(it)
            raise Unsupported(f"next of {type(x).__name__}")

        @reg("any")
        def _any(it, a, k):
            x = a[0]
            if isinstance(x, A.SIntList):  # a list of integers: an entry is truthy iff it is not 0
                lst = x
                x = SSeq(lst.n, lambda i: T.ne(lst.at(i), 0), f"non-zero entries of {lst.name}")
            if isinstance(x, SSeq):
                # any() over link tuples / objects: truthy elements
                probe = x.elem(T.fresh("anyprobe", T.INT))
                tt = it.truth_term(probe)
                if tt is True:
                    return T.lt(0, x.n)
                if tt is False:
                    return False
                # exists i < n. cond(i): a fresh Boolean with a skolem witness one way and the universal
                # fact (instantiated at the generic indices) the other way
                c = cur()
                cond_at = lambda i: T.lift(it.truth_term(x.elem(i)))
                some = T.fresh("any_item", T.BOOL)
                w = T.fresh("w", T.INT)
                c.axiom(T.implies(some, T.and_(T.le(0, w), T.lt(w, x.n), cond_at(w))))
                c.assume_forall(x.n, lambda i: T.implies(cond_at(i), some))
                return some
            if hasattr(x, "pyvc_any"):
                return x.pyvc_any(it)
            r = False
            for v in it.iterate(x):
                t = it.truth_term(v)
                if t is True:
                    return True
                if t is not False:
                    r = t if r is False else T.or_(r, t)
            return r

        @reg("all")
        def _all(it, a, k):
            x = a[0]
            if isinstance(x, SSeq):
                probe = it.truth_term(x.elem(cur().fresh_index(x.n, "all")))
                if probe is True:
                    return True
                if probe is False:
                    return T.eq(x.n, 0)
                c = cur()
                cond_at = lambda i: T.lift(it.truth_term(x.elem(i)))
                every = T.fresh("all_items", T.BOOL)
                w = T.fresh("w", T.INT)
                c.axiom(T.or_(every, T.and_(T.le(0, w), T.lt(w, x.n), T.not_(cond_at(w)))))
                c.assume_forall(x.n, lambda i: T.implies(every, cond_at(i)))
                return every
            r = True
            for v in it.iterate(x):
                t = it.truth_term(v)
                if t is False:
                    return False
                if t is not True:
                    r = t if r is True else T.and_(r, t)
            return r

        @reg("enumerate")
        def _enum(it, a, k):
            x = a[0]
            start = a[1] if len(a) > 1 else k.get("start", 0)
            try:
                return _Iter([(i + start, v) for i, v in enumerate(it.iterate(x))])
            except _SymbolicIterationNeeded as e:
                s = e.seq
                return SSeq(s.n, lambda i: (T.add(i, start), s.elem(i)), f"enumerate({s.desc})")

        @reg("zip")
        def _zip(it, a, k):
            if any(hasattr(x, "deps") for x in a):
                from .libmodels.nx_graph import AbsColl

                return AbsColl(frozenset().union(*[x.deps for x in a if hasattr(x, "deps")]), "zip")
            return _Iter(list(zip(*[list(it.iterate(x)) for x in a])))

        @reg("range")
        def _range(it, a, k):
            if all(isinstance(x, int) for x in a):
                return range(*a)
            if len(a) == 1:
                n = T.lift(a[0], T.INT)
                return SSeq(n, lambda i: i, "range")
            raise Unsupported("symbolic range with start")

        @reg("dict")
        def _dict(it, a, k):
            d = {}
            if a and hasattr(a[0], "deps"):
                from .libmodels.nx_graph import AbsColl

                return AbsColl(a[0].deps, "dict")
            if a:
                src = a[0]
                if hasattr(src, "pyvc_update_into"):
                    src.pyvc_update_into(it, d)
                elif isinstance(src, dict):
                    d.update(src)
                else:
                    for kv in it.iterate(src):
                        kk, vv = it.unpack(kv, 2)
                        d[kk] = vv
            d.update(k)
            return d

        @reg("list")
        def _list(it, a, k):
            if a and hasattr(a[0], "deps"):
                from .libmodels.nx_graph import AbsColl

                return AbsColl(a[0].deps, "list")
            if a and hasattr(a[0], "pyvc_to_list"):
                return a[0].pyvc_to_list(it)
            return list(it.iterate(a[0])) if a else []

        @reg("tuple")
        def _tuple(it, a, k):
            if a and hasattr(a[0], "deps"):
                from .libmodels.nx_graph import AbsColl

                return AbsColl(a[0].deps, "tuple")
            if not a:
                return ()
            try:
                return tuple(it.iterate(a[0]))
            except _SymbolicIterationNeeded as e:
                return e.seq  # a tuple of a symbolic number of items: the sequence itself (immutable)

        @reg("set")
        def _set(it, a, k):
            return set(it.iterate(a[0])) if a else set()

        @reg("sorted")
        def _sorted(it, a, k):
            x = a[0]
            if hasattr(x, "pyvc_sorted"):
                return x.pyvc_sorted(it)
            if isinstance(x, SSeq) and not T.is_const(x.n):
                # sorting a symbolic sequence by an arbitrary key: some permutation of it
                perm = T.uf(f"perm!{next(_permctr)}", [T.INT], T.INT)
                c = cur()

                def elem(i, x=x, perm=perm):
                    i = T.lift(i, T.INT)
                    c.axiom(T.implies(T.and_(T.le(0, i), T.lt(i, x.n)), T.and_(T.le(0, perm(i)), T.lt(perm(i), x.n))))
                    return x.elem(perm(i))

                r = SSeq(x.n, elem, f"sorted({x.desc})")
                r.symtype = x.symtype
                r.permuted_entries_of = x.entries_of
                return r
            items = list(it.iterate(x))
            if len(items) <= 1:
                return items
            keyf = k.get("key")
            if keyf is not None:
                keys = [it.call(keyf, [v], {}) for v in items]
                if all(isinstance(v, (int, float, str)) for v in keys):
                    order = sorted(range(len(items)), key=lambda i: keys[i])
                    if k.get("reverse"):
                        order.reverse()
                    return [items[i] for i in order]
            elif all(isinstance(v, (int, float, str)) for v in items):
                return sorted(items)
            raise Unsupported("sorted of symbolic values")

        @reg("type")
        def _type(it, a, k):
            x = a[0]
            if isinstance(x, LocalObj):
                return x.cls
            if isinstance(x, ObjRef):
                return x.heap.type_of(it, x)
            return _TypingThing(f"type({type(x).__name__})")

        @reg("str")
        def _str(it, a, k):
            return it.to_str(a[0]) if a else ""

        @reg("repr")
        def _repr(it, a, k):
            return it.to_str(a[0])

        @reg("int")
        def _int(it, a, k):
            if isinstance(a[0], (int, float)):
                return int(a[0])
            raise Unsupported("int() of symbolic")

        @reg("float")
        def _float(it, a, k):
            if isinstance(a[0], (int, float)):
                return float(a[0])
            return a[0]

        @reg("bool")
        def _bool(it, a, k):
            return it.truth(a[0]) if a else False

        @reg("abs")
        def _abs(it, a, k):
            x = a[0]
            if isinstance(x, (int, float)):
                return abs(x)
            raise Unsupported("abs of symbolic")

        @reg("min")
        def _min(it, a, k):
            if all(isinstance(x, (int, float)) for x in a):
                return min(a)
            if len(a) == 2 and all(A.is_num(x) for x in a):
                return T.smin(a[0], a[1])
            raise Unsupported("builtin min on these values")

        @reg("max")
        def _max(it, a, k):
            if len(a) == 1 and isinstance(a[0], SSeq) and not T.is_const(a[0].n) and "key" in k:
                # the first item of maximal key: a skolem index with its defining facts
                seq, key = a[0], k["key"]
                c = cur()
                c.oblige("safe", "max() of a non-empty sequence", T.lt(0, seq.n))
                w = T.fresh("argmax", T.INT)
                kv = lambda i: T.to_real(T.lift(A.at(it.call(key, [seq.elem(i)], {}), 0)))
                c.axiom(T.and_(T.le(0, w), T.lt(w, seq.n)))
                c.assume_forall(seq.n, lambda i: T.and_(T.le(kv(i), kv(w)), T.implies(T.lt(i, w), T.lt(kv(i), kv(w)))))
                return seq.elem(w)
            if all(isinstance(x, (int, float)) for x in a):
                return max(a)
            if len(a) == 2 and all(A.is_num(x) for x in a):
                return T.smax(a[0], a[1])
            raise Unsupported("builtin max on these values")

        @reg("sum")
        def _sum(it, a, k):
            items = list(it.iterate(a[0]))
            r = a[1] if len(a) > 1 else 0
            for x in items:
                r = it.binop("+", r, x)
            return r

        @reg("print")
        def _print(it, a, k):
            return None

        @reg("id")
        def _id(it, a, k):
            return id(a[0])

        @reg("callable")
        def _callable(it, a, k):
            return isinstance(a[0], (FuncValue, BoundMethod, Builtin, ClassValue)) or hasattr(a[0], "pyvc_call")

        b["super"] = Builtin("super", lambda it, a, k: _unsup("super with arguments"))

        @reg("staticmethod")
        def _sm(it, a, k):
            return StaticMethod(a[0])

        @reg("property")
        def _prop(it, a, k):
            return _PropertyBuilder(a[0])

        @reg("classmethod")
        def _cm(it, a, k):
            raise Unsupported("classmethod")

        for name in EXC_HIERARCHY:
            b[name] = ExcClass(name, EXC_HIERARCHY[name])
        b["NameError"] = ExcClass("NameError")
        b["object"] = _TypingThing("object")
        b["True"] = True
        b["False"] = False
        b["None"] = None
        b["NotImplemented"] = _TypingThing("NotImplemented")
        b["__name__"] = "__pyvc__"
        return b

    def isinstance(self, obj, cls):
        if isinstance(cls, tuple):
            r = False
            for c in cls:
                x = self.isinstance(obj, c)
                if x is True:
                    return True
                if x is not False:
                    r = x if r is False else T.or_(r, x)
            return r
        if hasattr(cls, "pyvc_instancecheck"):
            return cls.pyvc_instancecheck(self, obj)
        if hasattr(obj, "pyvc_isinstance"):
            return obj.pyvc_isinstance(self, cls)
        if isinstance(cls, ClassValue):
            if isinstance(obj, LocalObj):
                return obj.cls.issubclass(cls)
            if isinstance(obj, ObjRef):
                return obj.heap.isinstance(self, obj, cls)
            return False
        if isinstance(cls, Builtin):
            n = cls.name
            if n == "str":
                return isinstance(obj, (str, OpaqueStr, SymName))
            if n == "int":
                return isinstance(obj, int) and not isinstance(obj, bool) or isinstance(obj, T.Term) and obj.sort == T.INT
            if n == "float":
                return isinstance(obj, float) or isinstance(obj, T.Term) and obj.sort == T.REAL
            if n == "bool":
                return isinstance(obj, bool)
            if n == "dict":
                return isinstance(obj, dict)
            if n == "list":
                return isinstance(obj, list)
            if n == "tuple":
                return isinstance(obj, tuple)
            if n == "set":
                return isinstance(obj, set)
        if isinstance(cls, ExcClass):
            return isinstance(obj, ExcValue) and exc_isinstance(obj, cls.name)
        if isinstance(cls, (LocalObj, ObjRef, PropertyValue, FuncValue, Arr, T.Term, int, float, str, list, dict)) and not isinstance(cls, bool):
            # isinstance(x, <an instance>): python raises TypeError
            raise PyRaise(ExcValue("TypeError", ("isinstance() arg 2 must be a type, a tuple of types, or a union",), ("Exception",)))
        raise Unsupported(f"isinstance against {cls!r}")


def _unsup(msg):
    raise Unsupported(msg)


class _PropertyBuilder(PropertyValue):
    """@property result supporting .setter"""

    def __init__(self, fget, fset=None):
        super().__init__(fget, fset)

    def pyvc_getattr(self, interp, name):
        if name == "setter":
            me = self

            def setter(it, a, k):
                return _PropertyBuilder(me.fget, a[0])

            return Builtin("property.setter", setter)
        if name == "attrname":
            return self.attrname
        raise PyRaise(ExcValue("AttributeError", (name,)))


class _TypingThing:
    """typing / abc artefacts: subscriptable, callable, ignored"""

    def __init__(self, name):
        self.name = name

    def pyvc_getitem(self, interp, idx):
        return self

    def pyvc_call(self, interp, args, kwargs):
        if self.name == "TypeVar":
            return _TypingThing("TypeVar")
        return self

    def __repr__(self):
        return f"<typing {self.name}>"


class _Lazy:
    def __init__(self, interp, modname, name):
        self.interp, self.modname, self.name = interp, modname, name

    def get(self):
        mod = self.interp.modules.get(self.modname) or self.interp.load_module(self.modname)
        if self.name not in mod.ns:
            raise Unsupported(f"lazy import {self.modname}.{self.name} unresolved")
        return mod.ns[self.name]


class _Shape:
    def __init__(self, desc):
        self.desc = desc

    def pyvc_eq(self, other):
        if not isinstance(other, _Shape):
            return False
        return A.shape_equal(self.desc, other.desc)


class _Iter:
    """a python iterator over a concrete list"""

    def __init__(self, items):
        self.items = list(items)
        self.pos = 0

    def __iter__(self):
        return self

    def __next__(self):
        if self.pos >= len(self.items):
            raise StopIteration
        v = self.items[self.pos]
        self.pos += 1
        return v


def _def_time_default(node):
    """python evaluates a default once, when the `def` runs; pyvc evaluates it at the call, which is the same
    only for expressions without state: constants, names, attribute chains, signs, tuples of those"""
    def simple(n):
        if isinstance(n, (ast.Constant, ast.Name)):
            return True
        if isinstance(n, ast.Attribute):
            return simple(n.value)
        if isinstance(n, ast.UnaryOp):
            return simple(n.operand)
        if isinstance(n, ast.Tuple):
            return all(simple(x) for x in n.elts)
        return False

    if not simple(node):
        raise Unsupported("a default argument that is computed (a call, a list/dict display): evaluated once at definition time in python, not modelled")
    return node


class _SymIter:
    """iterator over a symbolic-length sequence; supports next() for the first few items"""

    def __init__(self, seq):
        self.seq = seq
        self.pos = 0

    def next(self, interp):
        c = cur()
        i = T.const(self.pos, T.INT)
        if c.decide(T.lt(i, self.seq.n), "next(iterator) has an item"):
            self.pos += 1
            return self.seq.elem(i)
        raise PyRaise(ExcValue("StopIteration", ()))

    def pyvc_iter(self, interp):
        if self.pos == 0:
            raise _SymbolicIterationNeeded(self.seq)
        s, p = self.seq, self.pos
        raise _SymbolicIterationNeeded(SSeq(T.sub(s.n, p), lambda i: s.elem(T.add(i, p)), s.desc + f"[{p}:]"))

    def pyvc_iter_obj(self, interp):
        return self


class _Unmodelled:
    """a function / class of an external library that the model does not cover"""

    def __init__(self, what):
        self.what = what

    def pyvc_call(self, interp, args, kwargs):
        raise Unsupported(f"{self.what} is not part of the model of {self.what.split('.')[0]}")

    def pyvc_getattr(self, interp, name):
        raise Unsupported(f"{self.what}.{name} is not part of the model of {self.what.split('.')[0]}")


class _SymbolicIterationNeeded(Exception):
    def __init__(self, seq):
        self.seq = seq


class _SymStar:
    """*args given as one symbolic-length sequence"""

    def __init__(self, seq):
        self.seq = seq


class _DictItems:
    def __init__(self, d):
        self.d = d

    def __iter__(self):
        return iter(list(self.d.items()))


class _DictKeys:
    def __init__(self, d):
        self.d = d

    def __iter__(self):
        return iter(list(self.d.keys()))

    def pyvc_contains(self, interp, item):
        return interp.contains(self.d, item)


class _DictValues:
    def __init__(self, d):
        self.d = d

    def __iter__(self):
        return iter(list(self.d.values()))


_BINOPS = {
    ast.Add: "+",
    ast.Sub: "-",
    ast.Mult: "*",
    ast.Div: "/",
    ast.Pow: "**",
    ast.FloorDiv: "//",
    ast.Mod: "%",
}
_CMPOPS = {ast.Lt: "<", ast.LtE: "<=", ast.Gt: ">", ast.GtE: ">=", ast.Eq: "==", ast.NotEq: "!="}
