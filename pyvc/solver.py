"""Solver driver: every obligation is a file, every solver a subprocess with a hard kill.

Portfolio order: /usr/bin/z3 (4.8.12) -> z3-new (5.1.0) -> /usr/bin/cvc5 (1.0.3).
Verdicts: 'unsat' (discharged), 'sat' (failed, with model values), 'unknown'.
"""
from __future__ import annotations

import os
import re
import shutil
import subprocess
import time
from fractions import Fraction

from . import terms as T

Z3_OLD = "/usr/bin/z3"
Z3_NEW = shutil.which("z3-new") or "z3-new"
CVC5 = "/usr/bin/cvc5"

SOLVERS = {
    "z3-4.8": lambda f, t: [Z3_OLD, f"-T:{max(1, int(t))}", "-smt2", f],
    "z3-5.1": lambda f, t: [Z3_NEW, f"-T:{max(1, int(t))}", "-smt2", f],
    "cvc5-1.0": lambda f, t: [CVC5, f"--tlimit={int(t * 1000)}", "--produce-models", f],
}
DEFAULT_ORDER = ("z3-4.8", "z3-5.1", "cvc5-1.0")


def run_solver(name, path, timeout):
    cmd = SOLVERS[name](path, timeout)
    t0 = time.time()
    try:
        p = subprocess.run(cmd, capture_output=True, text=True, timeout=timeout + 5)
        out = p.stdout.strip()
        err = p.stderr.strip()
    except subprocess.TimeoutExpired:
        return "unknown", "hard-timeout", time.time() - t0
    except FileNotFoundError:
        return "unknown", f"{name} not found", time.time() - t0
    first = out.split("\n", 1)[0].strip() if out else ""
    if first in ("sat", "unsat"):
        return first, out, time.time() - t0
    return "unknown", (out + "\n" + err).strip()[:2000], time.time() - t0


def check(script, path, timeout=10.0, order=DEFAULT_ORDER, want_all=False):
    """write script to path, run the portfolio; returns dict(verdict, solver, time, output, tried)"""
    os.makedirs(os.path.dirname(path), exist_ok=True)
    with open(path, "w") as f:
        f.write(script)
    tried = []
    res = None
    for name in order:
        verdict, out, dt = run_solver(name, path, timeout)
        tried.append({"solver": name, "verdict": verdict, "time": round(dt, 3)})
        if verdict in ("sat", "unsat"):
            if res is None:
                res = {"verdict": verdict, "solver": name, "output": out}
            elif res["verdict"] != verdict:
                res = {"verdict": "disagree", "solver": name, "output": out}
            if not want_all:
                break
    if res is None:
        res = {"verdict": "unknown", "solver": None, "output": out if tried else ""}
    res["tried"] = tried
    res["time"] = round(sum(x["time"] for x in tried), 3)
    res["file"] = path
    return res


# ----------------------------------------------------------------------------------
# model parsing ((get-value ...) output)

_tok = re.compile(r"\(|\)|[^\s()]+")


def parse_sexprs(s):
    toks = _tok.findall(s)
    pos = 0

    def rd():
        nonlocal pos
        t = toks[pos]
        pos += 1
        if t == "(":
            lst = []
            while toks[pos] != ")":
                lst.append(rd())
            pos += 1
            return lst
        return t

    out = []
    while pos < len(toks):
        out.append(rd())
    return out


def sexpr_value(e):
    """numeric / boolean value of a value s-expression; None if not understood"""
    if isinstance(e, str):
        if e == "true":
            return True
        if e == "false":
            return False
        e = e.rstrip("?")
        try:
            return Fraction(e)
        except (ValueError, ZeroDivisionError):
            return None
    if not e:
        return None
    h = e[0]
    args = [sexpr_value(x) for x in e[1:]]
    if any(a is None for a in args):
        return None
    try:
        if h == "-":
            return -args[0] if len(args) == 1 else args[0] - args[1]
        if h == "+":
            return sum(args)
        if h == "*":
            r = Fraction(1)
            for a in args:
                r *= a
            return r
        if h == "/":
            return args[0] / args[1]
        if h == "to_real":
            return args[0]
    except ZeroDivisionError:
        return None
    return None


def parse_get_value(output, n):
    """values of the n queried terms from solver output ('sat' line then one s-expr)"""
    body = output.split("\n", 1)[1] if "\n" in output else ""
    try:
        es = parse_sexprs(body)
    except IndexError:
        return None
    if not es or not isinstance(es[0], list):
        return None
    pairs = es[0]
    if len(pairs) != n:
        return None
    return [sexpr_value(p[-1]) if isinstance(p, list) and len(p) >= 2 else None for p in pairs]


# ----------------------------------------------------------------------------------
# fraction normal form: cross-multiplied equalities


def to_frac(t, cache):
    """(num, den) with num/den == t and both free of '/' at the arithmetic top level
    (divisions below uninterpreted function applications are left alone)."""
    r = cache.get(t.uid)
    if r is not None:
        return r
    one = T.const(1, T.REAL)
    op, a = t.op, t.args
    if t.sort != T.REAL:
        raise TypeError("to_frac of non-real")
    if op == "/":
        (an, ad), (bn, bd) = to_frac(a[0], cache), to_frac(a[1], cache)
        r = (T.mul(an, bd), T.mul(ad, bn))
    elif op == "+":
        n, d = to_frac(a[0], cache)
        for x in a[1:]:
            xn, xd = to_frac(x, cache)
            if d is xd:
                n = T.add(n, xn)
            elif xd is one:
                n = T.add(n, T.mul(xn, d))
            elif d is one:
                n, d = T.add(T.mul(n, xd), xn), xd
            else:
                n, d = T.add(T.mul(n, xd), T.mul(xn, d)), T.mul(d, xd)
        r = (n, d)
    elif op == "*":
        n, d = one, one
        for x in a:
            xn, xd = to_frac(x, cache)
            n, d = T.mul(n, xn), T.mul(d, xd)
        r = (n, d)
    elif op == "ite":
        (an, ad), (bn, bd) = to_frac(a[1], cache), to_frac(a[2], cache)
        r = (T.ite(a[0], an, bn), T.ite(a[0], ad, bd))
    else:
        r = (t, one)
    cache[t.uid] = r
    return r


def has_div(t, cache):
    r = cache.get(t.uid)
    if r is not None:
        return r
    if t.op == "/" and not T.is_const(t.args[1]):
        r = True
    elif t.op.startswith("uf:") or t.op in ("const", "var"):
        r = False
    else:
        r = any(has_div(x, cache) for x in t.args if isinstance(x, T.Term))
    cache[t.uid] = r
    return r


def ite_conditions(ts, limit=64):
    """distinct conditions of the ite nodes below the given terms (not below sum bodies)"""
    seen, conds, cseen = set(), [], set()
    stack = list(ts)
    while stack:
        t = stack.pop()
        if t.uid in seen:
            continue
        seen.add(t.uid)
        if t.op == "ite" and t.sort != T.BOOL:
            c = t.args[0]
            if c.uid not in cseen:
                cseen.add(c.uid)
                conds.append(c)
                if len(conds) > limit:
                    return conds
        for x in (t.args[1:] if t.op == "sum" else t.args):
            if isinstance(x, T.Term):
                stack.append(x)
    return conds


MAX_SPLIT = 8
MAX_LEAVES = 48


class SplitBudget(Exception):
    pass


def _factors(t):
    if t.op == "*":
        return list(t.args)
    return [t]


def cancel_common(ad, bd):
    """remove the common factors of two (AC-normal) products"""
    fa, fb = _factors(ad), _factors(bd)
    rest_b = list(fb)
    rest_a = []
    for x in fa:
        for k, y in enumerate(rest_b):
            if x is y:
                del rest_b[k]
                break
        else:
            rest_a.append(x)
    one = T.const(1, T.REAL)

    def prod(xs):
        r = one
        for x in xs:
            r = T.mul(r, x)
        return r

    return prod(rest_a), prod(rest_b)


def split_equation(a, b, dens, fc, dc):
    """a = b over the reals as a list of cases [(case literals, equation)]: one case per
    valuation of the conditions of the ite nodes inside, each cross-multiplied with the common
    factors of the two denominators cancelled.  The conjunction of (case => equation) is
    equivalent to a = b wherever all denominators are non-zero."""
    out = []

    def leaf(a, b):
        if a is b:
            return T.TRUE
        if has_div(a, dc) or has_div(b, dc):
            (an, ad), (bn, bd) = to_frac(a, fc), to_frac(b, fc)
            for d in (ad, bd):
                if not T.is_const(d):
                    dens.append(d)
            ra, rb = cancel_common(ad, bd)
            return T.eq(T.mul(an, rb), T.mul(bn, ra))
        return T.eq(a, b)

    def go(a, b, lits, depth):
        if a is b:
            return
        if len(out) > MAX_LEAVES:
            raise SplitBudget()
        conds = ite_conditions([a, b], limit=MAX_SPLIT + 1)
        if not conds or depth >= MAX_SPLIT or len(conds) > MAX_SPLIT:
            e = leaf(a, b)
            if e is not T.TRUE:
                out.append((tuple(lits), e))
            return
        c = conds[0]
        go(T.substitute(a, {c: T.TRUE}), T.substitute(b, {c: T.TRUE}), lits + [c], depth + 1)
        go(T.substitute(a, {c: T.FALSE}), T.substitute(b, {c: T.FALSE}), lits + [T.not_(c)], depth + 1)

    go(a, b, [], 0)
    return out


def cross_multiply(goal):
    """split a goal into sub-goals [(extra hypotheses, goal)] whose conjunction is equivalent to
    it wherever the denominators (returned) are non-zero: conjunctions are separated, Real
    equalities are split by cases on their ite conditions and cross-multiplied."""
    fc, dc, dens = {}, {}, []
    subs = []

    def go(t, lits):
        if t.op == "and":
            for x in t.args:
                go(x, lits)
            return
        if t.op == "=" and t.args[0].sort == T.REAL:
            for cl, e in split_equation(t.args[0], t.args[1], dens, fc, dc):
                subs.append((tuple(lits) + cl, e))
            return
        if t.op == "or" and len(t.args) == 2 and any(x.op == "=" and x.args[0].sort == T.REAL for x in t.args):
            # implication  c => (a = b)
            eqs = [x for x in t.args if x.op == "=" and x.args[0].sort == T.REAL]
            others = [x for x in t.args if x is not eqs[0]]
            go(eqs[0], lits + [T.not_(o) for o in others])
            return
        if t is not T.TRUE:
            subs.append((tuple(lits), t))

    go(goal, [])
    return subs, dens
