"""Per-path execution context: path condition, axiom instances, obligations, decisions."""
from __future__ import annotations

import itertools

from . import terms as T
from .values import Unsupported


class Infeasible(Exception):
    """the current path is infeasible (both outcomes of a decision refuted)"""


class Obligation:
    __slots__ = ("kind", "label", "goal", "nhyps", "where", "assume_domains", "meta", "path")

    def __init__(self, kind, label, goal, nhyps, where, assume_domains=True, meta=None):
        self.kind, self.label, self.goal, self.nhyps, self.where = kind, label, goal, nhyps, where
        self.assume_domains = assume_domains
        self.meta = meta or {}
        self.path = None


CUR = None  # the context of the path being executed (closures add axiom instances to it)


def cur():
    if CUR is None:
        raise RuntimeError("no active pyvc context")
    return CUR


class Ctx:
    def __init__(self, decisions=(), oracle=None, check_defined=False, name=""):
        self.name = name
        self.hyps: list = []  # path condition and assumed facts, in order
        self.axioms: dict = {}  # uid -> term; instances of assumed universal facts
        self.obligations: list = []
        self.decisions = list(decisions)
        self.dpos = 0
        self.pending: list = []  # alternative decision prefixes discovered on this path
        self.oracle = oracle  # feasibility oracle: (hyps, cond) -> True/False/None
        self.check_defined = check_defined
        self.where = []  # stack of "func:line"
        self.effects: list = []  # (kind, detail) e.g. heap writes, global reads
        self.notes: list = []
        self.decision_log: list = []  # (where, cond repr, outcome)
        self._idx = itertools.count()
        self.forall_facts: list = []
        self.index_guards: dict = {}
        self.events: list = []
        self.reach: list = []  # (label, nhyps, condition): must be satisfiable (vacuity guard)

    # facts ------------------------------------------------------------------------
    def assume(self, t):
        t = T.lift(t)
        if t is T.TRUE:
            return
        if t.op == "and":
            for x in t.args:
                self.assume(x)
            return
        self.hyps.append(t)

    def axiom(self, t):
        t = T.lift(t)
        if t is T.TRUE:
            return
        if t.op == "and":
            for x in t.args:
                self.axiom(x)
            return
        self.axioms[t.uid] = t

    def fresh_index(self, n, prefix="i"):
        """a fresh generic index of a sequence of length n.  It lies in [0, n) whenever the sequence
        is non-empty; nothing is assumed when it is empty (so no obligation becomes vacuous), and
        every obligation that mentions the index is proved under the guard n > 0."""
        n = T.lift(n, T.INT)
        i = T.fresh(prefix, T.INT)
        nonempty = T.lt(0, n)
        self.axiom(T.implies(nonempty, T.and_(T.le(0, i), T.lt(i, n))))
        if nonempty is not T.TRUE:
            self.index_guards[i] = nonempty
        for m, cond_at in self.forall_facts:
            self.axiom(T.implies(T.and_(T.le(0, i), T.lt(i, m)), cond_at(i)))
        return i

    def guard_of(self, goal):
        """conjunction of the non-emptiness guards of the generic indices occurring in goal"""
        if not self.index_guards:
            return T.TRUE
        gs = [g for v, g in self.index_guards.items() if any(x is v for x in T.subterms([goal]))]
        return T.and_(*gs) if gs else T.TRUE

    def assume_forall(self, n, cond_at):
        """assumed fact  forall 0 <= i < n. cond_at(i): instantiated at 0, n-1 and at every
        generic index created afterwards"""
        n = T.lift(n, T.INT)
        self.forall_facts.append((n, cond_at))
        self.axiom(T.implies(T.lt(0, n), cond_at(T.const(0, T.INT))))
        self.axiom(T.implies(T.lt(0, n), cond_at(T.sub(n, 1))))

    def loc(self):
        return self.where[-1] if self.where else "?"

    # obligations ------------------------------------------------------------------
    def oblige(self, kind, label, goal, assume_after=True, assume_domains=True, meta=None):
        goal = T.lift(goal)
        if goal is not T.TRUE and self.index_guards:
            g = self.guard_of(goal)
            if g is not T.TRUE:
                goal = T.implies(g, goal)
        ob = Obligation(kind, label, goal, len(self.hyps), self.loc(), assume_domains, meta)
        self.obligations.append(ob)
        if assume_after and goal is not T.TRUE:
            self.assume(goal)

    def reachable(self, label, cond):
        """vacuity guard: obligations were proved under cond - record that cond must be satisfiable here"""
        self.reach.append((label, len(self.hyps), T.lift(cond)))

    # decisions --------------------------------------------------------------------
    def decide(self, cond, why=""):
        """turn a symbolic Boolean into a python-level decision on this path"""
        if isinstance(cond, bool):
            return cond
        cond = T.lift(cond)
        if cond is T.TRUE:
            return True
        if cond is T.FALSE:
            return False
        if self.dpos < len(self.decisions):
            d = self.decisions[self.dpos]
        else:
            ft = self._feasible(cond)
            ff = self._feasible(T.not_(cond))
            if ft and ff:
                self.pending.append(self.decisions[: self.dpos] + [False])
                d = True
            elif ft:
                d = True
            elif ff:
                d = False
            else:
                raise Infeasible()
            self.decisions.append(d)
        self.dpos += 1
        self.decision_log.append((self.loc(), why, d))
        self.assume(cond if d else T.not_(cond))
        return d

    def _feasible(self, cond):
        if cond is T.TRUE:
            return True
        if cond is T.FALSE:
            return False
        nc = T.not_(cond)
        for h in self.hyps:
            if h is cond:
                return True
            if h is nc:
                return False
        if self.oracle is None:
            return True
        r = self.oracle(list(self.axioms.values()) + self.hyps, cond)
        return True if r is None else r

    def unsupported(self, msg):
        raise Unsupported(f"{self.loc()}: {msg}")
