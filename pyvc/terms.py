"""Term language of pyvc: hash-consed first-order terms over Real / Int / Bool / Ref,
light simplification at construction, SMT-LIB 2 printing.

Pure standard library, so the prover runs under any python3 (>= 3.9).
"""
from __future__ import annotations

import itertools
from fractions import Fraction

REAL, INT, BOOL, REF = "Real", "Int", "Bool", "Ref"

_table: dict = {}
_ids = itertools.count()


class Term:
    __slots__ = ("op", "args", "sort", "uid", "__weakref__")

    def __new__(cls, op, args, sort):
        key = (op, args, sort)
        t = _table.get(key)
        if t is None:
            t = object.__new__(cls)
            t.op, t.args, t.sort = op, args, sort
            t.uid = next(_ids)
            _table[key] = t
        return t

    def __hash__(self):
        return self.uid

    def __eq__(self, other):  # structural identity (terms are interned)
        return self is other

    def __ne__(self, other):
        return self is not other

    def __repr__(self):
        s = to_smt(self)
        return s if len(s) < 400 else s[:400] + "..."

    def __bool__(self):
        if self.op == "const" and self.sort == BOOL:
            return bool(self.args[0])
        raise TypeError(f"truth value of a symbolic term requested: {self!r}")

    # arithmetic sugar (used by the spec functions) ---------------------------------
    def __add__(self, o):
        return add(self, o)

    def __radd__(self, o):
        return add(o, self)

    def __sub__(self, o):
        return sub(self, o)

    def __rsub__(self, o):
        return sub(o, self)

    def __mul__(self, o):
        return mul(self, o)

    def __rmul__(self, o):
        return mul(o, self)

    def __truediv__(self, o):
        return div(self, o)

    def __rtruediv__(self, o):
        return div(o, self)

    def __neg__(self):
        return neg(self)

    def __pos__(self):
        return self

    def __lt__(self, o):
        return lt(self, o)

    def __le__(self, o):
        return le(self, o)

    def __gt__(self, o):
        return lt(o, self)

    def __ge__(self, o):
        return le(o, self)

    def __pow__(self, o):
        return power(self, o)

    def __rpow__(self, o):
        return power(o, self)


# ----------------------------------------------------------------------------------
# constructors


def is_term(x):
    return isinstance(x, Term)


def const(v, sort=None):
    if isinstance(v, Term):
        return v
    if isinstance(v, bool):
        return Term("const", (bool(v),), BOOL)
    if sort is None:
        sort = INT if isinstance(v, int) else REAL
    if sort == INT:
        if isinstance(v, float):
            assert v == int(v)
        return Term("const", (int(v),), INT)
    if isinstance(v, float):
        if v != v or v in (float("inf"), float("-inf")):
            raise ValueError("non-finite constant")
        v = Fraction(repr(v))
    return Term("const", (Fraction(v),), REAL)


TRUE = Term("const", (True,), BOOL)
FALSE = Term("const", (False,), BOOL)


def var(name, sort):
    return Term("var", (name,), sort)


_fresh = itertools.count()


def fresh(prefix, sort):
    return var(f"{prefix}!{next(_fresh)}", sort)


def is_const(t):
    return isinstance(t, Term) and t.op == "const"


def cval(t):
    return t.args[0]


def lift(x, sort=None):
    """Python number/bool or Term -> Term."""
    if isinstance(x, Term):
        return x
    if isinstance(x, (bool, int, float, Fraction)):
        return const(x, sort)
    raise TypeError(f"cannot lift {x!r} to a term")


def to_real(t):
    t = lift(t)
    if t.sort == REAL:
        return t
    if t.sort != INT:
        raise TypeError(f"to_real of {t.sort}")
    if is_const(t):
        return const(Fraction(cval(t)), REAL)
    return Term("to_real", (t,), REAL)


def _num2(a, b):
    """coerce two numeric operands to a common sort"""
    if not isinstance(a, Term):
        if isinstance(b, Term):
            if b.sort == REAL or isinstance(a, (float, Fraction)):
                a = const(a, REAL)
            else:
                a = const(a, INT)
        else:
            a = const(a)
    if not isinstance(b, Term):
        if a.sort == REAL or isinstance(b, (float, Fraction)):
            b = const(b, REAL)
        else:
            b = const(b, INT)
    if a.sort == b.sort:
        return a, b
    if a.sort == INT and b.sort == REAL:
        return to_real(a), b
    if a.sort == REAL and b.sort == INT:
        return a, to_real(b)
    raise TypeError(f"numeric operands expected, got {a.sort}, {b.sort}")


def _flat_add(a, b):
    terms, k = [], 0
    for x in (a, b):
        if x.op == "+":
            for y in x.args:
                if is_const(y):
                    k += cval(y)
                else:
                    terms.append(y)
        elif is_const(x):
            k += cval(x)
        else:
            terms.append(x)
    return terms, k


def add(a, b):
    """n-ary, flattened, constants folded, arguments in a canonical order (AC normal form)"""
    a, b = _num2(a, b)
    sort = a.sort
    terms, k = _flat_add(a, b)
    # cancel x + (-1)*x pairs and merge equal monomials with constant coefficients
    coef = {}
    order = []
    for t in terms:
        c, body = _split_coeff(t)
        if body.uid not in coef:
            coef[body.uid] = [0, body]
            order.append(body.uid)
        coef[body.uid][0] += c
    out = []
    for u in order:
        c, body = coef[u]
        if c == 0:
            continue
        out.append(body if c == 1 else _with_coeff(c, body))
    out.sort(key=lambda t: t.uid)
    if k != 0:
        out.append(const(k, sort))
    if not out:
        return const(0, sort)
    if len(out) == 1:
        return out[0]
    return Term("+", tuple(out), sort)


def _split_coeff(t):
    """t = c * body with c a python constant"""
    if t.op == "*" and is_const(t.args[0]):
        rest = t.args[1:]
        body = rest[0] if len(rest) == 1 else Term("*", rest, t.sort)
        return cval(t.args[0]), body
    return 1, t


def _with_coeff(c, body):
    if body.op == "*":
        return Term("*", (const(c, body.sort),) + body.args, body.sort)
    return Term("*", (const(c, body.sort), body), body.sort)


def sub(a, b):
    a, b = _num2(a, b)
    return add(a, neg(b))


def neg(a):
    a = lift(a)
    if is_const(a):
        return const(-cval(a), a.sort)
    return mul(const(-1, a.sort), a)


def mul(a, b):
    """n-ary, flattened, one leading constant coefficient, canonical argument order; fractions
    are pulled up: (x/y)*z = (x*z)/y"""
    a, b = _num2(a, b)
    sort = a.sort
    if a.op == "/":
        return div(mul(a.args[0], b), a.args[1])
    if b.op == "/":
        return div(mul(a, b.args[0]), b.args[1])
    factors, k = [], 1
    for x in (a, b):
        if x.op == "*":
            for y in x.args:
                if is_const(y):
                    k *= cval(y)
                else:
                    factors.append(y)
        elif is_const(x):
            k *= cval(x)
        else:
            factors.append(x)
    if k == 0:
        return const(0, sort)
    if not factors:
        return const(k, sort)
    # a constant times a sum is distributed (keeps  -(a+b)  and  (-a)+(-b)  identical)
    if k != 1 and len(factors) == 1 and factors[0].op == "+":
        r = const(0, sort)
        for y in factors[0].args:
            r = add(r, mul(const(k, sort), y))
        return r
    factors.sort(key=lambda t: t.uid)
    if k != 1:
        factors = [const(k, sort)] + factors
    if len(factors) == 1:
        return factors[0]
    return Term("*", tuple(factors), sort)


def div(a, b):
    """single fraction normal form: (x/y)/z = x/(y*z), x/(y/z) = (x*z)/y; constant divisors
    become coefficients.  x/x is NOT simplified (it is undefined at 0)."""
    a, b = _num2(a, b)
    a, b = to_real(a), to_real(b)
    if is_const(b) and cval(b) != 0:
        return mul(const(1 / Fraction(cval(b)), REAL), a)
    if a.op == "/":
        return div(a.args[0], mul(a.args[1], b))
    if b.op == "/":
        return div(mul(a, b.args[1]), b.args[0])
    # pull a constant coefficient out of numerator and denominator
    ka, na = _split_coeff(a)
    kb, nb = _split_coeff(b)
    if is_const(a):
        ka, na = cval(a), const(1, REAL)
    if ka == 0:
        return Term("/", (const(0, REAL), b), REAL) if not is_const(b) else const(0, REAL)
    k = Fraction(ka) / Fraction(kb)
    core = Term("/", (na, nb), REAL)
    if k == 1:
        return core
    return Term("*", (const(k, REAL), core), REAL)


def ite(c, a, b):
    c = lift(c)
    if c is TRUE:
        return a
    if c is FALSE:
        return b
    if isinstance(a, Term) and a.sort == BOOL or isinstance(b, Term) and b.sort == BOOL:
        a, b = lift(a), lift(b)
    else:
        a, b = _num2(a, b) if not (isinstance(a, Term) and a.sort == REF) else (a, b)
    if a is b:
        return a
    return Term("ite", (c, a, b), a.sort)


def lt(a, b):
    a, b = _num2(a, b)
    if is_const(a) and is_const(b):
        return const(cval(a) < cval(b))
    if a is b:
        return FALSE
    return Term("<", (a, b), BOOL)


def le(a, b):
    a, b = _num2(a, b)
    if is_const(a) and is_const(b):
        return const(cval(a) <= cval(b))
    if a is b:
        return TRUE
    return Term("<=", (a, b), BOOL)


def gt(a, b):
    return lt(b, a)


def ge(a, b):
    return le(b, a)


def eq(a, b):
    if isinstance(a, Term) and a.sort in (REF, BOOL) or isinstance(b, Term) and b.sort in (REF, BOOL):
        a, b = lift(a), lift(b)
        if a.sort != b.sort:
            raise TypeError(f"eq of {a.sort} and {b.sort}")
    else:
        a, b = _num2(a, b)
    if a is b:
        return TRUE
    if is_const(a) and is_const(b):
        return const(cval(a) == cval(b))
    if a.sort == BOOL:
        if a is TRUE:
            return b
        if b is TRUE:
            return a
        if a is FALSE:
            return not_(b)
        if b is FALSE:
            return not_(a)
    if a.uid > b.uid:
        a, b = b, a
    return Term("=", (a, b), BOOL)


def ne(a, b):
    return not_(eq(a, b))


def not_(a):
    a = lift(a)
    if a is TRUE:
        return FALSE
    if a is FALSE:
        return TRUE
    if a.op == "not":
        return a.args[0]
    return Term("not", (a,), BOOL)


def and_(*xs):
    out = []
    for x in xs:
        x = lift(x)
        if x is TRUE:
            continue
        if x is FALSE:
            return FALSE
        if x.op == "and":
            out.extend(x.args)
        else:
            out.append(x)
    seen, res = set(), []
    for x in out:
        if x.uid not in seen:
            seen.add(x.uid)
            res.append(x)
    if not res:
        return TRUE
    if len(res) == 1:
        return res[0]
    return Term("and", tuple(res), BOOL)


def or_(*xs):
    out = []
    for x in xs:
        x = lift(x)
        if x is FALSE:
            continue
        if x is TRUE:
            return TRUE
        if x.op == "or":
            out.extend(x.args)
        else:
            out.append(x)
    seen, res = set(), []
    for x in out:
        if x.uid not in seen:
            seen.add(x.uid)
            res.append(x)
    if not res:
        return FALSE
    if len(res) == 1:
        return res[0]
    return Term("or", tuple(res), BOOL)


def implies(a, b):
    return or_(not_(a), b)


def iff(a, b):
    return eq(lift(a), lift(b))


def smin(a, b):
    """min with numpy/casadi tie semantics irrelevant over the reals"""
    a, b = _num2(a, b)
    if is_const(a) and is_const(b):
        return a if cval(a) <= cval(b) else b
    return ite(le(a, b), a, b)


def smax(a, b):
    a, b = _num2(a, b)
    if is_const(a) and is_const(b):
        return a if cval(a) >= cval(b) else b
    return ite(le(b, a), a, b)


_uf_sigs: dict = {}


def uf(name, arg_sorts, res_sort):
    """declare (idempotently) and return an applicator for an uninterpreted function"""
    sig = (tuple(arg_sorts), res_sort)
    old = _uf_sigs.get(name)
    if old is not None and old != sig:
        raise TypeError(f"uf {name} redeclared with another signature: {old} vs {sig}")
    _uf_sigs[name] = sig

    def app(*args):
        assert len(args) == len(arg_sorts), (name, args)
        cargs = []
        for a, s in zip(args, arg_sorts):
            a = lift(a, s if s in (INT, REAL) else None)
            if s == REAL and a.sort == INT:
                a = to_real(a)
            if a.sort != s:
                raise TypeError(f"uf {name}: argument sort {a.sort}, expected {s}")
            cargs.append(a)
        return Term("uf:" + name, tuple(cargs), res_sort)

    return app


uexp = uf("uexp", [REAL], REAL)
ulog = uf("ulog", [REAL], REAL)
upow = uf("upow", [REAL, REAL], REAL)


def exp(x):
    x = to_real(lift(x))
    if is_const(x) and cval(x) == 0:
        return const(1, REAL)
    return uexp(x)


def log(x):
    x = to_real(lift(x))
    if is_const(x) and cval(x) == 1:
        return const(0, REAL)
    return ulog(x)


def power(x, y):
    x, y = to_real(lift(x)), to_real(lift(y))
    if is_const(y):
        yv = cval(y)
        if yv == 1:
            return x
        if yv == 2:
            return mul(x, x)
        if yv == 0:
            return const(1, REAL)
    return upow(x, y)


# ----------------------------------------------------------------------------------
# traversal helpers


def subterms(ts):
    """all distinct subterms of the given terms, children before parents"""
    seen, order = set(), []
    stack = [(t, False) for t in ts]
    while stack:
        t, done = stack.pop()
        if done:
            order.append(t)
            continue
        if t.uid in seen:
            continue
        seen.add(t.uid)
        stack.append((t, True))
        args = t.args[1:] if t.op == "sum" else t.args
        for a in args:
            if isinstance(a, Term) and a.uid not in seen:
                stack.append((a, False))
    return order


def substitute(t, mapping, _cache=None):
    """simultaneous substitution {Term: Term}; rebuilds through the smart constructors"""
    cache = {} if _cache is None else _cache
    protect_bodies = any(k.op == "var" and k.args[0] == "%i" for k in mapping)

    def go(t):
        r = mapping.get(t)
        if r is not None:
            return r
        r = cache.get(t.uid)
        if r is not None:
            return r
        if t.op in ("const", "var"):
            r = t
        elif t.op == "sum" and protect_bodies:
            # the bound variable of a sum body is not free: leave bodies alone when it is substituted
            n2 = go(t.args[1])
            r = t if n2 is t.args[1] else Term("sum", (t.args[0], n2), t.sort)
        else:
            args = tuple(go(a) if isinstance(a, Term) else a for a in t.args)
            if all(x is y for x, y in zip(args, t.args)):
                r = t
            else:
                r = rebuild(t.op, args, t.sort)
        cache[t.uid] = r
        return r

    return go(t)


def rebuild(op, args, sort):
    if op == "+":
        r = args[0]
        for x in args[1:]:
            r = add(r, x)
        return r
    if op == "-":
        return sub(*args)
    if op == "*":
        r = args[0]
        for x in args[1:]:
            r = mul(r, x)
        return r
    if op == "/":
        return div(*args)
    if op == "neg":
        return neg(*args)
    if op == "ite":
        return ite(*args)
    if op == "<":
        return lt(*args)
    if op == "<=":
        return le(*args)
    if op == "=":
        return eq(*args)
    if op == "not":
        return not_(*args)
    if op == "and":
        return and_(*args)
    if op == "or":
        return or_(*args)
    if op == "to_real":
        return to_real(*args)
    return Term(op, args, sort)


# ----------------------------------------------------------------------------------
# SMT-LIB printing


def _sym(name):
    ok = all(c.isalnum() or c in "_.!$%&*+-/<=>?@^~" for c in name) and not name[0].isdigit()
    return name if ok else "|" + name.replace("|", "_") + "|"


def _const_smt(t):
    v = cval(t)
    if t.sort == BOOL:
        return "true" if v else "false"
    if t.sort == INT:
        return str(v) if v >= 0 else f"(- {-v})"
    v = Fraction(v)
    n, d = v.numerator, v.denominator
    s = f"{abs(n)}.0" if d == 1 else f"(/ {abs(n)}.0 {d}.0)"
    return s if n >= 0 else f"(- {s})"


def to_smt(t, names=None):
    """S-expression of one term; `names` maps uid -> already defined name (sharing)"""
    out = []

    def go(t):
        if names is not None and t.uid in names:
            out.append(names[t.uid])
            return
        if t.op == "const":
            out.append(_const_smt(t))
        elif t.op == "var":
            out.append(_sym(t.args[0]))
        else:
            if t.op.startswith("uf:"):
                head = _sym(t.op[3:])
                if not t.args:
                    out.append(head)
                    return
            elif t.op == "sum":
                out.append(f"(psum!{t.args[0].uid} ")
                go(t.args[1])
                out.append(")")
                return
            elif t.op == "neg":
                head = "-"
            elif t.op == "=" and t.args[0].sort == BOOL:
                head = "="
            else:
                head = {"and": "and", "or": "or", "not": "not", "ite": "ite", "to_real": "to_real"}.get(t.op, t.op)
            out.append("(" + head)
            for a in t.args:
                out.append(" ")
                go(a)
            out.append(")")

    go(t)
    return "".join(out)


def smt_script(hyps, goal, extra_decls=(), get_values=(), logic=None, produce_models=True):
    """SMT-LIB script checking  hyps |= goal  (asserts hyps and (not goal)).
    Shared subterms are named with define-fun to keep the file linear in the DAG size."""
    roots = list(hyps) + ([goal] if goal is not None else []) + list(get_values)
    order = subterms(roots)
    refs: dict = {}
    for t in order:
        for a in (t.args[1:] if t.op == "sum" else t.args):
            if isinstance(a, Term):
                refs[a.uid] = refs.get(a.uid, 0) + 1
    lines = []
    if produce_models:
        lines.append("(set-option :produce-models true)")
    if logic:
        lines.append(f"(set-logic {logic})")
    sorts_used = {t.sort for t in order}
    if REF in sorts_used:
        lines.append("(declare-sort Ref 0)")
    ufs = {}
    for t in order:
        if t.op == "var":
            lines.append(f"(declare-fun {_sym(t.args[0])} () {t.sort})")
        elif t.op.startswith("uf:"):
            ufs[t.op[3:]] = _uf_sigs[t.op[3:]]
    for name, (asorts, rsort) in sorted(ufs.items()):
        lines.append(f"(declare-fun {_sym(name)} ({' '.join(asorts)}) {rsort})")
    for b in sorted({t.args[0].uid for t in order if t.op == "sum"}):
        lines.append(f"(declare-fun psum!{b} (Int) Real)")
    lines.extend(extra_decls)
    names: dict = {}
    for t in order:
        if t.op in ("const", "var"):
            continue
        if refs.get(t.uid, 0) > 1 and (len(t.args) > 0):
            nm = f"$t{t.uid}"
            body = to_smt_shallow(t, names)
            lines.append(f"(define-fun {nm} () {t.sort} {body})")
            names[t.uid] = nm
    for h in hyps:
        lines.append(f"(assert {to_smt(h, names)})")
    if goal is not None:
        lines.append(f"(assert (not {to_smt(goal, names)}))")
    lines.append("(check-sat)")
    if get_values:
        lines.append("(get-value (" + " ".join(to_smt(v, names) for v in get_values) + "))")
    return "\n".join(lines) + "\n"


def to_smt_shallow(t, names):
    """print t using names for its (shared) descendants but not for t itself"""
    saved = names.pop(t.uid, None)
    try:
        return to_smt(t, names)
    finally:
        if saved is not None:
            names[t.uid] = saved


# ----------------------------------------------------------------------------------
# concrete evaluation (used by the differential cross-check and model replay)


def evaluate(t, env, ufs=None):
    """evaluate under env: {var name: python value}; ufs: {name: python callable}"""
    import math

    cache = {}

    def go(t):
        r = cache.get(t.uid)
        if r is not None or t.uid in cache:
            return r
        op, a = t.op, t.args
        if op == "const":
            r = a[0]
        elif op == "var":
            r = env[a[0]]
        elif op == "+":
            r = go(a[0])
            for x in a[1:]:
                r = r + go(x)
        elif op == "-":
            r = go(a[0]) - go(a[1])
        elif op == "*":
            r = go(a[0])
            for x in a[1:]:
                r = r * go(x)
        elif op == "/":
            r = go(a[0]) / go(a[1])
        elif op == "neg":
            r = -go(a[0])
        elif op == "ite":
            r = go(a[1]) if go(a[0]) else go(a[2])
        elif op == "<":
            r = go(a[0]) < go(a[1])
        elif op == "<=":
            r = go(a[0]) <= go(a[1])
        elif op == "=":
            r = go(a[0]) == go(a[1])
        elif op == "not":
            r = not go(a[0])
        elif op == "and":
            r = all(go(x) for x in a)
        elif op == "or":
            r = any(go(x) for x in a)
        elif op == "to_real":
            r = go(a[0])
        elif op == "uf:uexp":
            r = math.exp(go(a[0]))
        elif op == "uf:ulog":
            r = math.log(go(a[0]))
        elif op == "uf:upow":
            r = math.pow(go(a[0]), go(a[1]))
        elif op.startswith("uf:"):
            r = ufs[op[3:]](*[go(x) for x in a])
        else:
            raise ValueError(op)
        cache[t.uid] = r
        return r

    return go(t)
