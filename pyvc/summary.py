"""Summaries of a code fragment: all feasible paths of a re-runnable fragment, explored locally.

`summarise(run_once)` executes `run_once()` once per feasible path from the *current* state of
the enclosing context (its path condition and axioms are inherited, nothing is added to it) and
returns, per path, the path condition accumulated by the fragment and its outcome.  The
obligations the fragment records on a path are re-recorded on the enclosing context under that
path's condition, so nothing the fragment must satisfy is lost.

The fragment must be re-runnable: the caller gives every run fresh recorder objects for whatever
the fragment mutates."""
from __future__ import annotations

from . import ctx as ctxmod
from . import terms as T
from .ctx import Ctx, Infeasible, Obligation


class Path:
    __slots__ = ("pc", "kind", "value")

    def __init__(self, pc, kind, value):
        self.pc, self.kind, self.value = pc, kind, value  # kind: "ok" | "raise"

    @property
    def cond(self):
        return T.and_(*self.pc) if self.pc else T.TRUE


def summarise(run_once, max_paths=64, assuming=()):
    """assuming: extra facts the fragment runs under (part of the premise of its obligations,
    not of the returned path conditions)"""
    from .interp import PyRaise
    from .values import Unsupported

    c = ctxmod.cur()
    base = len(c.hyps)
    work = [[]]
    paths = []
    while work:
        dec = work.pop()
        if len(paths) > max_paths:
            raise Unsupported(f"fragment has more than {max_paths} paths")
        sub = Ctx(dec, c.oracle, check_defined=c.check_defined, name=c.name)
        sub.hyps = list(c.hyps) + list(assuming)
        sub.axioms = c.axioms  # shared: instances of assumed universal facts
        sub.where = list(c.where)
        sub.index_guards = c.index_guards
        sub.forall_facts = c.forall_facts
        sub.events = c.events
        sub.effects = c.effects
        sub._idx = c._idx
        sub.reach = []
        for k, v in c.__dict__.items():  # task-level attachments (e.g. scan info)
            if k not in sub.__dict__:
                sub.__dict__[k] = v
        ctxmod.CUR = sub
        outcome = None
        try:
            try:
                outcome = ("ok", run_once())
            except PyRaise as e:
                outcome = ("raise", e.exc)
        except Infeasible:
            outcome = None
        finally:
            ctxmod.CUR = c
        work.extend(sub.pending)
        if outcome is None:
            continue
        pc = sub.hyps[base + len(assuming):]
        for label, nh, cond in sub.reach:  # reachability guards of the fragment, under its path
            c.reach.append((label, base, T.and_(*(sub.hyps[base:nh] + [cond]))))
        for ob in sub.obligations:
            prem = sub.hyps[base:ob.nhyps]
            goal = T.implies(T.and_(*prem), ob.goal) if prem else ob.goal
            o2 = Obligation(ob.kind, ob.label, goal, base, ob.where, ob.assume_domains, ob.meta)
            c.obligations.append(o2)
        paths.append(Path(pc, outcome[0], outcome[1]))
    return paths
