"""functools / itertools / importlib as far as the repository uses them."""
from __future__ import annotations

from .. import terms as T
from ..values import Builtin, FuncValue, ModuleValue, PropertyValue, SSeq, Unsupported
from ..interp import _Iter, _TypingThing, _SymbolicIterationNeeded


class CachedPropertyClass:
    """functools.cached_property: stores the value under `attrname` in instance.__dict__"""

    def pyvc_call(self, interp, args, kwargs):
        return PropertyValue(args[0], None, cached=True, attrname=None)

    def pyvc_instancecheck(self, interp, obj):
        return isinstance(obj, PropertyValue) and obj.cached


class LruWrapper:
    """functools.lru_cache(...)(fn): a call returns the cached result of an *earlier* call with equal
    arguments if there is one.  The verification starts from an arbitrary history, so unless the cache
    was cleared in this run a call may be a hit; what a hit returns was computed in an earlier state of
    the program: for a function whose arguments are all immutable values that is the same value, for
    any other function (zero arguments = reads globals; mutable arguments) it is an arbitrary value of
    the same kind as the function returns now."""

    def __init__(self, fn, bound=None, state=None):
        self.fn, self.bound = fn, bound
        self.state = state if state is not None else {"cleared": False, "filled": []}

    def pyvc_bind(self, interp, obj):
        return LruWrapper(self.fn, obj, self.state)

    def pyvc_getattr(self, interp, name):
        if name == "cache_clear":
            def clear(it, a, k):
                self.state["cleared"] = True
                self.state["filled"] = []

            return Builtin("lru.cache_clear", clear)
        if name in ("__wrapped__",):
            return self.fn
        raise Unsupported(f"lru_cache wrapper attribute {name}")

    def pyvc_call(self, interp, args, kwargs):
        from ..ctx import cur
        from ..values import Arr, LocalObj, ObjRef

        full = ([self.bound] if self.bound is not None else []) + list(args)
        key = tuple(id(x) if not isinstance(x, (int, float, str, bool, type(None))) else x for x in full) + tuple(sorted((k, id(v)) for k, v in kwargs.items()))
        for k0, r0 in self.state["filled"]:
            if k0 == key:
                return r0  # a hit on a value stored in this run
        fresh = interp.call(self.fn, full, kwargs)
        immutable = bool(full or kwargs) and all(isinstance(x, (int, float, str, bool, type(None))) for x in list(full) + list(kwargs.values()))
        result = fresh
        if not self.state["cleared"] and not immutable:
            hit = T.fresh("lru_cache_hit_from_an_earlier_state", T.BOOL)
            if cur().decide(hit, "lru_cache: an entry for these arguments exists from before"):
                result = _arbitrary_like(fresh)
        self.state["filled"].append((key, result))
        return result


def _arbitrary_like(v):
    from ..values import LocalObj, ObjRef

    if isinstance(v, ObjRef):
        return ObjRef(T.fresh("stale", T.REF), v.classes, v.heap)
    if isinstance(v, T.Term):
        return T.fresh("stale", v.sort)
    if isinstance(v, tuple):
        return tuple(_arbitrary_like(x) for x in v)
    if isinstance(v, (int, float, str, bool, type(None))):
        return v
    return StaleValue(type(v).__name__)


class StaleValue:
    """a result cached in an earlier state: only its identity can be asked (and differs, possibly)"""

    def __init__(self, what):
        self.what = what
        self.same = {}

    def pyvc_identical(self, interp, other):
        k = id(other)
        if k not in self.same:
            self.same[k] = T.fresh("stale_is_same", T.BOOL)
        return self.same[k]

    def pyvc_is_none(self):
        return False

    def pyvc_getattr(self, interp, name):
        raise Unsupported(f"use of a value cached by lru_cache in an earlier state ({self.what}.{name})")


def _lru_cache(it, a, k):
    if a and isinstance(a[0], FuncValue) and not k:
        return LruWrapper(a[0])  # @lru_cache without parentheses

    def deco(it2, a2, k2):
        return LruWrapper(a2[0])

    return Builtin("lru_cache.deco", deco)


def _wraps(it, a, k):
    wrapped = a[0]

    def deco(it2, a2, k2):
        f = a2[0]
        if isinstance(f, FuncValue) and isinstance(wrapped, FuncValue):
            f.alias = wrapped.alias or wrapped.qualname
            f.wrapped = wrapped
        return f

    return Builtin("wraps.deco", deco)


def _chain(it, a, k):
    if any(hasattr(x, "deps") for x in a):
        # collections computed from the abstract graph (region dependencies only): so is their chain
        from .nx_graph import AbsColl

        return AbsColl(frozenset().union(*[x.deps for x in a if hasattr(x, "deps")]), "chain")
    out = []
    for x in a:
        out.extend(it.iterate(x))
    return _Iter(out)


def _product(it, a, k):
    import itertools

    lists = [list(it.iterate(x)) for x in a]
    return _Iter(list(itertools.product(*lists)))


class _ChainFn:
    name = "itertools.chain"

    def pyvc_call(self, interp, args, kwargs):
        return _chain(interp, args, kwargs)

    def pyvc_getattr(self, interp, name):
        if name == "from_iterable":
            def fi(it, a, k):
                out = []
                for x in it.iterate(a[0]):
                    out.extend(it.iterate(x))
                return _Iter(out)

            return Builtin("itertools.chain.from_iterable", fi)
        raise Unsupported(f"chain.{name}")


class CountObj:
    def __init__(self, start=0):
        self.v = start

    def pyvc_next(self, interp):
        v = self.v
        self.v += 1
        return v


def make_modules():
    ft = ModuleValue("functools")
    ft.ns["cached_property"] = CachedPropertyClass()
    ft.ns["wraps"] = Builtin("functools.wraps", _wraps)
    ft.ns["_lru_cache_wrapper"] = _TypingThing("_lru_cache_wrapper")
    ft.ns["lru_cache"] = Builtin("functools.lru_cache", _lru_cache)
    ft.ns["cache"] = Builtin("functools.cache", _lru_cache)
    itools = ModuleValue("itertools")
    itools.ns["chain"] = _ChainFn()
    itools.ns["product"] = Builtin("itertools.product", _product)
    itools.ns["count"] = Builtin("itertools.count", lambda it, a, k: CountObj(a[0] if a else 0))
    return {"functools": ft, "itertools": itools}
