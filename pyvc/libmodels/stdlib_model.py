"""functools / itertools / importlib as far as the repository uses them."""
from __future__ import annotations

from .. import terms as T
from ..values import Builtin, FuncValue, ModuleValue, PropertyValue, SSeq, Unsupported
from ..interp import _Iter, _TypingThing, _SymbolicIterationNeeded


class CachedPropertyClass:
    """functools.cached_property: stores the value under `attrname` in instance.__dict__"""

    def pyvc_call(self, interp, args, kwargs):
        return PropertyValue(args[0], None, cached=True, attrname=None)

    def pyvc_instancecheck(self, interp, obj):
        return isinstance(obj, PropertyValue) and obj.cached


def _wraps(it, a, k):
    wrapped = a[0]

    def deco(it2, a2, k2):
        f = a2[0]
        if isinstance(f, FuncValue) and isinstance(wrapped, FuncValue):
            f.alias = wrapped.alias or wrapped.qualname
            f.wrapped = wrapped
        return f

    return Builtin("wraps.deco", deco)


def _chain(it, a, k):
    out = []
    for x in a:
        out.extend(it.iterate(x))
    return _Iter(out)


def _product(it, a, k):
    import itertools

    lists = [list(it.iterate(x)) for x in a]
    return _Iter(list(itertools.product(*lists)))


class _ChainFn:
    name = "itertools.chain"

    def pyvc_call(self, interp, args, kwargs):
        return _chain(interp, args, kwargs)

    def pyvc_getattr(self, interp, name):
        if name == "from_iterable":
            def fi(it, a, k):
                out = []
                for x in it.iterate(a[0]):
                    out.extend(it.iterate(x))
                return _Iter(out)

            return Builtin("itertools.chain.from_iterable", fi)
        raise Unsupported(f"chain.{name}")


class CountObj:
    def __init__(self, start=0):
        self.v = start

    def pyvc_next(self, interp):
        v = self.v
        self.v += 1
        return v


def make_modules():
    ft = ModuleValue("functools")
    ft.ns["cached_property"] = CachedPropertyClass()
    ft.ns["wraps"] = Builtin("functools.wraps", _wraps)
    ft.ns["_lru_cache_wrapper"] = _TypingThing("_lru_cache_wrapper")
    itools = ModuleValue("itertools")
    itools.ns["chain"] = _ChainFn()
    itools.ns["product"] = Builtin("itertools.product", _product)
    itools.ns["count"] = Builtin("itertools.count", lambda it, a, k: CountObj(a[0] if a else 0))
    return {"functools": ft, "itertools": itools}
