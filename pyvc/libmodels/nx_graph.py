"""Abstract model of networkx.DiGraph and its views for stratum C (assumed contract, DESIGN.md
2.7 / App. D), at the granularity of *regions*:

    nodes              the node set and its order
    edges              the edge set, its order and the edge attribute 'link'
    attr:<key>         the partial map node -> value of node attribute <key> (incl. its domain)

Every read and write of the graph is logged with its region (ctx.effects: g-read / g-write) and
mutations are logged with their arguments (g-call).  Iteration yields one generic item.  A dict
comprehension over `nodes.data()` filtered by `<key> in data` depends on the nodes only through
the domain of attr:<key>, so it reads region attr:<key> (adding a node without that attribute or
touching other attributes cannot change its value)."""
from __future__ import annotations

import itertools

from .. import terms as T
from ..ctx import cur
from ..interp import PyRaise, _SymbolicIterationNeeded, _Iter
from ..values import Builtin, ExcValue, LocalObj, ModuleValue, SSeq, SymName, Unsupported

_ids = itertools.count(1)


def log_read(region):
    cur().effects.append(("g-read", region))


def log_write(region, detail=None):
    cur().effects.append(("g-write", region, detail))


class AItem:
    """a generic node / attribute value / link met while iterating the abstract graph"""

    def __init__(self, kind, idx, graph=None):
        self.kind, self.idx, self.graph = kind, idx, graph
        self.ident = next(_ids)

    def pyvc_getattr(self, interp, name):
        if name == "name":
            return SymName(("item", self.kind, self.ident))
        if not name.startswith("__"):
            # any other attribute of an element met in the graph (a parameter, a variable dict ...): it is
            # mutable state outside the graph - logged as a pseudo-region, its value is opaque
            log_read(f"element-attr:{name}")
            return AItem(f"attr-of-{self.kind}:{name}", self.idx, self.graph)
        raise Unsupported(f"attribute {name} of a generic graph item")

    def pyvc_isinstance(self, interp, cls):
        """the items handed to / met in the graph are well typed: nodes are Node objects, links Link objects"""
        name = getattr(cls, "name", None)
        if self.kind in ("node", "given-up", "given-down"):
            return name in ("Node", "ElementBase")
        if self.kind in ("given-link", "edge-attr:link"):
            return name in ("Link", "ElementWithVars", "ElementBase")
        raise Unsupported(f"isinstance of a generic graph item of kind {self.kind}")

    def __repr__(self):
        return f"<{self.kind}#{self.ident}>"


class AbsColl:
    """a collection computed from the graph: only its dependencies (regions) are tracked"""

    def __init__(self, deps, what="dict"):
        self.deps = frozenset(deps)
        self.what = what
        self.n = T.fresh("len", T.INT)

    def _seq(self, desc):
        for r in self.deps:
            log_read(r)
        return SSeq(self.n, lambda j: AItem(f"item of {self.what}", j), desc)

    def pyvc_iter(self, interp):
        raise _SymbolicIterationNeeded(self._seq("iteration"))

    def pyvc_getattr(self, interp, name):
        if name in ("keys", "values", "items"):
            if name == "items":
                return Builtin("abs.items", lambda it, a, k: _PairSeq(self))
            return Builtin("abs." + name, lambda it, a, k: AbsColl(self.deps, f"{name} of {self.what}"))
        if name == "get":
            return Builtin("abs.get", lambda it, a, k: AItem("value", 0))
        raise Unsupported(f"{name} of an abstract collection")

    def pyvc_getitem(self, interp, key):
        for r in self.deps:
            log_read(r)
        return AItem("value", 0)

    def pyvc_contains(self, interp, key):
        for r in self.deps:
            log_read(r)
        return T.fresh("member", T.BOOL)

    def pyvc_setitem(self, interp, key, v):
        from ..ctx import Infeasible

        cur().oblige("frame", f"a lookup computed from the graph ({self.what}) is not modified in place", T.FALSE, assume_after=False)
        cur().effects.append(("abs-write", self.what))

    def pyvc_len(self, interp):
        return self.n


class _PairSeq:
    def __init__(self, coll):
        self.coll = coll

    def pyvc_iter(self, interp):
        c = self.coll
        for r in c.deps:
            log_read(r)
        raise _SymbolicIterationNeeded(SSeq(c.n, lambda j: (AItem("key", j), AItem("value", j)), "items"))


class ADataDict:
    """the attribute dict of one (generic or given) node"""

    def __init__(self, graph, node):
        self.graph, self.node = graph, node

    def pyvc_contains(self, interp, key):
        log_read(f"attr:{key}")
        return AHasAttr(self, key)

    def pyvc_getitem(self, interp, key):
        log_read(f"attr:{key}")
        return AItem(f"attr:{key}", 0, self.graph)

    def pyvc_setitem(self, interp, key, v):
        log_write(f"attr:{key}", ("set-node-attr", self.node, key, v))

    def pyvc_update_into(self, interp, target):
        """d.update(<attribute dict of a node>): whatever attributes the node has now override the
        entries d has so far (and are overridden by entries written later): recorded as a marker"""
        log_read("attr:*")
        target[("$existing-attributes", id(self))] = self


class AHasAttr:
    """result of `<key> in data`: a symbolic Boolean that remembers what it tests"""

    def __init__(self, data, key):
        self.data, self.key = data, key
        self.term = T.fresh(f"has_{key}", T.BOOL)

    def pyvc_truth(self, interp):
        return self.term


class ANodeData:
    def __init__(self, graph, mode):
        self.graph, self.mode = graph, mode  # mode: 'data' (node, dict) pairs | 'values' dicts

    def pyvc_iter(self, interp):
        g = self.graph
        cur().effects.append(("g-iter-nodes", self.mode))
        n = T.fresh("n_nodes", T.INT)
        if self.mode == "data":
            raise _SymbolicIterationNeeded(SSeq(n, lambda j: (_node_item(g, j), ADataDict(g, ("generic", j))), "nodes.data()"))
        raise _SymbolicIterationNeeded(SSeq(n, lambda j: ADataDict(g, ("generic", j)), "nodes.values()"))


def _node_item(g, j):
    return AItem("node", j, g)


class ANodeView:
    def __init__(self, graph):
        self.graph = graph

    def pyvc_iter(self, interp):
        log_read("nodes")
        n = T.fresh("n_nodes", T.INT)
        g = self.graph
        raise _SymbolicIterationNeeded(SSeq(n, lambda j: _node_item(g, j), "nodes"))

    def pyvc_contains(self, interp, node):
        log_read("nodes")
        key = ("in-graph", id(node))
        memo = self.graph.membership
        if key not in memo:
            memo[key] = T.fresh("node_in_graph", T.BOOL)
        return memo[key]

    def pyvc_getitem(self, interp, node):
        return ADataDict(self.graph, node)

    def pyvc_getattr(self, interp, name):
        if name == "data":
            return Builtin("nodes.data", lambda it, a, k: ANodeData(self.graph, "data"))
        if name == "values":
            return Builtin("nodes.values", lambda it, a, k: ANodeData(self.graph, "values"))
        raise Unsupported(f"NodeView.{name}")

    def pyvc_len(self, interp):
        log_read("nodes")
        return T.fresh("n_nodes", T.INT)


class AGraph:
    def __init__(self, name=None):
        self.name = name
        self.membership = {}
        self.ident = next(_ids)
        self.fail_after_write = False  # networkx raises after it has already changed the graph (bad item in a batch, None node ...)

    def _maybe_fail(self):
        if self.fail_after_write:
            from ..interp import PyRaise
            from ..values import ExcValue

            raise PyRaise(ExcValue("ValueError", ("networkx rejects an item after having added others",), ("Exception",)))

    def pyvc_getattr(self, interp, name):
        if name == "nodes":
            return ANodeView(self)
        if name == "add_node":
            def add_node(it, a, k):
                log_write("nodes", ("add_node", a[0], dict(k)))
                for key, v in k.items():
                    log_write(f"attr:{key}", ("add_node-attr", a[0], key, v))
                cur().effects.append(("g-call", "add_node", tuple(a), dict(k)))
                self._maybe_fail()
            return Builtin("DiGraph.add_node", add_node)
        if name == "add_nodes_from":
            def add_nodes_from(it, a, k):
                log_write("nodes", ("add_nodes_from", a[0]))
                cur().effects.append(("g-call", "add_nodes_from", tuple(a), dict(k)))
                self._maybe_fail()
            return Builtin("DiGraph.add_nodes_from", add_nodes_from)
        if name == "add_edge":
            def add_edge(it, a, k):
                log_write("edges", ("add_edge", tuple(a), dict(k)))
                log_write("nodes", ("add_edge-implicit-nodes", tuple(a)))
                cur().effects.append(("g-call", "add_edge", tuple(a), dict(k)))
                self._maybe_fail()
            return Builtin("DiGraph.add_edge", add_edge)
        if name == "add_edges_from":
            def add_edges_from(it, a, k):
                log_write("edges", ("add_edges_from",))
                log_write("nodes", ("add_edges_from-implicit-nodes",))
                cur().effects.append(("g-call", "add_edges_from", tuple(a), dict(k)))
                self._maybe_fail()
            return Builtin("DiGraph.add_edges_from", add_edges_from)
        if name == "name":
            return self.name
        raise Unsupported(f"DiGraph.{name}")

    def pyvc_contains(self, interp, node):
        # `n in G` is `n in G.nodes`
        return ANodeView(self).pyvc_contains(interp, node)

    def pyvc_getitem(self, interp, node):
        raise Unsupported("G[n] (adjacency of a node) on the abstract graph")

    def pyvc_is_none(self):
        return False


class AAdj:
    """adjacency dict of one generic node: v -> edge data"""

    def __init__(self, graph, kind):
        self.graph, self.kind = graph, kind

    def pyvc_getattr(self, interp, name):
        if name == "items":
            g = self.graph

            def items(it, a, k):
                n = T.fresh("deg", T.INT)
                return _AdjItems(g, n)

            return Builtin("adj.items", items)
        raise Unsupported(f"adjacency.{name}")


class _AdjItems:
    def __init__(self, g, n):
        self.g, self.n = g, n

    def pyvc_iter(self, interp):
        g = self.g
        raise _SymbolicIterationNeeded(SSeq(self.n, lambda j: (_node_item(g, ("nbr", j)), AEdgeDataDict(g)), "adj.items()"))


class AEdgeDataDict:
    def __init__(self, graph):
        self.graph = graph

    def pyvc_getitem(self, interp, key):
        log_read("edges")
        return AItem(f"edge-attr:{key}", 0, self.graph)


class AEdgeQuery:
    """result of view(nbunch, data, default=...): the edges at a node"""

    def __init__(self, graph, nbunch, data):
        self.graph, self.nbunch, self.data = graph, nbunch, data
        self.n = T.fresh("deg", T.INT)
        cur().axiom(T.le(0, self.n))

    def pyvc_len(self, interp):
        log_read("edges")
        return self.n

    def pyvc_iter(self, interp):
        log_read("edges")
        g, nb = self.graph, self.nbunch
        raise _SymbolicIterationNeeded(SSeq(self.n, lambda j: (nb, _node_item(g, ("nbr", j)), AItem("edge-attr:" + str(self.data), 0, g)), "edges at node"))

    def pyvc_any(self, interp):
        log_read("edges")
        return T.lt(0, self.n)


class EdgeViewClass:
    """networkx OutEdgeView / InEdgeView as an external base class"""

    def __init__(self, name):
        self.name = name

    def pyvc_ext_init(self, interp, obj, args, kwargs):
        if len(args) != 1 or kwargs:
            raise PyRaise(ExcValue("TypeError", (f"{self.name}() takes the graph",)))
        obj.attrs["_graph"] = args[0]
        obj.attrs["$edge_view"] = self.name

    def pyvc_ext_method(self, interp, obj, name):
        g = obj.attrs.get("_graph")
        if name == "_nodes_nbrs":
            def nodes_nbrs(it, a, k):
                log_read("edges")
                n = T.fresh("n_nodes", T.INT)
                return _NbrsItems(g, n)

            return Builtin(f"{self.name}._nodes_nbrs", nodes_nbrs)
        if name == "__call__":
            def call(it, a, k):
                # networkx 3.x: __call__(self, nbunch=None, data=False, *, default=None)
                if len(a) > 2:
                    raise PyRaise(ExcValue("TypeError", (f"{self.name}.__call__() takes from 1 to 3 positional arguments but {len(a) + 1} were given",)))
                bad = set(k) - {"nbunch", "data", "default"}
                if bad:
                    raise PyRaise(ExcValue("TypeError", (f"unexpected keyword {bad}",)))
                nbunch = a[0] if a else k.get("nbunch")
                data = a[1] if len(a) > 1 else k.get("data", False)
                cur().effects.append(("g-call", "edge-view-call", (self.name, nbunch, data), {"default": k.get("default")}))
                return AEdgeQuery(g, nbunch, data)

            return Builtin(f"{self.name}.__call__", call)
        if name == "__getitem__":
            def getitem(it, a, k):
                cur().effects.append(("g-call", "edge-view-getitem", (self.name, a[0]), {}))
                return AEdgeDataDict(g)

            return Builtin(f"{self.name}.__getitem__", getitem)
        if name == "__len__":
            def ln(it, a, k):
                log_read("edges")
                return T.fresh("n_edges", T.INT)

            return Builtin(f"{self.name}.__len__", ln)
        return None

    def __repr__(self):
        return f"<extclass {self.name}>"


class _NbrsItems:
    def __init__(self, g, n):
        self.g, self.n = g, n

    def pyvc_iter(self, interp):
        g = self.g
        raise _SymbolicIterationNeeded(SSeq(self.n, lambda j: (_node_item(g, ("u", j)), AAdj(g, "succ")), "_nodes_nbrs()"))


class DiGraphClass:
    name = "DiGraph"

    def pyvc_call(self, interp, args, kwargs):
        return AGraph(kwargs.get("name"))


def install(interp, nx, rv):
    rv.ns["OutEdgeView"] = EdgeViewClass("OutEdgeView")
    rv.ns["InEdgeView"] = EdgeViewClass("InEdgeView")
    nx.ns["DiGraph"] = DiGraphClass()

    def comp_rule(it, node, seq, env, kind):
        """dict / filtered comprehensions over symbolic graph sequences: evaluate filter and element
        once at a generic index to collect the regions read; the value is an abstract collection"""
        from ..loops import _child_env

        c = cur()
        g = node.generators[0]
        mark = len(c.effects)
        e2 = _child_env(it, env)
        e2.vars.update(env.vars)
        j = T.fresh("g", T.INT)
        it.assign(g.target, seq.elem(j), e2)
        filt_attr = None
        for cond in g.ifs:
            v = it.eval(cond, e2)
            if isinstance(v, AHasAttr) and len(g.ifs) == 1:
                filt_attr = v.key
            else:
                it.truth_term(v)
        if kind == "dict":
            it.eval(node.key, e2)
            it.eval(node.value, e2)
        else:
            it.eval(node.elt, e2)
        new = c.effects[mark:]
        deps = {e[1] for e in new if e[0] == "g-read"}
        iter_nodes = any(e[0] == "g-iter-nodes" for e in c.effects[max(0, mark - 3):mark]) or seq.desc.startswith("nodes.")
        if iter_nodes:
            if filt_attr is not None:
                deps.add(f"attr:{filt_attr}")
                c.effects.append(("g-read", f"attr:{filt_attr}"))
            else:
                deps.add("nodes")
                c.effects.append(("g-read", "nodes"))
        return AbsColl(deps, kind)

    interp.comp_rule = comp_rule
