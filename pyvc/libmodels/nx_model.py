"""Assumed contract of networkx.DiGraph and its edge/node views (DESIGN.md 2.7, App. D).
Filled in by the stratum-C work; the classes below are the handles the repository's modules
need at import time."""
from __future__ import annotations

from ..values import ModuleValue


class ExtClass:
    """an external class usable as a base class or constructor"""

    def __init__(self, name, ctor=None):
        self.name = name
        self.ctor = ctor

    def pyvc_call(self, interp, args, kwargs):
        if self.ctor is None:
            from ..values import Unsupported

            raise Unsupported(f"construction of external class {self.name}")
        return self.ctor(interp, args, kwargs)

    def __repr__(self):
        return f"<extclass {self.name}>"


def make_module(interp):
    nx = ModuleValue("networkx")
    classes = ModuleValue("networkx.classes")
    rv = ModuleValue("networkx.classes.reportviews")
    for n in ("OutEdgeView", "InEdgeView", "NodeView"):
        rv.ns[n] = ExtClass(n)
    classes.ns["reportviews"] = rv
    nx.ns["classes"] = classes
    nx.ns["DiGraph"] = ExtClass("DiGraph")
    try:
        from . import nx_graph

        nx_graph.install(interp, nx, rv)
    except ImportError:
        pass
    return nx
