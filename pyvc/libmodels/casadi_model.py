"""Assumed denotational contract of the part of CasADi the repository uses (DESIGN.md 2.7):
an SX/MX/DM value denotes a column vector of reals (as a function of a valuation of its
symbols); Arr('cs','m') carries that denotation pointwise."""
from __future__ import annotations

from .. import arrays as A
from .. import terms as T
from ..ctx import cur, Infeasible
from ..values import Arr, Builtin, ModuleValue, SSeq, Unsupported, mk_vec, ExcValue
from ..interp import PyRaise, _SymStar, _TypingThing


def _m(x):
    """python numbers act as 1x1 matrices"""
    if isinstance(x, Arr):
        if x.dialect != "cs":
            raise Unsupported(f"casadi function applied to a {x.dialect} value")
        return x
    v = A.at(x, 0)
    return mk_vec("cs", "m", 1, lambda i: v, "fresh", symtype="DM")


def cs_sum1(it, a, k):
    x = _m(a[0])
    v = A.vsum(x)
    return mk_vec("cs", "m", 1, lambda i: v, "fresh", symtype=x.symtype)


def _unary(name, fn, dom=None):
    def f(it, a, k):
        return A.unary(fn, _m(a[0]), name, dom)

    return Builtin("cs." + name, f)


def _binary(name, op):
    def f(it, a, k):
        return A.elementwise(op, _m(a[0]), _m(a[1]), name)

    return Builtin("cs." + name, f)


def cs_if_else(it, a, k):
    return A.where(_m(a[0]), _m(a[1]), _m(a[2]), "cs")


def cs_vcat(it, a, k):
    parts = a[0]
    if isinstance(parts, _SymStar):
        parts = parts.seq
    if isinstance(parts, SSeq):
        probe = parts.elem(T.fresh("vc", T.INT))
        if isinstance(probe, Arr) and not (T.is_const(probe.n) and T.cval(probe.n) == 1):
            raise Unsupported("vcat of a symbolic number of vectors")
        return A.concat("cs", parts, "m")
    parts = [_m(p) for p in it.iterate(parts)]
    return A.concat("cs", parts, "m")


def cs_vertcat(it, a, k):
    return A.concat("cs", [_m(p) for p in a], "m")


class SymClass:
    """casadi.SX / casadi.MX / casadi.DM as classes"""

    def __init__(self, name):
        self.name = name
        self.counter = 0

    def pyvc_getattr(self, interp, attr):
        if attr == "sym":
            def sym(it, a, k):
                n = a[1] if len(a) > 1 else 1
                m2 = a[2] if len(a) > 2 else 1
                if m2 != 1:
                    raise Unsupported("non-column symbol")
                self.counter += 1
                f = T.uf(f"cs.{self.name}.sym!{self.counter}", [T.INT], T.REAL)
                return mk_vec("cs", "m", T.lift(n, T.INT), lambda i: f(i), "fresh", symtype=self.name)

            return Builtin(f"cs.{self.name}.sym", sym)
        if attr == "__name__":
            return self.name
        raise PyRaise(ExcValue("AttributeError", (attr,)))

    def pyvc_call(self, interp, args, kwargs):
        x = _m(args[0])
        return mk_vec("cs", "m", x.n, x.at, "fresh", symtype=self.name)

    def pyvc_instancecheck(self, interp, obj):
        if not (isinstance(obj, Arr) and obj.dialect == "cs"):
            return False
        if obj.symtype is None:
            raise Unsupported("isinstance against a casadi type for a value of unknown symbol type")
        return obj.symtype == self.name

    def __repr__(self):
        return f"<cs.{self.name}>"


def arr_method(interp, a, name):
    if name == "size1":
        return Builtin("cs.size1", lambda it, aa, k: a.n)
    if name == "shape":
        raise Unsupported("shape handled elsewhere")
    raise Unsupported(f"casadi attribute {name}")


def make_module():
    m = ModuleValue("casadi")
    ns = m.ns
    ns["sum1"] = Builtin("cs.sum1", cs_sum1)
    ns["exp"] = _unary("exp", T.exp)
    ns["log"] = _unary("log", T.log, dom=lambda x: T.lt(0, x))
    ns["power"] = _binary("power", "**")
    ns["fmin"] = _binary("fmin", "min")
    ns["fmax"] = _binary("fmax", "max")
    ns["if_else"] = Builtin("cs.if_else", cs_if_else)
    ns["vcat"] = Builtin("cs.vcat", cs_vcat)
    ns["vertcat"] = Builtin("cs.vertcat", cs_vertcat)
    for n in ("SX", "MX", "DM"):
        ns[n] = SymClass(n)
    ns["Function"] = _TypingThing("cs.Function")
    return m
