"""Assumed denotational contract of the part of CasADi the repository uses (DESIGN.md 2.7):
an SX/MX/DM value denotes a column vector of reals (as a function of a valuation of its
symbols); Arr('cs','m') carries that denotation pointwise."""
from __future__ import annotations

from .. import arrays as A
from .. import terms as T
from ..ctx import cur, Infeasible
from ..values import Arr, Builtin, ModuleValue, SSeq, Unsupported, mk_vec, ExcValue
from ..interp import PyRaise, _SymStar, _TypingThing


def _m(x):
    """python numbers act as 1x1 matrices"""
    if isinstance(x, Arr):
        if x.dialect != "cs":
            raise Unsupported(f"casadi function applied to a {x.dialect} value")
        return x
    v = A.at(x, 0)
    return mk_vec("cs", "m", 1, lambda i: v, "fresh", symtype="DM")


def cs_sum1(it, a, k):
    x = _m(a[0])
    v = A.vsum(x)
    return mk_vec("cs", "m", 1, lambda i: v, "fresh", symtype=x.symtype)


def _unary(name, fn, dom=None):
    def f(it, a, k):
        return A.unary(fn, _m(a[0]), name, dom)

    return Builtin("cs." + name, f)


def _binary(name, op):
    def f(it, a, k):
        return A.elementwise(op, _m(a[0]), _m(a[1]), name)

    return Builtin("cs." + name, f)


def cs_if_else(it, a, k):
    return A.where(_m(a[0]), _m(a[1]), _m(a[2]), "cs")


def cs_vcat(it, a, k):
    parts = a[0]
    if isinstance(parts, _SymStar):
        parts = parts.seq
    if isinstance(parts, SSeq):
        probe = parts.elem(cur().fresh_index(parts.n, "vc"))
        if isinstance(probe, Arr) and not (T.is_const(probe.n) and T.cval(probe.n) == 1):
            raise Unsupported("vcat of a symbolic number of vectors")
        return A.concat("cs", parts, "m")
    parts = [_m(p) for p in it.iterate(parts)]
    return A.concat("cs", parts, "m")


def cs_vertcat(it, a, k):
    return A.concat("cs", [_m(p) for p in a], "m")


class SymClass:
    """casadi.SX / casadi.MX / casadi.DM as classes"""

    def __init__(self, name):
        self.name = name
        self.counter = 0

    def pyvc_getattr(self, interp, attr):
        if attr == "sym":
            def sym(it, a, k):
                n = a[1] if len(a) > 1 else 1
                m2 = a[2] if len(a) > 2 else 1
                if m2 != 1:
                    raise Unsupported("non-column symbol")
                return new_symbol(self.name, a[0] if a else "sym", n)

            return Builtin(f"cs.{self.name}.sym", sym)
        if attr == "__name__":
            return self.name
        raise Unsupported(f"casadi.{self.name}.{attr} is not part of the model of casadi")

    def pyvc_call(self, interp, args, kwargs):
        x = _m(args[0])
        return mk_vec("cs", "m", x.n, x.at, "fresh", symtype=self.name)

    def pyvc_instancecheck(self, interp, obj):
        if not (isinstance(obj, Arr) and obj.dialect == "cs"):
            return False
        if obj.symtype is None:
            raise Unsupported("isinstance against a casadi type for a value of unknown symbol type")
        return obj.symtype == self.name

    def __repr__(self):
        return f"<cs.{self.name}>"


SYMS = {}
_symctr = [0]


def new_symbol(symtype, name, n):
    _symctr[0] += 1
    sid = _symctr[0]
    f = T.uf(f"cs.{symtype}.sym!{sid}", [T.INT], T.REAL)
    a = mk_vec("cs", "m", T.lift(n, T.INT), lambda i: f(i), "fresh", symtype=symtype)
    a.buf.is_var, a.buf.prov, a.buf.symid = True, (sid,), sid
    SYMS[sid] = (a, name)
    return a


def cs_symvar(it, a, k):
    x = _m(a[0])
    prov = x.buf.prov
    if x.symtype == "MX":
        return [SYMS[p][0] for p in prov]
    if len(prov) == 1:
        sym = SYMS[prov[0]][0]
        def entry(i, sym=sym):
            i = T.lift(i, T.INT)
            v = sym.at(i)
            r = mk_vec("cs", "m", 1, lambda j, v=v: v, "fresh", symtype=sym.symtype)
            r.buf.prov, r.buf.symid, r.buf.is_var = sym.buf.prov, ("entry", sym.buf.symid, i), True
            return r

        seq = SSeq(sym.n, entry, f"symvar({prov[0]})")
        seq.entries_of, seq.symtype = prov[0], sym.symtype
        return seq
    if not prov:
        return []
    # an SX expression over several symbol vectors: some number of scalar symbols (those it really
    # depends on), of which nothing more is known
    L = T.fresh("n_symvar", T.INT)
    cur().axiom(T.le(0, L))
    g = T.uf(f"symvar.entry!{L.args[0] if L.op == 'var' else L.uid}", [T.INT], T.REAL)

    def some_entry(i):
        i = T.lift(i, T.INT)
        r = mk_vec("cs", "m", 1, lambda j, i=i: g(i), "fresh", symtype="SX")
        r.buf.prov, r.buf.symid, r.buf.is_var = prov, ("entry-of-several", prov, i), True
        return r

    seq = SSeq(L, some_entry, f"symvar(several:{prov})")
    seq.symtype = "SX"
    return seq


def arr_method(interp, a, name):
    if name == "n_dep":
        # 0 for a pure symbol (or a constant), > 0 for an expression
        return Builtin("cs.n_dep", lambda it, aa, k: 0 if (a.buf.symid is not None or not a.buf.prov) else 1)
    if name == "name":
        return Builtin("cs.name", lambda it, aa, k: SYMS[a.buf.symid][1] if a.buf.symid in SYMS else _unsup_name())
    if name == "is_scalar":
        return Builtin("cs.is_scalar", lambda it, aa, k: True if (T.is_const(a.n) and T.cval(a.n) == 1) else (False if T.is_const(a.n) else T.eq(a.n, 1)))
    if name == "numel":
        return Builtin("cs.numel", lambda it, aa, k: a.n)
    if name == "size1":
        return Builtin("cs.size1", lambda it, aa, k: a.n)
    if name == "shape":
        raise Unsupported("shape handled elsewhere")
    raise Unsupported(f"casadi attribute {name}")


def _unsup_name():
    raise Unsupported("name() of a non-symbol")


class FunctionModel:
    """casadi.Function(name, ins, outs, names_in, names_out, opts) - assumed contract: raises
    RuntimeError unless every input is purely symbolic (a symbol or a stack of distinct symbols) and
    every symbol the outputs depend on is among the inputs; calling it substitutes the arguments"""

    def __init__(self, name, ins, outs, names_in, names_out, opts):
        self.name, self.ins, self.outs, self.names_in, self.names_out, self.opts = name, ins, outs, names_in, names_out, opts


class FunctionClass:
    def pyvc_call(self, interp, args, kwargs):
        c = cur()
        if len(args) < 3:
            raise Unsupported("cs.Function with fewer than 3 arguments")
        name, ins, outs = args[0], list(args[1]), list(args[2])
        names_in = list(args[3]) if len(args) > 3 else None
        names_out = list(args[4]) if len(args) > 4 else None
        opts = args[5] if len(args) > 5 else kwargs.get("opts")
        seen = []
        pure_ok = True
        why = ""
        for k_, x in enumerate(ins):
            if not isinstance(x, Arr) or x.dialect != "cs":
                pure_ok, why = False, f"input {k_} is not a CasADi value"
                continue
            is_pure = (x.buf.symid is not None and not isinstance(x.buf.symid, tuple)) or x.buf.pure_stack
            if not is_pure and x.buf.prov:
                pure_ok, why = False, f"input {k_} is an expression, not a stack of symbols"
            for p in x.buf.prov:
                if p in seen:
                    pure_ok, why = False, f"symbol {SYMS[p][1]} occurs in two inputs"
                seen.append(p)
        free = []
        for y in outs:
            if isinstance(y, Arr):
                for p in y.buf.prov:
                    if p not in seen and p not in free:
                        free.append(p)
        c.effects.append(("cs.Function", name, len(ins), len(outs)))
        if not pure_ok or free:
            c.effects.append(("cs.Function-raises", "inputs not purely symbolic" if not pure_ok else f"free symbols {free}"))
            raise PyRaise(ExcValue("RuntimeError", ("casadi.Function: " + (f"inputs must be purely symbolic and distinct ({why})" if not pure_ok else f"free variables {[SYMS[p][1] for p in free]}"),)))
        if names_in is not None and len(names_in) != len(ins) or names_out is not None and len(names_out) != len(outs):
            raise PyRaise(ExcValue("RuntimeError", ("casadi.Function: number of names differs from number of arguments",)))
        return FunctionModel(name, ins, outs, names_in, names_out, opts)


def make_module():
    m = ModuleValue("casadi")
    ns = m.ns
    ns["sum1"] = Builtin("cs.sum1", cs_sum1)
    ns["exp"] = _unary("exp", T.exp)
    ns["log"] = _unary("log", T.log, dom=lambda x: T.lt(0, x))
    ns["power"] = _binary("power", "**")
    ns["fmin"] = _binary("fmin", "min")
    ns["fmax"] = _binary("fmax", "max")
    ns["if_else"] = Builtin("cs.if_else", cs_if_else)
    ns["vcat"] = Builtin("cs.vcat", cs_vcat)
    ns["vertcat"] = Builtin("cs.vertcat", cs_vertcat)
    for n in ("SX", "MX", "DM"):
        ns[n] = SymClass(n)
    ns["symvar"] = Builtin("cs.symvar", cs_symvar)
    ns["Function"] = FunctionClass()
    return m
