"""Assumed contract of the part of numpy (>= 2) the repository uses, over Arr('np') values."""
from __future__ import annotations

from .. import arrays as A
from .. import terms as T
from ..ctx import cur, Infeasible
from ..values import Arr, Builtin, ModuleValue, SSeq, Unsupported, mk_scalar, mk_vec, ExcValue
from ..interp import PyRaise, _SymStar


def _np(x):
    return A.np_wrap_scalar(x)


def _check_np(*xs):
    for x in xs:
        if isinstance(x, Arr) and x.dialect != "np":
            raise Unsupported(f"numpy function applied to a {x.dialect} value")


def np_sum(it, a, k):
    x = a[0]
    axis = a[1] if len(a) > 1 else k.get("axis")
    _check_np(x)
    c = cur()
    if axis is None:
        return mk_scalar("np", "npscalar", A.vsum(x))
    if axis != 0:
        raise Unsupported("np.sum with axis != 0")
    # numpy 2.5: axis 0 of a 0-d input is accepted and the value is returned (sampled by
    # tools/library_contracts.py; older releases raised AxisError)
    return mk_scalar("np", "npscalar", A.vsum(x))


def _unary(name, fn, dom=None):
    def f(it, a, k):
        _check_np(a[0])
        return A.unary(fn, _np(a[0]), name, dom)

    return Builtin("np." + name, f)


def _binary(name, op):
    def f(it, a, k):
        _check_np(a[0], a[1])
        x, y = a[0], a[1]
        if not isinstance(x, Arr) and not isinstance(y, Arr):
            x = _np(x)
        return A.elementwise(op, x, y, name)

    return Builtin("np." + name, f)


def np_hstack(it, a, k):
    parts = a[0]
    if isinstance(parts, (_SymStar,)):
        parts = parts.seq
    if isinstance(parts, SSeq):
        # all items are scalar-like or 1-D of one element: the element layer only stacks scalars this way
        probe = parts.elem(cur().fresh_index(parts.n, "hs"))
        if isinstance(probe, Arr) and not probe.is_scalar:
            raise Unsupported("hstack of a symbolic number of vectors")
        return A.concat("np", parts, "a1")
    parts = list(it.iterate(parts))
    _check_np(*parts)
    return A.concat("np", parts, "a1")


_fresh_arrays = [0]


def _fresh_array(n, what):
    _fresh_arrays[0] += 1
    f = T.uf(f"np.{what}!{_fresh_arrays[0]}", [T.INT], T.REAL)
    return mk_vec("np", "a1", n, lambda i: f(i), "fresh")


def _shape_len(shape):
    from ..interp import _Shape

    if isinstance(shape, _Shape):  # x.shape / np.shape(x) of a 1-D array
        if shape.desc is not None and shape.desc[0] == "np" and shape.desc[1] == 1:
            return shape.desc[2]
        raise Unsupported("numpy allocation with the shape of something else than a 1-D array")
    if isinstance(shape, tuple):
        if len(shape) != 1:
            raise Unsupported("numpy allocation with ndim != 1")
        return shape[0]
    return shape


def np_empty(it, a, k):
    return _fresh_array(T.lift(_shape_len(a[0]), T.INT), "empty")


def np_full(it, a, k):
    n = T.lift(_shape_len(a[0]), T.INT)
    val = a[1]
    if isinstance(val, Arr) and not val.is_scalar:
        raise Unsupported("np.full with an array fill value")
    v = A.at(val, 0)
    return mk_vec("np", "a1", n, lambda i: v, "fresh")


def np_zeros_like(it, a, k):
    x = a[0]
    if not isinstance(x, Arr) or x.dialect != "np":
        raise Unsupported("np.zeros_like of something else than a numpy array")
    if x.is_scalar:
        raise Unsupported("np.zeros_like of a numpy scalar / 0-d array")
    zero = T.const(0, T.REAL)
    return mk_vec("np", "a1", x.n, lambda i: zero, "fresh")


def np_zeros(it, a, k):
    n = T.lift(_shape_len(a[0]), T.INT)
    zero = T.const(0, T.REAL)
    return mk_vec("np", "a1", n, lambda i: zero, "fresh")


def np_shape(it, a, k):
    from ..interp import _Shape

    x = a[0]
    if not isinstance(x, Arr) or x.dialect != "np":
        raise Unsupported("np.shape of something else than a numpy value")
    return _Shape(A.shape_of(x))


def np_rand(it, a, k):
    return _fresh_array(T.lift(a[0], T.INT), "rand")


def make_module():
    m = ModuleValue("numpy")
    ns = m.ns
    ns["sum"] = Builtin("np.sum", np_sum)
    ns["square"] = _unary("square", lambda x: T.mul(x, x))
    ns["exp"] = _unary("exp", T.exp)
    ns["log"] = _unary("log", T.log, dom=lambda x: T.lt(0, x))
    ns["power"] = _binary("power", "**")
    ns["minimum"] = _binary("minimum", "min")
    ns["maximum"] = _binary("maximum", "max")
    ns["hstack"] = Builtin("np.hstack", np_hstack)
    ns["empty"] = Builtin("np.empty", np_empty)
    ns["full"] = Builtin("np.full", np_full)
    ns["zeros"] = Builtin("np.zeros", np_zeros)
    ns["zeros_like"] = Builtin("np.zeros_like", np_zeros_like)
    ns["shape"] = Builtin("np.shape", np_shape)
    rnd = ModuleValue("numpy.random")
    rnd.ns["rand"] = Builtin("np.random.rand", np_rand)
    rnd.ns["randn"] = Builtin("np.random.randn", np_rand)
    ns["random"] = rnd
    from ..interp import _TypingThing

    ns["ndarray"] = _TypingThing("ndarray")
    ns["float64"] = _TypingThing("float64")
    return m
