"""Verification driver: path exploration by re-execution, obligation preparation
(axiom instances for sums and transcendental symbols, domain assumptions, cross-multiplied
equalities) and discharge by the solver portfolio."""
from __future__ import annotations

import hashlib
import os
import time
import traceback

from . import ctx as ctxmod
from . import solver as S
from . import terms as T
from .arrays import BV
from .ctx import Ctx, Infeasible
from .values import Unsupported

ZERO_R = T.const(0, T.REAL)


# ----------------------------------------------------------------------------------
# preparation of a VC


def collect(ts, pred):
    out, seen = [], set()
    stack = list(ts)
    while stack:
        t = stack.pop()
        if t.uid in seen:
            continue
        seen.add(t.uid)
        if pred(t):
            out.append(t)
        for a in (t.args[1:] if t.op == "sum" else t.args):
            if isinstance(a, T.Term):
                stack.append(a)
    return out


def domain_facts(ts):
    """domain conditions of every partial operation occurring in ts (assumed for `post`-style
    obligations; each has its own `defined` obligation under the admissible precondition)"""
    facts = []
    for t in collect(ts, lambda t: t.op in ("/", "uf:ulog", "uf:upow")):
        if t.op == "/":
            if not T.is_const(t.args[1]):
                facts.append(T.ne(t.args[1], 0))
        elif t.op == "uf:ulog":
            facts.append(T.lt(0, t.args[0]))
        else:
            x, y = t.args
            facts.append(T.or_(T.lt(0, x), T.and_(T.eq(x, 0), T.lt(0, y))))
    return facts


def sum_axioms(ts):
    """instances of the recursion equations of psum_B and skolemised extensionality"""
    sums = collect(ts, lambda t: t.op == "sum")
    ax = []
    bodies = {}
    for s in sums:
        bodies.setdefault(s.args[0].uid, (s.args[0], []))[1].append(s.args[1])

    def inst(B, k):
        return T.substitute(B, {BV: T.lift(k, T.INT)})

    def ps(B, n):
        return T.Term("sum", (B, T.lift(n, T.INT)), T.REAL)

    for uid, (B, ns) in bodies.items():
        ax.append(T.eq(ps(B, 0), ZERO_R))
        ax.append(T.eq(ps(B, 1), inst(B, 0)))
        ax.append(T.eq(ps(B, 2), T.add(inst(B, 0), inst(B, 1))))
        for n in {x.uid: x for x in ns}.values():
            if T.is_const(n):
                continue
            nm1 = T.sub(n, 1)
            ax.append(T.implies(T.le(1, n), T.eq(ps(B, n), T.add(ps(B, nm1), inst(B, nm1)))))
    # extensionality between sums of equal length with different bodies
    ss = list({s.uid: s for s in sums}.values())
    for i in range(len(ss)):
        for j in range(i + 1, len(ss)):
            a, b = ss[i], ss[j]
            if a.args[0] is b.args[0]:
                continue
            if a.args[1] is not b.args[1]:
                continue
            n = a.args[1]
            sk = T.var(f"ext!{a.uid}!{b.uid}", T.INT)
            differ = T.and_(T.le(0, sk), T.lt(sk, n), T.ne(inst(a.args[0], sk), inst(b.args[0], sk)))
            ax.append(T.or_(differ, T.eq(a, b)))
    return ax


def transcendental_lemmas(ts):
    """instances of the Lean-proved facts about exp/log/rpow (lemmas/Metanet.lean) for the
    uexp/ulog/upow applications present; one round."""
    L = []
    exps = collect(ts, lambda t: t.op == "uf:uexp")
    logs = collect(ts, lambda t: t.op == "uf:ulog")
    pows = collect(ts, lambda t: t.op == "uf:upow")
    one = T.const(1, T.REAL)
    for e in exps:
        x = e.args[0]
        L.append(T.lt(0, e))  # exp_pos
        L.append(T.implies(T.le(x, 0), T.le(e, 1)))  # exp_le_one
        L.append(T.implies(T.le(0, x), T.le(1, e)))  # one_le_exp
        L.append(T.implies(T.eq(x, 0), T.eq(e, one)))
    # functional equations (Real.log_exp, Real.exp_log, Real.rpow_def_of_pos): an algebraically
    # equivalent rewrite of a formula must not turn into a spurious counter-model
    for e in exps:
        L.append(T.eq(T.ulog(e), e.args[0]))
    for l in logs:
        L.append(T.implies(T.lt(0, l.args[0]), T.eq(T.uexp(l), l.args[0])))
    for p in pows:
        x, y = p.args
        L.append(T.implies(T.lt(0, x), T.eq(p, T.uexp(T.mul(y, T.ulog(x))))))
    for i in range(len(exps)):
        for j in range(i + 1, len(exps)):
            a, b = exps[i], exps[j]
            L.append(T.implies(T.le(a.args[0], b.args[0]), T.le(a, b)))  # exp monotone
            L.append(T.implies(T.le(b.args[0], a.args[0]), T.le(b, a)))
    for l in logs:
        x = l.args[0]
        L.append(T.implies(T.eq(x, 1), T.eq(l, ZERO_R)))
        L.append(T.implies(T.and_(T.lt(0, x), T.le(x, 1)), T.le(l, 0)))
        L.append(T.implies(T.le(1, x), T.le(0, l)))
    for i in range(len(logs)):
        for j in range(i + 1, len(logs)):
            a, b = logs[i], logs[j]
            L.append(T.implies(T.and_(T.lt(0, a.args[0]), T.le(a.args[0], b.args[0])), T.le(a, b)))
            L.append(T.implies(T.and_(T.lt(0, b.args[0]), T.le(b.args[0], a.args[0])), T.le(b, a)))
    for p in pows:
        x, y = p.args
        L.append(T.implies(T.le(0, x), T.le(0, p)))  # rpow_nonneg
        L.append(T.implies(T.and_(T.eq(x, 0), T.lt(0, y)), T.eq(p, ZERO_R)))  # zero_rpow
        L.append(T.implies(T.eq(x, 1), T.eq(p, one)))  # one_rpow
        L.append(T.implies(T.lt(0, x), T.lt(0, p)))  # rpow_pos
    for i in range(len(pows)):
        for j in range(i + 1, len(pows)):
            a, b = pows[i], pows[j]
            if a.args[1] is b.args[1]:
                y = a.args[1]
                # rpow_le_rpow_left for a non-negative exponent
                L.append(T.implies(T.and_(T.le(0, a.args[0]), T.le(a.args[0], b.args[0]), T.le(0, y)), T.le(a, b)))
                L.append(T.implies(T.and_(T.le(0, b.args[0]), T.le(b.args[0], a.args[0]), T.le(0, y)), T.le(b, a)))
    return L


def cleared_equalities(hyps):
    """for hypotheses  a = b  over the reals containing divisions: the same equation with the
    denominators cleared (a consequence wherever the denominators are non-zero, which is assumed
    for every division occurring in the query)"""
    out = []
    fc, dc = {}, {}
    for h in hyps:
        eqs = []
        if h.op == "=" and h.args[0].sort == T.REAL:
            eqs.append(((), h))
        elif h.op == "or":
            es = [x for x in h.args if x.op == "=" and x.args[0].sort == T.REAL]
            if len(es) == 1:
                eqs.append((tuple(x for x in h.args if x is not es[0]), es[0]))
        for others, e in eqs:
            a, b = e.args
            if not (S.has_div(a, dc) or S.has_div(b, dc)):
                continue
            (an, ad), (bn, bd) = S.to_frac(a, fc), S.to_frac(b, fc)
            ra, rb = S.cancel_common(ad, bd)
            out.append(T.or_(*others, T.eq(T.mul(an, rb), T.mul(bn, ra))))
            for d in (ad, bd):
                if not T.is_const(d):
                    out.append(T.or_(*others, T.ne(d, 0)))
    return out


# assumed universal facts about applications of given function symbols (admissible domain of the
# model parameters / states), instantiated at every such application occurring in a query
TERM_FACTS = []  # [(op name, term -> fact)]


def term_facts(ts):
    if not TERM_FACTS:
        return []
    ops = {}
    for op, f in TERM_FACTS:
        ops.setdefault(op, []).append(f)
    out = []
    for t in collect(ts, lambda t: t.op in ops):
        for f in ops[t.op]:
            out.append(f(t))
    return out


def sum_sign_lemmas(ts):
    """instances of: a sum of positive terms over a non-empty range is positive; a sum of
    non-negative terms is non-negative (both by induction on the length; base and step are proved
    by lemma:sum-signs), in skolemised contrapositive form"""
    out = []
    for s in {x.uid: x for x in collect(ts, lambda t: t.op == "sum")}.values():
        B, n = s.args
        sk1 = T.var(f"pos!{s.uid}", T.INT)
        sk2 = T.var(f"nonneg!{s.uid}", T.INT)
        b1 = T.substitute(B, {BV: sk1})
        b2 = T.substitute(B, {BV: sk2})
        out.append(T.or_(T.and_(T.le(0, sk1), T.lt(sk1, n), T.le(b1, 0)), T.le(n, 0), T.lt(0, s)))
        out.append(T.or_(T.and_(T.le(0, sk2), T.lt(sk2, n), T.lt(b2, 0)), T.le(0, s)))
    return out


def _is_indicator(B):
    """a 0/1 indicator ite(c, 1, 0) or a sum of such: non-negative by form"""
    if B.op == "ite" and all(T.is_const(x) and T.cval(x) in (0, 1) for x in B.args[1:]):
        return True
    if B.op == "+":
        return all((T.is_const(x) and T.cval(x) >= 0) or (isinstance(x, T.Term) and _is_indicator(x)) for x in B.args)
    return False


def indicator_sum_facts(ts):
    """sums of indicators are non-negative (lemma:sum-signs, premise discharged by the form of the body)"""
    out = []
    for s in {x.uid: x for x in collect(ts, lambda t: t.op == "sum")}.values():
        if _is_indicator(s.args[0]):
            out.append(T.le(0, s))
    return out


def _augment(hyps, goal, assume_domains):
    roots = hyps + ([goal] if goal is not None else [])
    hyps = hyps + indicator_sum_facts(roots)
    if TERM_FACTS:
        extra = sum_sign_lemmas(roots)
        hyps = hyps + extra
        hyps = hyps + term_facts(hyps + ([goal] if goal is not None else []))
        roots = hyps + ([goal] if goal is not None else [])
    if assume_domains:
        hyps = hyps + domain_facts(roots)
    roots = hyps + ([goal] if goal is not None else [])
    hyps = hyps + sum_axioms(roots)
    roots = hyps + ([goal] if goal is not None else [])
    hyps = hyps + transcendental_lemmas(roots)
    if assume_domains:
        hyps = hyps + cleared_equalities(hyps)
    seen, out = set(), []
    for h in hyps:
        if h is T.TRUE or h.uid in seen:
            continue
        seen.add(h.uid)
        out.append(h)
    return out


def _occurs(v, t):
    return any(x is v for x in T.subterms([t]))


def unit_facts(hyps):
    """rewriting facts read off the hypotheses: Boolean atoms that hold / do not hold, terms
    known to equal a constant, index variables known to equal a term"""
    m = {}
    for h in hyps:
        if h.sort != T.BOOL or h.op == "const":
            continue
        if h.op == "not":
            a = h.args[0]
            if a.op not in ("and", "or", "not"):
                m.setdefault(a, T.FALSE)
            continue
        if h.op in ("and", "or"):
            continue
        if h.op == "=":
            x, y = h.args
            if x.sort != T.REAL:
                if T.is_const(y) and not T.is_const(x):
                    m.setdefault(x, y)
                elif T.is_const(x) and not T.is_const(y):
                    m.setdefault(y, x)
                elif x.op == "var" and "!" in x.args[0] and not _occurs(x, y):
                    m.setdefault(x, y)
                elif y.op == "var" and "!" in y.args[0] and not _occurs(y, x):
                    m.setdefault(y, x)
        m.setdefault(h, T.TRUE)
    return m


def simplify_goal(hyps, goal):
    m = unit_facts(hyps)
    if not m:
        return goal
    for _ in range(3):
        g2 = T.substitute(goal, m)
        if g2 is goal:
            break
        goal = g2
    return goal


def peel(goal, lits=()):
    """goal as a list of (antecedent literals, consequent): conjunctions separated,
    implications  (not c) or g  opened"""
    if goal.op == "and":
        out = []
        for x in goal.args:
            out.extend(peel(x, lits))
        return out
    if goal.op == "or":
        eqs = [x for x in goal.args if x.op == "=" and x.args[0].sort == T.REAL]
        if len(eqs) == 1:
            others = [T.not_(x) for x in goal.args if x is not eqs[0]]
            return peel(eqs[0], tuple(lits) + tuple(others))
    return [(tuple(lits), goal)]


COND_ORACLE = None  # set by the driver: (hyps, cond) -> True / False / None


def _discrete_atom(c):
    """conditions worth deciding up front: comparisons of integers / references / class tags"""
    if c.op in ("<", "<=", "="):
        return c.args[0].sort in (T.INT, T.REF)
    if c.op == "not":
        return _discrete_atom(c.args[0])
    if c.op in ("and", "or"):
        return all(_discrete_atom(x) for x in c.args)
    return c.op.startswith("uf:") or c.op == "var"


def decide_conditions(hyps, goal, log, cache=None, lits=()):
    """rewrite ite conditions over integers/references that the hypotheses already decide
    (each rewrite is justified by its own small entailment query).  `cache` remembers, for one
    path, conditions entailed by an earlier (smaller) hypothesis set without case literals -
    entailment is monotone in the hypotheses."""
    global COND_ORACLE
    if COND_ORACLE is None:
        COND_ORACLE = Oracle(os.path.join(os.path.dirname(os.path.dirname(os.path.abspath(__file__))), "out", "cond_default"), 2.0)
    for _ in range(4):
        conds = [c for c in S.ite_conditions([goal], limit=200) if _discrete_atom(c)]
        m = {}
        for c in conds[:40]:
            if cache is not None and c.uid in cache:
                m[c] = cache[c.uid]
                continue
            v = None
            if COND_ORACLE(hyps, c) is False:
                v = T.FALSE
            elif COND_ORACLE(hyps, T.not_(c)) is False:
                v = T.TRUE
            if v is not None:
                if cache is not None:
                    cache[c.uid] = v
                m[c] = v
            elif lits:
                h2 = list(hyps) + list(lits)
                if COND_ORACLE(h2, c) is False:
                    m[c] = T.FALSE
                elif COND_ORACLE(h2, T.not_(c)) is False:
                    m[c] = T.TRUE
        if not m:
            break
        log.append(len(m))
        g2 = T.substitute(goal, m)
        if g2 is goal:
            break
        goal = g2
    return goal


def prepare(hyps, goal, assume_domains=True, extra=(), cond_cache=None):
    """the SMT queries deciding  hyps |= goal.  Returns a list of alternative encodings, each a
    list of (hypotheses, sub-goal): the goal holds iff, in one (equivalently: every) encoding,
    every sub-goal follows from its hypotheses.
      'split': conjunctions separated, Real equalities split by cases on their ite conditions
               and cross-multiplied (division free);
      'plain': the goal as it is (SMT-LIB real division, ite terms)."""
    hyps = list(hyps) + list(extra)
    if goal is None:
        return [("plain", [(_augment(hyps, None, assume_domains), None)])]
    split_out, plain_out = [], []
    split_ok = True
    for lits, g in peel(goal):
        h1 = hyps + list(lits)
        roots0 = h1 + [g]
        g = simplify_goal(h1, g)
        if g is T.TRUE:
            continue
        if g.op == "=" and g.args[0].sort == T.REAL:
            log = []
            g = decide_conditions(_augment(hyps, None, False), g, log, cond_cache, lits)
            if g is T.TRUE:
                continue
        dom = domain_facts(roots0) if assume_domains else []
        plain_out.append((_augment(h1 + dom, g, assume_domains), g))
        if split_ok:
            try:
                subs, dens = S.cross_multiply(g)
            except S.SplitBudget:
                split_ok = False
                continue
            h2 = h1 + dom
            if assume_domains:
                h2 = h2 + [T.ne(d, 0) for d in dens]
            else:
                subs = [((), T.ne(d, 0)) for d in dens] + list(subs)
            for l2, g2 in subs:
                if g2 is T.TRUE:
                    continue
                split_out.append((_augment(h2 + list(l2), g2, assume_domains), g2))
    if not plain_out:
        return [("split", [])]
    alts = []
    if split_ok:
        alts.append(("split", split_out))
        if not split_out:
            return alts
    alts.append(("plain", plain_out))
    return alts


# ----------------------------------------------------------------------------------


class Oracle:
    """feasibility oracle for path decisions (subprocess z3, short budget, cached)"""

    def __init__(self, outdir, timeout=3.0):
        self.outdir = outdir
        self.timeout = timeout
        self.cache = {}
        self.n = 0
        self._ctr = __import__("itertools").count(1)
        self.time = 0.0

    def __call__(self, hyps, cond):
        key = (tuple(h.uid for h in hyps), cond.uid)
        if key in self.cache:
            return self.cache[key]
        hs = _augment(list(hyps) + [cond], None, True)
        script = T.smt_script(hs, None, produce_models=False)
        k = next(self._ctr)
        self.n = k
        path = os.path.join(self.outdir, f"feas_{k}.smt2")
        r = S.check(script, path, timeout=self.timeout, order=("z3-4.8",))
        self.time += r["time"]
        v = r["verdict"]
        res = True if v == "sat" else False if v == "unsat" else None
        self.cache[key] = res
        return res


class Result:
    """verdict of one obligation"""

    def __init__(self, oid, kind, label, where, verdict, solver=None, t=0.0, file=None, output="", path=None, meta=None):
        self.id, self.kind, self.label, self.where = oid, kind, label, where
        self.verdict, self.solver, self.time, self.file, self.output = verdict, solver, t, file, output
        self.path = path
        self.meta = meta or {}

    def to_json(self):
        return {
            "id": self.id,
            "kind": self.kind,
            "label": self.label,
            "where": self.where,
            "verdict": self.verdict,
            "solver": self.solver,
            "time_s": round(self.time, 3),
            "file": self.file,
            "meta": {k: (v if isinstance(v, (int, float, str, bool, list, dict)) or v is None else repr(v)) for k, v in self.meta.items()},
        }


class Task:
    """one function under contract in one input configuration.

    run(interp, ctx) executes the real function on symbolic inputs on the path given by
    ctx.decisions and records every obligation (including the postcondition) in ctx."""

    def __init__(self, name, run, props=(), check_defined=False, canary=None, func=None, config=None, bounded=None):
        self.bounded = bounded  # text of the bound if this task covers only a bounded family of inputs
        self.name, self.run, self.props = name, run, tuple(props)
        self.check_defined = check_defined
        self.canary = canary
        self.func = func or name
        self.config = config


def explore(task, make_interp, outdir, max_paths=400, feas_timeout=3.0):
    """all feasible paths of the task; returns (list of ctx, undecided reason or None)"""
    oracle = Oracle(os.path.join(outdir, "feas"), feas_timeout)
    work = [[]]
    done = []
    undecided = None
    while work:
        decisions = work.pop()
        if len(done) >= max_paths:
            undecided = f"more than {max_paths} paths"
            break
        c = Ctx(decisions, oracle, check_defined=task.check_defined, name=task.name)
        ctxmod.CUR = c
        interp = make_interp()
        c.where.append(task.name + ":0")
        try:
            task.run(interp, c)
            c.status = "done"
        except Infeasible:
            c.status = "dead"
        except Unsupported as e:
            c.status = "unsupported"
            undecided = str(e)
        except RecursionError:
            c.status = "unsupported"
            undecided = "recursion limit"
        except Exception as e:  # noqa: BLE001
            # the harness of the task (or the interpreter) does not cope with this shape of the code: a
            # limit of the machinery - undecided, never a verdict about the code
            import traceback

            c.status = "unsupported"
            undecided = f"checker harness error {type(e).__name__}: {e} [{traceback.format_exc().strip().splitlines()[-3].strip()[:120]}]"
        finally:
            ctxmod.CUR = None
        done.append(c)
        work.extend(c.pending)
        # an unsupported path leaves the task undecided, but the other paths are still explored: an
        # obligation that fails on one of them is a finding whatever the unsupported path would do
        if undecided and len([x for x in done if getattr(x, "status", "") == "unsupported"]) >= 8:
            break
    return done, undecided, oracle


def discharge(task, ctxs, outdir, timeout=10.0, order=S.DEFAULT_ORDER, want_all=False, threads=4):
    """decide every obligation recorded on the explored paths"""
    global COND_ORACLE
    COND_ORACLE = Oracle(os.path.join(outdir, "cond"), 2.0)
    jobs = []
    seen = {}
    caches = {}
    for pi, c in enumerate(ctxs):
        axioms = list(c.axioms.values())
        caches[pi] = {}
        for oi, ob in enumerate(c.obligations):
            hyps = axioms + c.hyps[: ob.nhyps]
            key = (tuple(sorted(h.uid for h in hyps)), ob.goal.uid, ob.kind, ob.label)
            if key in seen:
                continue
            seen[key] = True
            oid = f"{task.name}::{ob.kind}[{ob.label}]@p{pi}.{oi}"
            jobs.append((oid, ob, pi, hyps))

    def run_encoding(scripts, tmo, order=order):
        verdict, solvers, total, tried, out, bad_file = "unsat", set(), 0.0, [], "", None
        for script, path in scripts:
            r = S.check(script, path, timeout=tmo, order=order, want_all=want_all)
            total += r["time"]
            tried.append(r["tried"])
            if r["solver"]:
                solvers.add(r["solver"])
            if r["verdict"] == "sat":
                return "sat", solvers, total, tried, r.get("output", ""), path
            if r["verdict"] != "unsat":
                verdict, out, bad_file = r["verdict"], r.get("output", ""), path
                break
        return verdict, solvers, total, tried, out, bad_file

    def run_job(j):
        oid, ob, pi, hyps = j
        if ob.goal is T.TRUE:
            return Result(oid, ob.kind, ob.label, ob.where, "unsat", "syntactic-identity", 0.0, None, "", pi, ob.meta)
        alts = prepare(hyps, ob.goal, ob.assume_domains, cond_cache=caches[pi])
        if alts and alts[0][0] == "split" and not alts[0][1]:
            return Result(oid, ob.kind, ob.label, ob.where, "unsat", "syntactic-identity", 0.0, None, "", pi, ob.meta)
        base = hashlib.sha1(oid.encode()).hexdigest()[:16]
        encd = {}
        for name, subs in alts:
            encd[name] = [(T.smt_script(hs, g), os.path.join(outdir, f"{base}_{name}{k}.smt2")) for k, (hs, g) in enumerate(subs)]
        total, alltried, last = 0.0, [], None
        stages = []
        if "plain" in encd:
            stages.append(("plain", encd["plain"], min(3.0, timeout), (order[0],)))
        if "split" in encd:
            stages.append(("split", encd["split"], timeout, order))
        if "plain" in encd:
            stages.append(("plain", encd["plain"], timeout, order))
        for name, scripts, tmo, ordr in stages:
            verdict, solvers, t, tried, out, bad_file = run_encoding(scripts, tmo, ordr)
            total += t
            alltried.append({"encoding": name, "queries": len(scripts), "tried": tried})
            last = (verdict, solvers, out, bad_file or scripts[0][1], name)
            if verdict in ("unsat", "sat"):
                break
        verdict, solvers, out, f, name = last
        return Result(oid, ob.kind, ob.label, ob.where, verdict, "+".join(sorted(solvers)) or None, total, f, out, pi,
                      dict(ob.meta, tried=alltried, encoding=name))

    if threads > 1 and len(jobs) > 1:
        from concurrent.futures import ThreadPoolExecutor

        with ThreadPoolExecutor(max_workers=threads) as ex:
            return list(ex.map(run_job, jobs))
    return [run_job(j) for j in jobs]


def cover_checks(task, ctxs, outdir, timeout=5.0):
    """vacuity guard: the hypotheses of every completed path must be satisfiable"""
    out = []
    for pi, c in enumerate(ctxs):
        if getattr(c, "status", "") != "done":
            continue
        hs = _augment(list(c.axioms.values()) + c.hyps, None, True)
        script = T.smt_script(hs, None, produce_models=False)
        path = os.path.join(outdir, hashlib.sha1(f"{task.name}cover{pi}".encode()).hexdigest()[:16] + ".smt2")
        r = S.check(script, path, timeout=timeout, order=("z3-4.8", "z3-5.1"))
        out.append((pi, r["verdict"]))
        # reachability guards recorded by the task: conditions under which obligations were proved
        # must be satisfiable together with the path (else those obligations are vacuous)
        for k, (label, nhyps, cond) in enumerate(getattr(c, "reach", [])):
            hs = _augment(list(c.axioms.values()) + c.hyps[:nhyps] + [cond], None, True)
            script = T.smt_script(hs, None, produce_models=False)
            path = os.path.join(outdir, hashlib.sha1(f"{task.name}reach{pi}.{k}".encode()).hexdigest()[:16] + ".smt2")
            r = S.check(script, path, timeout=timeout, order=("z3-4.8", "z3-5.1"))
            out.append((f"{pi}:reach[{label}]", r["verdict"]))
    return out
