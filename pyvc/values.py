"""Symbolic value model of pyvc (see DESIGN.md 2.3 / 8).

Numbers      : python numbers or `Term` (Real/Int) for python floats with symbolic value.
Arr          : an array-like numeric value of one *dialect* ('np' numpy, 'cs' CasADi, 'abs' the
               abstract engine value of EngineSpec) - a view (offset, length) onto a Buf.
SSeq         : a sequence of symbolic length with an element closure (tuples from the link
               views, generator results, starred arguments).
ObjRef       : a reference term of sort Ref with a set of possible classes; fields live in the
               symbolic heap (uninterpreted functions of the reference).
LocalObj     : an object with a concrete identity and a python dict of attributes.
"""
from __future__ import annotations

import itertools

from . import terms as T

_ids = itertools.count(1)


class Unsupported(Exception):
    """the construct is outside the interpreted subset: obligations become undecided"""


class Buf:
    """a mutable numeric buffer: length term + element closure (Int term -> Real term)"""

    __slots__ = ("n", "elem", "owner", "ident", "mutable", "sct", "is_var", "prov", "symid", "pure_stack")

    def __init__(self, n, elem, owner="fresh", mutable=True):
        self.sct = None
        self.is_var = False
        self.prov = ()  # CasADi: ids of the symbols the expression depends on, in order of first appearance
        self.symid = None  # CasADi: the symbol this value *is* (pure symbol vector)
        self.pure_stack = False  # CasADi: a stack of distinct pure symbols
        self.n = T.lift(n, T.INT)
        self.elem = elem
        self.owner = owner  # 'fresh' | ('in', name) | ('heap', desc)
        self.ident = next(_ids)
        self.mutable = mutable


class Arr:
    """numeric array value.

    dialect 'np': kind in {'npscalar' (np.float64, immutable), 'a0' (0-d ndarray), 'a1' (1-D)}
    dialect 'cs': kind 'm' (n x 1 matrix, SX/MX/DM)
    dialect 'abs': kind in {'sc' (scalar produced by indexing / a reduction), 'vec'}
    """

    __slots__ = ("dialect", "kind", "buf", "lo", "n", "symtype")

    def __init__(self, dialect, kind, buf, lo=None, n=None, symtype=None):
        self.dialect, self.kind, self.buf = dialect, kind, buf
        self.lo = T.const(0, T.INT) if lo is None else T.lift(lo, T.INT)
        self.n = buf.n if n is None else T.lift(n, T.INT)
        self.symtype = symtype  # for 'cs': 'SX' | 'MX' | 'DM' | None (unknown)

    # element i of this view
    def at(self, i):
        return self.buf.elem(T.add(self.lo, T.lift(i, T.INT)))

    def scalar(self):
        return self.at(0)

    @property
    def is_scalar(self):
        return self.kind in ("npscalar", "a0", "sc")

    def __repr__(self):
        return f"<Arr {self.dialect}:{self.kind} n={self.n!r} owner={self.buf.owner}>"


def mk_scalar(dialect, kind, val, owner="fresh"):
    val = T.lift(val)
    if val.sort == T.INT:
        val = T.to_real(val)
    b = Buf(1, lambda i, v=val: v, owner, mutable=(kind in ("a0", "m", "sc") and dialect != "abs"))
    return Arr(dialect, kind, b)


def mk_vec(dialect, kind, n, elem, owner="fresh", symtype=None):
    return Arr(dialect, kind, Buf(n, elem, owner), symtype=symtype)


class SSeq:
    """immutable sequence of symbolic length; elem(i) -> any value"""

    __slots__ = ("n", "elem", "desc", "entries_of", "symtype", "permuted_entries_of")

    def __init__(self, n, elem, desc=""):
        self.n = T.lift(n, T.INT)
        self.elem = elem
        self.desc = desc
        self.entries_of = None
        self.permuted_entries_of = None
        self.symtype = None

    def __repr__(self):
        return f"<SSeq {self.desc} n={self.n!r}>"


class ObjRef:
    """symbolic reference; `classes` is the tuple of ClassValue it may be an instance of
    (None: any class) - the heap model decides field reads"""

    __slots__ = ("term", "classes", "heap")

    def __init__(self, term, classes, heap):
        self.term, self.classes, self.heap = term, classes, heap

    def __repr__(self):
        cn = "|".join(c.name for c in self.classes) if self.classes else "?"
        return f"<ObjRef {self.term!r}:{cn}>"

    def __hash__(self):
        return hash(self.term)

    def __eq__(self, other):
        return isinstance(other, ObjRef) and other.term is self.term


class LocalObj:
    __slots__ = ("cls", "attrs", "ident", "ref", "symbols")

    def __init__(self, cls, attrs=None, ref=None):
        self.symbols = None
        self.cls = cls
        self.attrs = {} if attrs is None else attrs
        self.ident = next(_ids)
        self.ref = ref  # optional Ref term naming this object in the symbolic heap

    def __repr__(self):
        return f"<LocalObj {self.cls.name}#{self.ident}>"


class OpaqueStr:
    """a string whose content is irrelevant (names, messages); parts kept for reporting"""

    __slots__ = ("parts",)

    def __init__(self, parts):
        self.parts = tuple(parts)

    def __repr__(self):
        return "OpaqueStr(" + "+".join(map(repr, self.parts)) + ")"

    def __hash__(self):
        return hash(self.parts)

    def __eq__(self, other):
        return isinstance(other, OpaqueStr) and other.parts == self.parts


class SymName:
    """the `.name` of a symbolic object: an opaque token identified by its owner term"""

    __slots__ = ("owner",)

    def __init__(self, owner):
        self.owner = owner

    def __repr__(self):
        return f"name({self.owner!r})"

    def __hash__(self):
        return hash(("SymName", self.owner))

    def __eq__(self, other):
        return isinstance(other, SymName) and other.owner == self.owner


class ClassValue:
    def __init__(self, name, qualname, bases, ns, module):
        self.name, self.qualname, self.bases, self.ns, self.module = name, qualname, bases, ns, module
        self.mro = self._mro()
        self.tag = None

    def _mro(self):
        out = [self]
        for b in self.bases:
            if isinstance(b, ClassValue):
                for c in b.mro:
                    if c not in out:
                        out.append(c)
        return out

    def lookup(self, name):
        for c in self.mro:
            if name in c.ns:
                return c.ns[name], c
        return None, None

    def issubclass(self, other):
        return other in self.mro

    def declares_attr(self, name):
        """does the source of this class (or a base) give its instances an attribute `name`
        (via __slots__ or an assignment `self.name = ...` in a method)?"""
        import ast

        for c in self.mro:
            slots = c.ns.get("__slots__") if hasattr(c, "ns") else None
            if isinstance(slots, (tuple, list)) and name in slots:
                return True
            for v in (c.ns.values() if hasattr(c, "ns") else ()):
                node = getattr(v, "node", None)
                if node is None:
                    continue
                for n in ast.walk(node):
                    if isinstance(n, ast.Attribute) and n.attr == name and isinstance(n.ctx, ast.Store) and isinstance(n.value, ast.Name) and n.value.id == "self":
                        return True
        return False

    def __repr__(self):
        return f"<class {self.qualname}>"


class FuncValue:
    def __init__(self, node, env, qualname, module, cls=None):
        self.node, self.env, self.qualname, self.module, self.cls = node, env, qualname, module, cls
        self.alias = None  # qualname of the function this one wraps (functools.wraps)
        self.wrapped = None
        self.is_generator = any(
            isinstance(n, (__import__("ast").Yield, __import__("ast").YieldFrom)) for n in _walk_own(node)
        )

    @property
    def name(self):
        return self.node.name

    def __repr__(self):
        return f"<func {self.qualname}>"


def _walk_own(fnode):
    """ast nodes of a function body excluding nested function/class bodies"""
    import ast

    stack = list(fnode.body)
    while stack:
        n = stack.pop()
        if isinstance(n, (ast.FunctionDef, ast.AsyncFunctionDef, ast.Lambda, ast.ClassDef)):
            continue
        yield n
        for c in ast.iter_child_nodes(n):
            if isinstance(c, (ast.FunctionDef, ast.AsyncFunctionDef, ast.Lambda, ast.ClassDef)):
                continue
            stack.append(c)


class BoundMethod:
    __slots__ = ("func", "self_obj")

    def __init__(self, func, self_obj):
        self.func, self.self_obj = func, self_obj

    def __repr__(self):
        return f"<bound {self.func!r} of {self.self_obj!r}>"


class StaticMethod:
    __slots__ = ("func",)

    def __init__(self, func):
        self.func = func


class PropertyValue:
    __slots__ = ("fget", "fset", "cached", "attrname")

    def __init__(self, fget, fset=None, cached=False, attrname=None):
        self.fget, self.fset, self.cached, self.attrname = fget, fset, cached, attrname


class Builtin:
    """a python-implemented primitive: fn(interp, args, kwargs) -> value"""

    __slots__ = ("name", "fn")

    def __init__(self, name, fn):
        self.name, self.fn = name, fn

    def __repr__(self):
        return f"<builtin {self.name}>"


class ModuleValue:
    def __init__(self, name, ns=None):
        self.name = name
        self.ns = {} if ns is None else ns

    def __repr__(self):
        return f"<module {self.name}>"


class ExcValue:
    """a raised exception instance"""

    __slots__ = ("cls_name", "args", "bases")

    def __init__(self, cls_name, args=(), bases=()):
        self.cls_name, self.args, self.bases = cls_name, args, bases

    def __repr__(self):
        return f"{self.cls_name}{self.args!r}"


class ExcClass:
    """builtin / library exception classes"""

    def __init__(self, name, bases=("Exception",)):
        self.name, self.bases = name, bases

    def __repr__(self):
        return f"<exc {self.name}>"


class SEnum:
    """a string known to be one of `options` (e.g. MeteredOnRamp.flow_eq_type)"""

    def __init__(self, term, options):
        self.term, self.options = term, tuple(options)

    def pyvc_eq(self, other):
        from . import terms as T

        if isinstance(other, str):
            if other not in self.options:
                return False
            return T.eq(self.term, self.options.index(other))
        if isinstance(other, SEnum) and other.options == self.options:
            return T.eq(self.term, other.term)
        return False

    def is_(self, s):
        return self.pyvc_eq(s)

    def __repr__(self):
        return f"<SEnum {self.term!r} in {self.options}>"
