"""Abstract collections for code that builds lists / dicts by looping over a symbolic number of
items (the layout functions of engines/casadi.py).

  MSeq   a sequence made of segments; segment s has a symbolic length n_s, and for an index i a
         guard (is there an item?) and an item - both evaluated lazily, by running the real
         expressions they come from (comprehension filters / element expressions) at index i;
  MDict  the same with (key, value) items: the result of a dict comprehension over an MSeq;
  AList  a python list whose contents are concrete items and *segments* `Seg`: "for every index
         i of the source segment, in order, the items the loop body appended at i";
  ADict  an ordered dict with concrete keys whose values may be ALists filled by a group-by loop
         (the key order of such entries is the order of first occurrence and is not modelled:
         `order_abstract`);
  VCat   casadi.vcat / vertcat of an AList / of the values of an ADict.

`for x in <MSeq>: body` is executed by a rule, not unrolled: the body is summarised at a generic
index of each segment (pyvc/summary.py: all paths, e.g. one per class of the element) with
recorders in place of the accumulators it mutates; the recorded operations must have one of the
known shapes
    list accumulators:   L.append(e) / L.extend(..)      -> the items are added to L as a segment
    group-by dict:       if k in D: D[k].append(e)  else: D[k] = [e]
                                                          -> e is added to the AList of key k
and anything else is Unsupported (undecided).  The effect on the accumulator is, by induction over
the segment, exactly what the segment denotes."""
from __future__ import annotations

import ast
import itertools

from . import terms as T
from .ctx import cur
from .summary import summarise
from .values import Builtin, Unsupported

_uid = itertools.count()


class Seg3:
    """one segment of an MSeq: n indices, guard(i) -> bool/Bool term, item(i) -> value"""

    def __init__(self, n, guard, item, tag):
        self.n, self.guard, self.item, self.tag = n, guard, item, tag


class MSeq:
    def __init__(self, segments, desc="mseq"):
        self.segments, self.desc = list(segments), desc

    # comprehension over this sequence: lazily, segment by segment
    def pyvc_comp(self, interp, node, env, kind):
        from .loops import _child_env

        g = node.generators[0]
        snapshot = dict(env.vars)

        def mk(seg):
            def bind(i):
                e2 = _child_env(interp, env)
                e2.vars.update(snapshot)
                interp.assign(g.target, seg.item(i), e2)
                return e2

            def guard(i):
                base = seg.guard(i)
                if base is False:
                    return False
                if not g.ifs:
                    return base
                c = cur()
                if base is not True and not c.decide(T.lift(base), "guard of the source item"):
                    return False
                e2 = bind(i)
                out = True
                for cond in g.ifs:
                    t = interp.truth_term(interp.eval(cond, e2))
                    if t is False:
                        return False
                    if t is not True:
                        out = t if out is True else T.and_(out, t)
                return out

            def item(i):
                e2 = bind(i)
                if kind == "dict":
                    return (interp.eval(node.key, e2), interp.eval(node.value, e2))
                return interp.eval(node.elt, e2)

            return Seg3(seg.n, guard, item, (node.lineno, node.col_offset, seg.tag))

        segs = [mk(s) for s in self.segments]
        if kind == "dict":
            # the keys must be the items' own identities (the elements): a key derived from an item - its
            # name, say - may coincide for two items, and the later entry then replaces the earlier one
            def key_is_item(seg0=self.segments[0] if self.segments else None):
                if seg0 is None:
                    return True
                from .summary import summarise as _sum
                from .values import LocalObj, ObjRef

                J = cur().fresh_index(seg0.n, "key")
                ok = []

                def probe():
                    g_ = seg0.guard(J)
                    if g_ is False:
                        return True
                    if g_ is not True and not cur().decide(T.lift(g_), "item present"):
                        return True
                    it0 = seg0.item(J)
                    e2 = _child_env(interp, env)
                    e2.vars.update(snapshot)
                    interp.assign(g.target, it0, e2)
                    k0 = interp.eval(node.key, e2)
                    parts = it0 if isinstance(it0, tuple) else (it0,)
                    return isinstance(k0, (LocalObj, ObjRef)) and any(k0 is p for p in parts)

                return all(p.kind == "ok" and p.value for p in _sum(probe))

            cur().oblige("post", f"the dict built at line {node.lineno} is keyed by the elements themselves (a key such as the element's name is not unique: entries of same-named elements would replace each other)",
                         T.const(bool(key_is_item())), assume_after=False)
        return MDict(segs, f"comp@{node.lineno}") if kind == "dict" else MSeq(segs, f"comp@{node.lineno}")

    def pyvc_iter(self, interp):
        raise Unsupported(f"python-level iteration over the abstract sequence {self.desc}")

    def pyvc_for(self, interp, node, env):
        return accumulate_loop(interp, node, self, env)


class MDict:
    """dict comprehension over an MSeq: items (key, value) at the guarded indices.  Keys are
    assumed pairwise distinct (the elements of a network)."""

    def __init__(self, segments, desc):
        self.segments, self.desc = segments, desc

    def _view(self, what):
        sel = {"items": lambda kv: kv, "keys": lambda kv: kv[0], "values": lambda kv: kv[1]}[what]
        return MSeq([Seg3(s.n, s.guard, (lambda i, s=s: sel(s.item(i))), (what, s.tag)) for s in self.segments], f"{self.desc}.{what}()")

    def pyvc_getattr(self, interp, name):
        if name in ("items", "keys", "values"):
            return Builtin(f"{self.desc}.{name}", lambda it, a, k: self._view(name))
        raise Unsupported(f"{self.desc}.{name}")

    def pyvc_iter(self, interp):
        raise Unsupported(f"python-level iteration over the abstract dict {self.desc}")

    def pyvc_for(self, interp, node, env):
        return accumulate_loop(interp, node, self._view("keys"), env)

    def as_mseq(self):
        return self._view("keys")


class Seg:
    """part of an AList: for every index of the source segment, in order, the items appended at it.
    cases(i) -> [(condition, [items])] over all paths of the loop body at index i"""

    def __init__(self, src, cases, tag):
        self.src, self.cases, self.tag = src, cases, tag
        self.n = src.n


class AList:
    def __init__(self, parts=()):
        self.parts = list(parts)

    def concrete(self):
        return not any(isinstance(p, (Seg, KeysRef, ValuesRef)) for p in self.parts)

    def pyvc_getattr(self, interp, name):
        if name == "append":
            return Builtin("alist.append", lambda it, a, k: self.parts.append(a[0]))
        if name == "extend":
            def ext(it, a, k):
                self.parts.extend(as_parts(it, a[0]))

            return Builtin("alist.extend", ext)
        if name == "copy":
            return Builtin("alist.copy", lambda it, a, k: AList(self.parts))
        if not hasattr(list, name):
            from .interp import PyRaise
            from .values import ExcValue

            raise PyRaise(ExcValue("AttributeError", (f"'list' object has no attribute {name!r}",), ("Exception",)))
        raise Unsupported(f"list method {name} on an abstract list")

    def pyvc_binop(self, interp, op, other, reflected):
        if op != "+":
            raise Unsupported(f"operator {op} on an abstract list")
        o = as_parts(interp, other)
        return AList(o + self.parts) if reflected else AList(self.parts + o)

    def pyvc_to_list(self, interp):
        return AList(self.parts)

    def pyvc_iter(self, interp):
        if not self.concrete():
            raise Unsupported("python-level iteration over an abstract list")
        return iter(list(self.parts))

    def pyvc_len(self, interp):
        if not self.concrete():
            raise Unsupported("len of an abstract list")
        return len(self.parts)

    def pyvc_truth(self, interp):
        if any(not isinstance(p, (Seg, KeysRef, ValuesRef)) for p in self.parts):
            return True
        if not self.parts:
            return False
        raise Unsupported("truth value of an abstract list")

    def pyvc_getitem(self, interp, idx):
        if isinstance(idx, int):
            rng = self.parts[: idx + 1] if idx >= 0 else self.parts[idx:]
            if not any(isinstance(p, (Seg, KeysRef, ValuesRef)) for p in rng) and -len(self.parts) <= idx < len(self.parts):
                if idx >= 0 or self.concrete():
                    return self.parts[idx]
        raise Unsupported("indexing an abstract list")


def as_parts(interp, x):
    if isinstance(x, AList):
        return list(x.parts)
    if isinstance(x, _KeyView):
        return [x.ref()]
    return list(interp.iterate(x))


class KeysRef:
    """the keys of an ADict, in its order, as part of an AList"""

    def __init__(self, d):
        self.d = d


class ValuesRef:
    def __init__(self, d):
        self.d = d


class _KeyView:
    def __init__(self, d, what):
        self.d, self.what = d, what

    def ref(self):
        if self.what == "items":
            raise Unsupported("list of the items of an abstract dict")
        return KeysRef(self.d) if self.what == "keys" else ValuesRef(self.d)

    def pyvc_to_list(self, interp):
        if not self.d.maybe_absent:
            return AList(list(self.pyvc_iter(interp)))
        return AList([self.ref()])

    def pyvc_iter(self, interp):
        d = self.d
        if d.order_abstract:
            # a python-level loop over the entries: its body must not depend on the order
            pass
        if self.what == "keys":
            return iter([k for k, _ in d.entries])
        if self.what == "values":
            return iter([v for _, v in d.entries])
        return iter([(k, v) for k, v in d.entries])


class ADict:
    def __init__(self, init=None):
        self.entries = [[k, v] for k, v in (init or {}).items()]
        self.order_abstract = False  # True once a group-by loop created keys (first-occurrence order)
        self.maybe_absent = set()  # keys created by a group-by loop: present iff some item has them
        self.uid = next(_uid)

    def _find(self, k):
        for e in self.entries:
            if e[0] == k:
                return e
        return None

    def pyvc_contains(self, interp, k):
        if not isinstance(k, str):
            raise Unsupported("abstract dict keyed by something else than a string")
        e = self._find(k)
        if e is None:
            return False
        if k in self.maybe_absent:
            raise Unsupported("membership test on a group-by entry outside the grouping loop")
        return True

    def pyvc_getitem(self, interp, k):
        e = self._find(k)
        if e is None:
            from .interp import PyRaise
            from .values import ExcValue

            raise PyRaise(ExcValue("KeyError", (k,), ("Exception",)))
        return e[1]

    def pyvc_setitem(self, interp, k, v):
        e = self._find(k)
        if e is None:
            self.entries.append([k, v])
        else:
            e[1] = v

    def pyvc_getattr(self, interp, name):
        if name in ("keys", "values", "items"):
            return Builtin(f"adict.{name}", lambda it, a, k: _KeyView(self, name))
        if name == "get":
            def get(it, a, k):
                e = self._find(a[0])
                if e is None:
                    return a[1] if len(a) > 1 else None
                if a[0] in self.maybe_absent:
                    raise Unsupported("get on a group-by entry")
                return e[1]

            return Builtin("adict.get", get)
        if not hasattr(dict, name):
            from .interp import PyRaise
            from .values import ExcValue

            raise PyRaise(ExcValue("AttributeError", (f"'dict' object has no attribute {name!r}",), ("Exception",)))
        raise Unsupported(f"dict method {name} on an abstract dict")

    def pyvc_iter(self, interp):
        return iter([k for k, _ in self.entries])

    def pyvc_len(self, interp):
        if self.maybe_absent:
            raise Unsupported("len of a dict with group-by entries")
        return len(self.entries)

    def pyvc_truth(self, interp):
        if self.maybe_absent:
            raise Unsupported("truth value of a dict with group-by entries")
        return bool(self.entries)

    def pyvc_as_mapping(self, interp):
        if self.maybe_absent:
            raise Unsupported("** of a dict with group-by entries")
        return {k: v for k, v in self.entries}


class VCat:
    """casadi.vcat / vertcat of abstract parts (AList parts, ValuesRef of an ADict, other VCats, Arr)"""

    def __init__(self, parts):
        self.parts = list(parts)


# ---- recorders -------------------------------------------------------------------------------------
class RecList:
    def __init__(self, name, key=None):
        self.name, self.key, self.ops = name, key, []

    def pyvc_getattr(self, interp, attr):
        if attr == "append":
            return Builtin("rec.append", lambda it, a, k: self.ops.append(("append", a[0])))
        if attr == "extend":
            def ext(it, a, k):
                for x in it.iterate(a[0]):
                    self.ops.append(("append", x))

            return Builtin("rec.extend", ext)
        raise Unsupported(f"list method {attr} inside a loop over an abstract collection")


class RecDict:
    """stands for a dict accumulator while one iteration is summarised"""

    def __init__(self, name, real):
        self.name, self.real, self.ops = name, real, []
        self.answers = {}

    def pyvc_contains(self, interp, k):
        if not isinstance(k, str):
            raise Unsupported("group-by key is not a string")
        if k in self.answers:
            return self.answers[k]
        e = self.real._find(k)
        if e is not None and k not in self.real.maybe_absent:
            ans = True
        else:
            seen = T.fresh(f"seen_{k}", T.BOOL)  # whether an earlier item created the group: both cases
            ans = cur().decide(seen, f"group {k!r} exists already")
        self.answers[k] = ans
        self.ops.append(("in", k, ans))
        return ans

    def pyvc_getitem(self, interp, k):
        if self.answers.get(k) is not True:
            # the group may not exist: python raises KeyError on that path
            from .interp import PyRaise
            from .values import ExcValue

            raise PyRaise(ExcValue("KeyError", (k,), ("Exception",)))
        r = RecList(self.name, k)
        self.ops.append(("get", k, r))
        return r

    def pyvc_setitem(self, interp, k, v):
        self.ops.append(("set", k, v))

    def pyvc_getattr(self, interp, name):
        if name == "setdefault":
            def setdefault(it, a, kw):
                k = a[0]
                default = a[1] if len(a) > 1 else None
                if self.pyvc_contains(it, k):
                    return self.pyvc_getitem(it, k)
                r = RecList(self.name, k)
                self.ops.append(("setdefault-new", k, default, r))
                return r

            return Builtin("recdict.setdefault", setdefault)
        raise Unsupported(f"dict method {name} inside a loop over an abstract collection")


def _accumulators(body):
    """names of the containers the loop body mutates: X.append/extend(..), X[k] = .., X[k].append(..)"""
    out = {}
    for st in body:
        for n in ast.walk(st):
            if isinstance(n, ast.Call) and isinstance(n.func, ast.Attribute) and n.func.attr in ("append", "extend"):
                v = n.func.value
                if isinstance(v, ast.Name):
                    out.setdefault(v.id, set()).add("list")
                elif isinstance(v, ast.Subscript) and isinstance(v.value, ast.Name):
                    out.setdefault(v.value.id, set()).add("dict")
                elif isinstance(v, ast.Call) and isinstance(v.func, ast.Attribute) and v.func.attr in ("setdefault", "get") and isinstance(v.func.value, ast.Name):
                    out.setdefault(v.func.value.id, set()).add("dict")
            if isinstance(n, (ast.Assign, ast.AugAssign)):
                for t in (n.targets if isinstance(n, ast.Assign) else [n.target]):
                    if isinstance(t, ast.Subscript) and isinstance(t.value, ast.Name):
                        out.setdefault(t.value.id, set()).add("dict")
    return out


def accumulate_loop(interp, node, mseq, env):
    from .loops import _child_env
    from .interp import PyRaise, ContinueEx, BreakEx

    c = cur()
    if node.orelse:
        raise Unsupported("for/else over an abstract collection")
    accs = _accumulators(node.body)
    objs = {}
    for name in accs:
        try:
            o = interp.lookup(name, env)
        except Exception:
            continue  # a local of the body
        if isinstance(o, (AList, ADict)):
            objs[name] = o
        elif isinstance(o, (list, dict)):
            raise Unsupported(f"loop over an abstract collection mutates the concrete container {name}")
    snapshot = dict(env.vars)
    for seg in mseq.segments:
        def cases_at(i, seg=seg):
            def run_once():
                cc = cur()
                g = seg.guard(i)
                if g is False:
                    return None
                if g is not True and not cc.decide(T.lift(g), "the source has an item at this index"):
                    return None
                e2 = _child_env(interp, env)
                e2.vars.update(snapshot)
                recs = {}
                for name, o in objs.items():
                    recs[name] = RecList(name) if isinstance(o, AList) else RecDict(name, o)
                    e2.vars[name] = recs[name]
                interp.assign(node.target, seg.item(i), e2)
                try:
                    interp.exec_block(node.body, e2)
                except ContinueEx:
                    pass  # `continue`: this iteration ends here
                except BreakEx:
                    raise Unsupported("`break` inside a loop over an abstract collection")
                return {name: r.ops for name, r in recs.items()}

            out = []
            for p in summarise(run_once):
                if p.kind == "raise":
                    out.append((p.cond, ("raise", p.value)))
                else:
                    out.append((p.cond, p.value))
            return out

        J = c.fresh_index(seg.n, "acc")
        generic = cases_at(J)
        raising = [cond for cond, v in generic if isinstance(v, tuple) and v and v[0] == "raise"]
        kinds = sorted({v[1].cls_name for cond, v in generic if isinstance(v, tuple) and v and v[0] == "raise"})
        c.oblige("safe", f"the loop at line {node.lineno} raises nothing at any item (found {kinds})", T.not_(T.or_(*raising)) if raising else T.TRUE, assume_after=False)
        for name, o in objs.items():
            if isinstance(o, AList):
                _absorb_list(o, name, seg, cases_at, generic, node)
            else:
                _absorb_groupby(c, o, name, seg, cases_at, generic, node)


def _absorb_list(o, name, seg, cases_at, generic, node):
    for cond, v in generic:
        if isinstance(v, dict):
            for op in v[name]:
                if op[0] != "append":
                    raise Unsupported(f"list accumulator {name}: operation {op[0]}")

    def cases(i, name=name):
        out = []
        for cond, v in cases_at(i):
            if isinstance(v, dict):
                out.append((cond, [op[1] for op in v[name]]))
            elif v is None:
                out.append((cond, []))
        return out

    o.parts.append(Seg(seg, cases, (node.lineno, name, seg.tag)))


def _groupby_shape(ops):
    """per key touched on one path: ('new', x) or ('add', x) if the operations are exactly the
    group-by idiom, else None"""
    res = {}
    keys = []
    for op in ops:
        k = op[1]
        if k not in keys:
            keys.append(k)
    for k in keys:
        mine = [op for op in ops if op[1] == k]
        if len(mine) == 2 and mine[0][0] == "in" and mine[0][2] is True and mine[1][0] == "get" and len(mine[1][2].ops) == 1 and mine[1][2].ops[0][0] == "append":
            res[k] = ("add", mine[1][2].ops[0][1])
        elif len(mine) == 2 and mine[0][0] == "in" and mine[0][2] is False and mine[1][0] == "set":
            v = mine[1][2]
            if isinstance(v, AList) and len(v.parts) == 1 and v.concrete():
                res[k] = ("new", v.parts[0])
            elif isinstance(v, list) and len(v) == 1:
                res[k] = ("new", v[0])
            else:
                res[k] = ("bad", "a new group does not start as the one-element list of the item")
        elif len(mine) == 2 and mine[0][0] == "in" and mine[0][2] is False and mine[1][0] == "setdefault-new":
            default, r = mine[1][2], mine[1][3]
            empty = (isinstance(default, AList) and not default.parts) or (isinstance(default, list) and not default)
            if empty and len(r.ops) == 1 and r.ops[0][0] == "append":
                res[k] = ("new", r.ops[0][1])
            else:
                res[k] = ("bad", "a new group does not start as the one-element list of the item")
        elif len(mine) == 2 and mine[0][0] == "in" and mine[0][2] is True and mine[1][0] == "set":
            res[k] = ("bad", "an existing group is replaced instead of extended")
        else:
            res[k] = ("unknown", [m[0] for m in mine])
    return res, keys


def _absorb_groupby(c, o, name, seg, cases_at, generic, node):
    touched = []
    for cond, v in generic:
        if not isinstance(v, dict):
            continue
        shape, keys = _groupby_shape(v[name])
        for k in keys:
            kind = shape[k][0]
            if kind == "unknown":
                raise Unsupported(f"dict accumulator {name}: operations {shape[k][1]} on key {k!r} are not the group-by idiom")
            c.oblige("post", f"grouping loop at line {node.lineno}: the variable is added to the group of its name, which is created on first use ({shape[k][1] if kind == 'bad' else 'ok'})",
                     T.implies(cond, T.const(kind != "bad")), assume_after=False)
            if k not in touched:
                touched.append(k)
    for k in touched:
        def cases(i, k=k, name=name):
            out = []
            for cond, v in cases_at(i):
                if isinstance(v, dict):
                    shape, keys = _groupby_shape(v[name])
                    if k in shape and shape[k][0] in ("add", "new"):
                        out.append((cond, [shape[k][1]]))
                    else:
                        out.append((cond, []))
                elif v is None:
                    out.append((cond, []))
            return out

        e = o._find(k)
        if e is None:
            lst = AList()
            o.entries.append([k, lst])
            o.maybe_absent.add(k)
            o.order_abstract = True
        else:
            lst = e[1]
            if not isinstance(lst, AList):
                raise Unsupported(f"group {k!r} is not a list")
        lst.parts.append(Seg(seg, cases, (node.lineno, name, k, seg.tag)))
