"""Loops and comprehensions over symbolic-length sequences (DESIGN.md 2.6).

* comprehension / generator expression over an SSeq: the result is an SSeq whose element
  closure re-evaluates the element expression of the real AST with the target bound to the
  i-th item (no unrolling, no bound);
* `for` over an SSeq whose body only appends pure expressions to local lists ("map idiom");
* any other loop over a symbolic sequence needs a registered loop rule (invariant) and is
  otherwise Unsupported -> undecided.
"""
from __future__ import annotations

import ast

from . import terms as T
from .ctx import cur
from .values import SSeq, Unsupported


def _child_env(interp, env):
    from .interp import Env

    e = Env(parent=env, module=env.module)
    e.func = None
    e.cls = None
    return e


def eval_comprehension(interp, node, env, kind):
    from .interp import _SymbolicIterationNeeded, _Iter

    gens = node.generators
    if any(g.is_async for g in gens):
        raise Unsupported("async comprehension")
    # evaluate the first iterable in the enclosing scope (python semantics)
    first_iter = interp.eval(gens[0].iter, env)
    sym = None
    if isinstance(first_iter, SSeq) and not T.is_const(first_iter.n):
        sym = first_iter
    else:
        try:
            items0 = list(interp.iterate(first_iter))
        except _SymbolicIterationNeeded as e:
            sym = e.seq
    if sym is not None:
        if len(gens) != 1:
            raise Unsupported("nested comprehension over a symbolic sequence")
        g = gens[0]
        rule = getattr(interp, "comp_rule", None)
        if g.ifs or kind == "dict":
            if rule is not None:
                r = rule(interp, node, sym, env, kind)
                if r is not NotImplemented:
                    return r
            raise Unsupported("filtered / dict comprehension over a symbolic sequence")
        snapshot = dict(env.vars)

        def elem(i, _node=node, _g=g):
            e2 = _child_env(interp, env)
            e2.vars.update(snapshot)
            interp.assign(_g.target, sym.elem(i), e2)
            return interp.eval(_node.elt, e2)

        # evaluate once at a generic index so that the body's own obligations are recorded
        c = cur()
        j = c.fresh_index(sym.n, "c")
        nd = len(c.decisions)
        elem(j)
        if len(c.decisions) != nd:
            raise Unsupported("comprehension body branches on a per-item condition")
        seq = SSeq(sym.n, elem, f"comp@{node.lineno}")
        if kind == "list":
            return seq
        return seq

    results = []
    dres = {}

    def rec(k, e2):
        if k == len(gens):
            if kind == "dict":
                key = interp.eval(node.key, e2)
                dres[key] = interp.eval(node.value, e2)
            else:
                results.append(interp.eval(node.elt, e2))
            return
        g = gens[k]
        it = items0 if k == 0 else list(interp.iterate(interp.eval(g.iter, e2)))
        for item in it:
            interp.assign(g.target, item, e2)
            ok = True
            for cond in g.ifs:
                if not interp.truth(interp.eval(cond, e2), why=f"comp-if@{node.lineno}"):
                    ok = False
                    break
            if ok:
                rec(k + 1, e2)

    rec(0, _child_env(interp, env))
    if kind == "dict":
        return dres
    if kind == "gen":
        return _Iter(results)
    return results


def _append_targets(body):
    """names X for a body consisting only of `X.append(expr)` statements, else None"""
    out = []
    for st in body:
        if not (isinstance(st, ast.Expr) and isinstance(st.value, ast.Call)):
            return None
        call = st.value
        f = call.func
        if not (isinstance(f, ast.Attribute) and f.attr == "append" and isinstance(f.value, ast.Name)):
            return None
        if len(call.args) != 1 or call.keywords or isinstance(call.args[0], ast.Starred):
            return None
        out.append((f.value.id, call.args[0]))
    return out


def exec_symbolic_for(interp, node, seq, env):
    c = cur()
    if T.is_const(seq.n):
        from .interp import BreakEx, ContinueEx

        for k in range(T.cval(seq.n)):
            interp.assign(node.target, seq.elem(T.const(k, T.INT)), env)
            try:
                interp.exec_block(node.body, env)
            except ContinueEx:
                continue
            except BreakEx:
                break
        else:
            interp.exec_block(node.orelse, env)
        return
    # registered loop rule (invariant / foreach contract)?
    fn = None
    e = env
    while e is not None:
        if e.func is not None:
            fn = e.func
            break
        e = e.parent
    rules = getattr(interp, "loop_rules", {})
    if fn is not None:
        key = (fn.alias or fn.qualname, _loop_ordinal(fn.node, node))
        rule = rules.get(key)
        if rule is not None:
            return rule(interp, node, seq, env)
    if node.orelse:
        raise Unsupported("for/else over a symbolic sequence")
    apps = _append_targets(node.body)
    if apps is None:
        raise Unsupported(f"loop over a symbolic sequence at line {node.lineno} is not a pure map and has no invariant")
    names = [n for n, _ in apps]
    if len(set(names)) != len(names):
        raise Unsupported("several appends to one list per iteration")
    for n in names:
        lst = interp.lookup(n, env)
        if not (isinstance(lst, list) and len(lst) == 0):
            raise Unsupported("map-idiom loop appends to a non-empty or non-list target")
    snapshot = dict(env.vars)
    for n, expr in apps:

        def elem(i, _expr=expr):
            e2 = _child_env(interp, env)
            e2.vars.update(snapshot)
            interp.assign(node.target, seq.elem(i), e2)
            return interp.eval(_expr, e2)

        j = c.fresh_index(seq.n, "m")
        nd = len(c.decisions)
        elem(j)
        if len(c.decisions) != nd:
            raise Unsupported("loop body branches on a per-item condition")
        env.vars[n] = SSeq(seq.n, elem, f"{n}@{node.lineno}")
    # python leaves the loop variable bound to the last item
    last = seq.elem(T.sub(seq.n, 1))
    try:
        interp.assign(node.target, last, env)
    except Exception:
        pass


def _loop_ordinal(fnode, loop):
    k = 0
    for n in ast.walk(fnode):
        if isinstance(n, (ast.For, ast.While)):
            if n is loop:
                return k
            k += 1
    return -1
