"""Loops and comprehensions over symbolic-length sequences (DESIGN.md 2.6).

* comprehension / generator expression over an SSeq: the result is an SSeq whose element
  closure re-evaluates the element expression of the real AST with the target bound to the
  i-th item (no unrolling, no bound);
* `for` over an SSeq whose body only appends pure expressions to local lists ("map idiom");
* any other loop over a symbolic sequence needs a registered loop rule (invariant) and is
  otherwise Unsupported -> undecided.
"""
from __future__ import annotations

import ast

from . import terms as T
from .ctx import cur
from .values import SSeq, Unsupported


def _child_env(interp, env):
    from .interp import Env

    e = Env(parent=env, module=env.module)
    e.func = None
    e.cls = None
    return e


def eval_comprehension(interp, node, env, kind):
    from .interp import _SymbolicIterationNeeded, _Iter

    gens = node.generators
    if any(g.is_async for g in gens):
        raise Unsupported("async comprehension")
    # evaluate the first iterable in the enclosing scope (python semantics)
    first_iter = interp.eval(gens[0].iter, env)
    from . import arrays as _A

    if isinstance(first_iter, _A.SIntList):
        _lst = first_iter
        first_iter = SSeq(_lst.n, lambda k, _lst=_lst: _lst.at(k), f"items of {_lst.name}")
    if hasattr(first_iter, "pyvc_comp"):
        if len(gens) != 1:
            raise Unsupported("nested comprehension over an abstract collection")
        return first_iter.pyvc_comp(interp, node, env, kind)
    sym = None
    if isinstance(first_iter, SSeq) and not T.is_const(first_iter.n):
        sym = first_iter
    else:
        try:
            items0 = list(interp.iterate(first_iter))
        except _SymbolicIterationNeeded as e:
            sym = e.seq
    if sym is not None:
        if len(gens) != 1:
            raise Unsupported("nested comprehension over a symbolic sequence")
        g = gens[0]
        rule = getattr(interp, "comp_rule", None)
        if g.ifs or kind == "dict":
            if rule is not None:
                r = rule(interp, node, sym, env, kind)
                if r is not NotImplemented:
                    return r
            raise Unsupported("filtered / dict comprehension over a symbolic sequence")
        snapshot = dict(env.vars)

        def elem(i, _node=node, _g=g):
            e2 = _child_env(interp, env)
            e2.vars.update(snapshot)
            interp.assign(_g.target, sym.elem(i), e2)
            return interp.eval(_node.elt, e2)

        # evaluate once at a generic index so that the body's own obligations are recorded
        c = cur()
        j = c.fresh_index(sym.n, "c")
        nd = len(c.decisions)
        elem(j)
        if len(c.decisions) != nd:
            raise Unsupported("comprehension body branches on a per-item condition")
        seq = SSeq(sym.n, elem, f"comp@{node.lineno}")
        if kind == "list":
            return seq
        return seq

    results = []
    dres = {}

    def rec(k, e2):
        if k == len(gens):
            if kind == "dict":
                key = interp.eval(node.key, e2)
                dres[key] = interp.eval(node.value, e2)
            else:
                results.append(interp.eval(node.elt, e2))
            return
        g = gens[k]
        it = items0 if k == 0 else list(interp.iterate(interp.eval(g.iter, e2)))
        for item in it:
            interp.assign(g.target, item, e2)
            ok = True
            for cond in g.ifs:
                if not interp.truth(interp.eval(cond, e2), why=f"comp-if@{node.lineno}"):
                    ok = False
                    break
            if ok:
                rec(k + 1, e2)

    rec(0, _child_env(interp, env))
    if kind == "dict":
        hook = getattr(interp, "display_hook", None)
        if hook is not None:
            r = hook(interp, "dict", dres, env)
            if r is not None:
                src = getattr(first_iter, "d", None)  # a view of an abstract dict: keep what is known about its keys
                if src is not None and hasattr(src, "maybe_absent") and hasattr(r, "maybe_absent"):
                    r.maybe_absent = {k for k, _ in r.entries if k in src.maybe_absent}
                    r.order_abstract = src.order_abstract
                return r
        return dres
    if kind == "gen":
        return _Iter(results)
    return results


class _Collector:
    """stands for a list that a map-style loop appends to, while one iteration is evaluated"""

    def __init__(self, name):
        self.name = name
        self.items = []

    def pyvc_getattr(self, interp, attr):
        from .values import Builtin

        if attr == "append":
            return Builtin("collector.append", lambda it, a, k: self.items.append(a[0]))
        raise Unsupported(f"list method {attr} inside a map-style loop")


def _map_loop_shape(body):
    """a loop body that is a *map*: simple assignments to local names and `X.append(expr)` calls.
    Returns (appended list names, assigned local names) or None."""
    apps, assigned = [], []
    for st in body:
        if isinstance(st, ast.Expr) and isinstance(st.value, ast.Call):
            f = st.value.func
            if isinstance(f, ast.Attribute) and f.attr == "append" and isinstance(f.value, ast.Name) \
                    and len(st.value.args) == 1 and not st.value.keywords and not isinstance(st.value.args[0], ast.Starred):
                apps.append(f.value.id)
                continue
            return None
        if isinstance(st, ast.Assign) and all(isinstance(t, (ast.Name, ast.Tuple)) for t in st.targets):
            for t in st.targets:
                for n in ast.walk(t):
                    if isinstance(n, ast.Name):
                        assigned.append(n.id)
                    elif not isinstance(n, (ast.Tuple, ast.Store, ast.Load)):
                        return None
            continue
        if isinstance(st, ast.AnnAssign) and isinstance(st.target, ast.Name) and st.value is not None:
            assigned.append(st.target.id)
            continue
        if isinstance(st, ast.Expr) and isinstance(st.value, ast.Constant):
            continue
        return None
    if len(set(apps)) != len(apps) or not apps:
        return None
    if set(apps) & set(assigned):
        return None
    return apps, assigned


def _yield_loop_shape(body):
    """nested `for` loops whose innermost statements are plain `yield expr`"""
    if not body:
        return False
    seen_yield = False
    for st in body:
        if isinstance(st, ast.Expr) and isinstance(st.value, ast.Yield):
            seen_yield = True
            continue
        if isinstance(st, ast.For) and not st.orelse and _yield_loop_shape(st.body):
            seen_yield = True
            continue
        if isinstance(st, ast.Assign) and all(isinstance(t, (ast.Name, ast.Tuple)) for t in st.targets):
            continue  # a local temporary
        if isinstance(st, ast.AnnAssign) and isinstance(st.target, ast.Name) and st.value is not None:
            continue
        return False
    return seen_yield


def _search_loop_shape(body):
    """`for x in seq: if cond(x): raise ...` (one or several such ifs) - a universal check"""
    if not body:
        return False
    for st in body:
        if not isinstance(st, ast.If) or st.orelse:
            return False
        b = st.body
        if not (len(b) >= 1 and isinstance(b[-1], ast.Raise) and all(isinstance(x, (ast.Raise, ast.Expr)) for x in b)):
            return False
    return True


def _exec_search_loop(interp, node, seq, env):
    """either some item satisfies the condition (the loop raises at the first such item) or none
    does: decided once, with a skolem witness / an assumed universal fact"""
    c = cur()
    ifs = list(node.body)
    snapshot = dict(env.vars)

    def cond_at(i):
        e2 = _child_env(interp, env)
        e2.vars.update(snapshot)
        interp.assign(node.target, seq.elem(i), e2)
        ts = [T.lift(interp.truth_term(interp.eval(ifn.test, e2))) for ifn in ifs]
        return T.or_(*ts)

    some = T.fresh("some_item_fails", T.BOOL)
    w = T.fresh("w", T.INT)
    c.axiom(T.implies(some, T.and_(T.le(0, w), T.lt(w, seq.n), cond_at(w))))
    c.last_search = {"seq": seq, "witness": w, "some": some}
    if c.decide(some, f"loop@{node.lineno}: some item satisfies the raising condition"):
        interp.assign(node.target, seq.elem(w), env)
        for ifn in ifs:  # the first test that holds at the witness raises
            if interp.truth(interp.eval(ifn.test, env), why=f"if@{ifn.lineno}"):
                interp.exec_block(ifn.body, env)
        from .ctx import Infeasible

        raise Infeasible()  # the assumed disjunction guarantees that one of them fired
    c.assume_forall(seq.n, lambda i: T.not_(cond_at(i)))
    try:
        interp.assign(node.target, seq.elem(T.sub(seq.n, 1)), env)
    except Exception:
        pass


def exec_symbolic_for(interp, node, seq, env):
    c = cur()
    if T.is_const(seq.n):
        from .interp import BreakEx, ContinueEx

        for k in range(T.cval(seq.n)):
            interp.assign(node.target, seq.elem(T.const(k, T.INT)), env)
            try:
                interp.exec_block(node.body, env)
            except ContinueEx:
                continue
            except BreakEx:
                break
        else:
            interp.exec_block(node.orelse, env)
        return
    # registered loop rule (invariant / foreach contract)?
    fn = None
    e = env
    while e is not None:
        if e.func is not None:
            fn = e.func
            break
        e = e.parent
    rules = getattr(interp, "loop_rules", {})
    if fn is not None:
        key = (fn.alias or fn.qualname, _loop_ordinal(fn.node, node))
        rule = rules.get(key)
        if rule is not None:
            return rule(interp, node, seq, env)
    if node.orelse:
        raise Unsupported("for/else over a symbolic sequence")
    if _search_loop_shape(node.body):
        return _exec_search_loop(interp, node, seq, env)
    if _yield_loop_shape(node.body):
        # generator: one generic item per (nested) loop level
        e = env
        while e is not None and "$yield" not in e.vars:
            e = e.parent
        if e is not None:
            e.vars["$yield_symbolic"] = True
            j = c.fresh_index(seq.n, "y")
            interp.assign(node.target, seq.elem(j), env)
            interp.exec_block(node.body, env)
            return
    shape = _map_loop_shape(node.body)
    if shape is None:
        raise Unsupported(f"loop over a symbolic sequence at line {node.lineno} is not a pure map and has no invariant")
    names, assigned = shape
    for n in names:
        lst = interp.lookup(n, env)
        if not (isinstance(lst, list) and len(lst) == 0):
            raise Unsupported("map-style loop appends to a non-empty or non-list target")
    snapshot = dict(env.vars)

    def iteration(i):
        """evaluate one iteration on a copy of the scope; returns {list name: appended value}"""
        e2 = _child_env(interp, env)
        e2.vars.update(snapshot)
        cols = {n: _Collector(n) for n in names}
        e2.vars.update(cols)
        interp.assign(node.target, seq.elem(i), e2)
        interp.exec_block(node.body, e2)
        return {n: cols[n].items[0] for n in names}, e2

    j = c.fresh_index(seq.n, "m")
    nd = len(c.decisions)
    iteration(j)
    if len(c.decisions) != nd:
        raise Unsupported("loop body branches on a per-item condition")
    for n in names:
        env.vars[n] = SSeq(seq.n, (lambda i, _n=n: iteration(i)[0][_n]), f"{n}@{node.lineno}")
    # python leaves the loop variable and the body's locals bound to the last iteration's values
    try:
        _, elast = iteration(T.sub(seq.n, 1))
        for k in assigned:
            if k in elast.vars:
                env.vars[k] = elast.vars[k]
        interp.assign(node.target, seq.elem(T.sub(seq.n, 1)), env)
    except Unsupported:
        raise
    except Exception:
        pass


def _loop_ordinal(fnode, loop):
    loops = sorted((n for n in ast.walk(fnode) if isinstance(n, (ast.For, ast.While))), key=lambda n: (n.lineno, n.col_offset))
    for k, n in enumerate(loops):
        if n is loop:
            return k
    return -1
