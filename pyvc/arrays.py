"""Assumed semantics of numeric array values for the three dialects (DESIGN.md 2.7):

 'np'  numpy >= 2: kinds npscalar (np.float64, immutable), a0 (0-d ndarray), a1 (1-D ndarray)
 'cs'  CasADi SX/MX/DM column matrices (kind 'm'); a python number behaves like a 1x1 matrix
 'abs' the abstract engine value the element layer is verified against: 'sc' (anything
       scalar-like either engine can hand out: np.float64, 0-d, length-1 array, 1x1 matrix) and
       'vec' (1-D array / n x 1 matrix). Only operations valid in *both* concrete dialects are
       allowed on it.

Everything here is part of the trusted base and is sampled against the real libraries by
assumed/conformance.py.
"""
from __future__ import annotations

from . import terms as T
from .ctx import cur
from .values import Arr, Buf, SSeq, Unsupported, mk_scalar, mk_vec

BV = T.var("%i", T.INT)  # bound variable of sum bodies

ZERO = T.const(0, T.INT)
ONE = T.const(1, T.INT)


def is_num(x):
    return isinstance(x, (int, float)) and not isinstance(x, bool) or isinstance(x, T.Term) and x.sort in (T.REAL, T.INT)


def is_numlike(x):
    return is_num(x) or isinstance(x, Arr)


class SIntList:
    """python list of ints with symbolic length (LinkWithVsl.vsl): strictly increasing, in
    [0, bound); pos is its partial inverse (pos(j) = k iff elem(k) = j, else -1)"""

    def __init__(self, name, n, bound):
        self.name = name
        self.n = n
        self.bound = bound
        self._el = T.uf(f"{name}.at", [T.INT], T.INT)
        self._pos = T.uf(f"{name}.pos", [T.INT], T.INT)

    def at(self, k):
        k = T.lift(k, T.INT)
        v = self._el(k)
        c = cur()
        inr = T.and_(T.le(0, k), T.lt(k, self.n))
        if self.bound is None:  # a sorted list of distinct ints of unknown range
            c.axiom(T.implies(inr, T.eq(self._pos(v), k)))
        else:
            c.axiom(T.implies(inr, T.and_(T.le(0, v), T.lt(v, self.bound), T.eq(self._pos(v), k))))
        return v

    def pos(self, j):
        j = T.lift(j, T.INT)
        p = self._pos(j)
        c = cur()
        c.axiom(T.or_(T.eq(p, -1), T.and_(T.le(0, p), T.lt(p, self.n), T.eq(self._el(p), j))))
        return p

    def monotone_instance(self, k1, k2):
        cur().axiom(T.implies(T.and_(T.le(0, k1), T.lt(k1, k2), T.lt(k2, self.n)), T.lt(self._el(k1), self._el(k2))))


# ----------------------------------------------------------------------------------
# classification


def freeze(x):
    """value snapshot of an operand: later in-place writes to x's buffer are not seen"""
    if not isinstance(x, Arr):
        return x
    b = Buf(x.buf.n, x.buf.elem, x.buf.owner, mutable=False)
    b.sct, b.is_var, b.prov, b.symid, b.pure_stack = x.buf.sct, x.buf.is_var, x.buf.prov, x.buf.symid, x.buf.pure_stack
    return Arr(x.dialect, x.kind, b, x.lo, x.n, x.symtype)


def dialect_of(*xs):
    d = None
    for x in xs:
        if isinstance(x, Arr):
            if d is None:
                d = x.dialect
            elif d != x.dialect:
                raise Unsupported(f"mixing array dialects {d} and {x.dialect}")
    return d


def length(x):
    """length term of a numeric operand for broadcasting (scalars: 1)"""
    if isinstance(x, Arr):
        return ONE if x.is_scalar else x.n
    return ONE


def at(x, i):
    """element i (Real term; Bool for comparison results) of a numeric operand with scalar broadcasting"""
    if isinstance(x, Arr):
        if x.is_scalar:
            return x.at(0)
        if T.is_const(x.n) and T.cval(x.n) == 1:
            return x.at(0)
        return x.at(i)
    t = T.lift(x)
    return T.to_real(t) if t.sort == T.INT else t


def at_b(x, i, n):
    """element i of x broadcast to length n (x has length n or 1)"""
    if isinstance(x, Arr) and not x.is_scalar:
        if x.n is n:
            return x.at(i)
        if T.is_const(x.n):
            return x.at(0) if T.cval(x.n) == 1 else x.at(i)
        return x.at(T.ite(T.eq(x.n, 1), ZERO, i))
    return at(x, i)


def scalar_value(x):
    return at(x, 0)


def _result_kind(dialect, ops):
    if dialect == "np":
        return "a1" if any(isinstance(o, Arr) and o.kind == "a1" for o in ops) else "npscalar"
    if dialect == "cs":
        return "m"
    return "vec" if any(isinstance(o, Arr) and o.kind == "vec" for o in ops) else "sc"


def _symtype(ops):
    st = None
    for o in ops:
        if isinstance(o, Arr) and o.symtype is not None:
            if o.symtype in ("SX", "MX"):
                return o.symtype
            st = st or o.symtype
    return st


def sct_of(x):
    """abstract scalar 'shape class' (0: 0-d like, 1: length-1 vector) of an abs scalar"""
    if isinstance(x, Arr) and x.dialect == "abs" and x.kind == "sc":
        return x.buf.sct if x.buf.sct is not None else ZERO
    return ZERO


def _mk(dialect, kind, n, elem, ops=(), owner="fresh"):
    if kind in ("npscalar", "sc", "a0"):
        a = mk_scalar(dialect, kind, elem(ZERO), owner)
        if dialect == "abs":
            s = ZERO
            for o in ops:
                so = sct_of(o)
                s = T.smax(s, so)
            a.buf.sct = s
        return a
    a = mk_vec(dialect, kind, n, elem, owner, symtype=_symtype(ops))
    if dialect == "cs":
        a.buf.prov = merge_prov(ops)
    return a


def merge_prov(ops):
    out = []
    for o in ops:
        if isinstance(o, Arr):
            for p in o.buf.prov:
                if p not in out:
                    out.append(p)
    return tuple(out)


def broadcast_len(ops, what):
    """common length of the non-scalar operands; records the `shape` obligation"""
    c = cur()
    n = None
    for o in ops:
        if isinstance(o, Arr) and not o.is_scalar:
            if n is None:
                n = o.n
            elif o.n is not n:
                if T.is_const(n) and T.cval(n) == 1:
                    n = o.n
                elif T.is_const(o.n) and T.cval(o.n) == 1:
                    pass
                else:
                    c.oblige("shape", f"{what}: operands broadcast", T.or_(T.eq(n, o.n), T.eq(n, 1), T.eq(o.n, 1)))
                    n = T.ite(T.eq(n, 1), o.n, n)
    return ONE if n is None else n


# ----------------------------------------------------------------------------------
# definedness of partial operations


def defined_forall(n, cond_at, what):
    """obligation: for all 0 <= i < n. cond_at(i)  (only in contracts over the admissible domain)"""
    c = cur()
    if not c.check_defined:
        return
    if T.is_const(n) and T.cval(n) == 1:
        c.oblige("defined", what, cond_at(ZERO), assume_after=False)
        return
    i = c.fresh_index(n, "d")
    c.oblige("defined", what, cond_at(i), assume_after=False)


def dom_pow(x, y):
    return T.or_(T.lt(0, x), T.and_(T.eq(x, 0), T.lt(0, y)))


# ----------------------------------------------------------------------------------
# elementwise operations

_ARITH = {
    "+": T.add,
    "-": T.sub,
    "*": T.mul,
    "/": T.div,
    "**": T.power,
    "<": T.lt,
    "<=": T.le,
    ">": T.gt,
    ">=": T.ge,
    "==": T.eq,
    "!=": T.ne,
    "min": T.smin,
    "max": T.smax,
}


def _nat_exponent(b):
    if isinstance(b, int) and b >= 0:
        return True
    if isinstance(b, T.Term) and T.is_const(b) and T.cval(b) >= 0 and T.cval(b) == int(T.cval(b)):
        return True
    return False


def elementwise(op, a, b, what=None):
    what = what or op
    a, b = freeze(a), freeze(b)
    d = dialect_of(a, b)
    if d is None:  # python-level numbers with symbolic value
        ta, tb = at(a, 0), at(b, 0)
        if op == "/":
            defined_forall(ONE, lambda i: T.ne(tb, 0), f"{what}: divisor non-zero")
        if op == "**" and not _nat_exponent(b):
            defined_forall(ONE, lambda i: dom_pow(ta, tb), f"{what}: power in its domain")
        return _ARITH[op](ta, tb)
    n = broadcast_len((a, b), what)
    kind = _result_kind(d, (a, b))
    f = _ARITH[op]
    if op == "/":
        defined_forall(n, lambda i: T.ne(at_b(b, i, n), 0), f"{what}: divisor non-zero")
    if op == "**" and not _nat_exponent(b):
        defined_forall(n, lambda i: dom_pow(at_b(a, i, n), at_b(b, i, n)), f"{what}: power in its domain")
    return _mk(d, kind, n, lambda i: f(at_b(a, i, n), at_b(b, i, n)), (a, b))


def unary(fn, a, what, dom=None):
    a = freeze(a)
    if not isinstance(a, Arr):
        ta = at(a, 0)
        if dom is not None:
            defined_forall(ONE, lambda i: dom(ta), f"{what}: argument in its domain")
        return fn(ta)
    n = length(a)
    if dom is not None:
        defined_forall(n, lambda i: dom(at(a, i)), f"{what}: argument in its domain")
    kind = _result_kind(a.dialect, (a,))
    return _mk(a.dialect, kind, n, lambda i: fn(at(a, i)), (a,))


def np_wrap_scalar(x):
    """numpy ufuncs on python numbers return np.float64"""
    if isinstance(x, Arr):
        return x
    return mk_scalar("np", "npscalar", x)


def where(cond, a, b, dialect):
    """casadi if_else / elementwise selection"""
    cond, a, b = freeze(cond), freeze(a), freeze(b)
    n = broadcast_len((cond, a, b), "if_else")
    kind = _result_kind(dialect, (cond, a, b))
    return _mk(dialect, kind, n, lambda i: T.ite(at_b(cond, i, n), at_b(a, i, n), at_b(b, i, n)), (cond, a, b))


# ----------------------------------------------------------------------------------
# reductions


def vsum(a, what="sum"):
    """sum of all elements as a Real term"""
    if not isinstance(a, Arr) or a.is_scalar:
        return at(a, 0)
    n = a.n
    if T.is_const(n):
        k = T.cval(n)
        if k <= 8:
            s = T.const(0, T.REAL)
            for j in range(k):
                s = T.add(s, a.at(j))
            return s
    body = a.at(BV)
    return T.Term("sum", (body, n), T.REAL)


# ----------------------------------------------------------------------------------
# indexing


def norm_index(i, n):
    """python index -> non-negative index term"""
    if isinstance(i, int):
        return T.const(i, T.INT) if i >= 0 else T.add(n, i)
    i = T.lift(i, T.INT)
    return T.ite(T.lt(i, 0), T.add(n, i), i)


def getitem_int(a, i):
    c = cur()
    if a.is_scalar:
        if a.dialect == "cs":
            pass
        else:
            c.oblige("safe", f"index into a scalar value ({a.kind})", T.FALSE)
            raise _dead()
    n = a.n
    idx = norm_index(i, n)
    c.oblige("safe", "index in bounds", T.and_(T.le(0, idx), T.lt(idx, n)))
    val = a.at(idx)
    if a.dialect == "np":
        return mk_scalar("np", "npscalar", val)
    if a.dialect == "cs":
        r = mk_vec("cs", "m", 1, lambda j, v=val: v, "fresh", symtype=a.symtype)
        r.buf.prov = a.buf.prov
        if a.buf.symid is not None:
            r.buf.symid = ("entry", a.buf.symid, idx)
            r.buf.is_var = True
        return r
    r = mk_scalar("abs", "sc", val)
    r.buf.sct = ZERO
    return r


def slice_bounds(lo, hi, n):
    def clamp(x, default):
        if x is None:
            return default
        if isinstance(x, int):
            if x >= 0:
                return T.smin(T.const(x, T.INT), n)
            return T.smax(T.add(n, x), ZERO)
        x = T.lift(x, T.INT)
        return T.ite(T.lt(x, 0), T.smax(T.add(n, x), ZERO), T.smin(x, n))

    l = clamp(lo, ZERO)
    h = clamp(hi, n)
    ln = T.ite(T.le(l, h), T.sub(h, l), ZERO)
    return l, ln


def getitem_slice(a, lo, hi):
    c = cur()
    if a.is_scalar and a.dialect != "cs":
        c.oblige("safe", f"slice of a scalar value ({a.kind})", T.FALSE)
        raise _dead()
    l, ln = slice_bounds(lo, hi, a.n)
    if a.dialect == "cs":  # copy
        src = freeze(a)
        return mk_vec("cs", "m", ln, lambda j: src.at(T.add(l, j)), "fresh", symtype=a.symtype)
    # numpy basic slicing: a view onto the same buffer (abs: assume the worst, a view)
    return Arr(a.dialect, a.kind, a.buf, T.add(a.lo, l), ln, a.symtype)


def getitem_list(a, idx):
    """fancy indexing with a list of ints: a copy"""
    c = cur()
    if a.is_scalar and a.dialect != "cs":
        c.oblige("safe", "list index into a scalar value", T.FALSE)
        raise _dead()
    if isinstance(idx, SIntList):
        k = c.fresh_index(idx.n, "g")
        c.oblige("safe", "list indices in bounds", T.and_(T.le(0, idx.at(k)), T.lt(idx.at(k), a.n)))
        if a.dialect in ("cs", "abs"):
            # CasADi 3.8: a 1x1 matrix indexed by [] is 1x0 (not 0x1) and no longer combines with
            # column vectors (sampled by assumed/conformance)
            c.oblige("safe", "no empty-list index into a 1x1 CasADi matrix (yields a 1x0 row)", T.not_(T.and_(T.eq(a.n, 1), T.eq(idx.n, 0))))
        src = freeze(a)
        return _mk(a.dialect, a.kind, idx.n, lambda j: src.at(idx.at(j)), (a,))
    if isinstance(idx, (list, tuple)):
        vals = []
        for i in idx:
            ii = norm_index(i, a.n)
            c.oblige("safe", "list index in bounds", T.and_(T.le(0, ii), T.lt(ii, a.n)))
            vals.append(a.at(ii))
        return _mk(a.dialect, a.kind, len(vals), lambda j: _select(vals, j), (a,))
    raise Unsupported(f"index of type {type(idx).__name__}")


def _select(vals, j):
    if T.is_const(j):
        return vals[T.cval(j)]
    r = vals[-1]
    for k in range(len(vals) - 2, -1, -1):
        r = T.ite(T.eq(j, k), vals[k], r)
    return r


class _Dead(Exception):
    pass


def _dead():
    from .ctx import Infeasible

    return Infeasible()


# ----------------------------------------------------------------------------------
# in-place updates


def _check_writable(a, what):
    c = cur()
    own = a.buf.owner
    c.oblige("fresh", f"{what} writes only to a value created by this call", T.const(own == "fresh"), assume_after=False,
             meta={"owner": repr(own)})
    c.effects.append(("inplace", what, repr(own)))


def setitem_int(a, i, x):
    c = cur()
    if a.is_scalar and a.dialect != "cs":
        c.oblige("safe", "item assignment into a scalar value", T.FALSE)
        raise _dead()
    idx = norm_index(i, a.n)
    c.oblige("safe", "assigned index in bounds", T.and_(T.le(0, idx), T.lt(idx, a.n)))
    if isinstance(x, Arr) and not x.is_scalar:
        if a.dialect == "np":
            # numpy >= 2: "setting an array element with a sequence" for any ndim >= 1 value
            c.oblige("safe", "value assigned to one array element is 0-d (numpy >= 2 rejects a length-1 array)", T.FALSE)
            raise _dead()
        if a.dialect == "abs":
            c.oblige("safe", "value assigned to one array element is scalar-like in both engines", T.FALSE)
            raise _dead()
        c.oblige("shape", "value assigned to one matrix entry is 1x1", T.eq(x.n, 1))
    if isinstance(x, Arr) and x.dialect == "abs" and x.kind == "sc":
        c.oblige("safe", "value assigned to one array element is 0-d in the numpy engine", T.eq(sct_of(x), 0))
    _check_writable(a, "item assignment")
    x = freeze(x)
    val = at(x, 0)
    old = a.buf.elem
    tgt = T.add(a.lo, idx)
    a.buf.elem = lambda j: T.ite(T.eq(j, tgt), val, old(j))


def setitem_slice(a, lo, hi, x):
    c = cur()
    if a.is_scalar and a.dialect != "cs":
        c.oblige("safe", "slice assignment into a scalar value", T.FALSE)
        raise _dead()
    l, ln = slice_bounds(lo, hi, a.n)
    lx = length(x)
    if not (T.is_const(lx) and T.cval(lx) == 1):
        c.oblige("shape", "slice assignment: lengths agree", T.or_(T.eq(lx, ln), T.eq(lx, 1)))
    _check_writable(a, "slice assignment")
    x = freeze(x)
    old = a.buf.elem
    base = T.add(a.lo, l)
    a.buf.elem = lambda j: T.ite(T.and_(T.le(base, j), T.lt(j, T.add(base, ln))), at_b(x, T.sub(j, base), ln), old(j))


def setitem_list(a, idx, x):
    c = cur()
    _check_writable(a, "indexed assignment")
    x = freeze(x)
    old = a.buf.elem
    if isinstance(idx, SIntList):
        lx = length(x)
        if not (T.is_const(lx) and T.cval(lx) == 1):
            c.oblige("shape", "indexed assignment: lengths agree", T.or_(T.eq(lx, idx.n), T.eq(lx, 1)))
        k = c.fresh_index(idx.n, "s")
        c.oblige("safe", "assigned indices in bounds", T.and_(T.le(0, idx.at(k)), T.lt(idx.at(k), a.n)))
        lo = a.lo

        def new(j):
            p = idx.pos(T.sub(j, lo))
            return T.ite(T.le(0, p), at_b(x, p, idx.n), old(j))

        a.buf.elem = new
        return
    if isinstance(idx, (list, tuple)):
        tg = []
        for k, i in enumerate(idx):
            ii = norm_index(i, a.n)
            c.oblige("safe", "assigned index in bounds", T.and_(T.le(0, ii), T.lt(ii, a.n)))
            tg.append((T.add(a.lo, ii), at_b(x, T.const(k, T.INT), T.const(len(idx), T.INT))))

        def new2(j):
            r = old(j)
            for t, v in tg:  # later assignments win
                r = T.ite(T.eq(j, t), v, r)
            return r

        a.buf.elem = new2
        return
    raise Unsupported("indexed assignment with this index type")


def inplace_binop(op, a, b):
    """a op= b for a mutable array a (numpy a0/a1): writes through to the buffer"""
    c = cur()
    n = a.n if not a.is_scalar else ONE
    lb = length(b)
    if not (T.is_const(lb) and T.cval(lb) == 1) and lb is not n:
        c.oblige("shape", f"in-place {op}: right operand broadcasts to the target", T.or_(T.eq(lb, n), T.eq(lb, 1)))
    _check_writable(a, f"in-place {op}=")
    b = freeze(b)
    if op == "/":
        defined_forall(n, lambda i: T.ne(at_b(b, i, n), 0), "in-place /: divisor non-zero")
    f = _ARITH[op]
    old = a.buf.elem
    lo = a.lo
    a.buf.elem = lambda j: T.ite(T.and_(T.le(lo, j), T.lt(j, T.add(lo, n))), f(old(j), at_b(b, T.sub(j, lo), n)), old(j))
    return a


# ----------------------------------------------------------------------------------
# concatenation


def concat(dialect, parts, kind):
    """parts: python list whose items are numbers / Arr, or one SSeq of scalars"""
    if isinstance(parts, SSeq):
        seq = parts
        r = _mk(dialect, kind, seq.n, lambda j: at(seq.elem(j), 0), ())
        ent = getattr(seq, "entries_of", None)
        if ent is not None and dialect == "cs":
            # the entries of one symbol vector, in order, stacked again: that symbol
            r.buf.prov, r.buf.symid, r.buf.is_var, r.symtype = (ent,), ent, True, getattr(seq, "symtype", None)
        pent = getattr(seq, "permuted_entries_of", None)
        if pent is not None and dialect == "cs":
            # the entries of one symbol vector in some other order: purely symbolic, but not that symbol
            r.buf.prov, r.buf.pure_stack, r.symtype = (pent,), True, getattr(seq, "symtype", None)
        return r
    parts = [freeze(p) for p in parts]
    offs = []
    total = ZERO
    for p in parts:
        ln = length(p) if not (isinstance(p, Arr) and not p.is_scalar) else p.n
        offs.append((total, ln, p))
        total = T.add(total, ln)

    def elem(j):
        r = None
        for off, ln, p in reversed(offs):
            v = at(p, T.sub(j, off)) if isinstance(p, Arr) and not p.is_scalar else at(p, 0)
            r = v if r is None else T.ite(T.lt(j, T.add(off, ln)), v, r)
        return r if r is not None else T.const(0, T.REAL)

    r = _mk(dialect, kind, total, elem, tuple(p for p in parts if isinstance(p, Arr)))
    if dialect == "cs":
        arrs = [p for p in parts if isinstance(p, Arr)]
        pure = len(arrs) == len(parts) and all((p.buf.symid is not None and not isinstance(p.buf.symid, tuple)) or getattr(p.buf, "pure_stack", False) for p in arrs)
        r.buf.pure_stack = bool(pure)
    return r


def shape_of(a):
    """python-level shape descriptor used by `.shape` comparisons"""
    if not isinstance(a, Arr):
        return None
    if a.dialect == "np":
        return ("np", 0) if a.is_scalar else ("np", 1, a.n)
    if a.dialect == "cs":
        return ("cs", a.n)
    if a.kind == "sc":
        return ("abs-sc", sct_of(a))
    return ("abs-vec", a.n)


def shape_equal(sa, sb):
    """Bool term / python bool: shapes equal"""
    if sa[0] != sb[0]:
        if {sa[0], sb[0]} == {"abs-sc", "abs-vec"}:
            # a length-1 vector against a scalar-like value: equal iff the scalar is the length-1 class
            sc, ve = (sa, sb) if sa[0] == "abs-sc" else (sb, sa)
            return T.and_(T.eq(sc[1], 1), T.eq(ve[1], 1))
        return False
    if sa[0] == "np":
        if sa[1] != sb[1]:
            return False
        return True if sa[1] == 0 else T.eq(sa[2], sb[2])
    return T.eq(sa[1], sb[1])


def merge(cond, a, b):
    """ite(cond, a, b) on numeric values; None if the two cannot be one value"""
    if is_num(a) and is_num(b):
        return T.ite(cond, T.to_real(T.lift(a)), T.to_real(T.lift(b)))
    if not (isinstance(a, Arr) and isinstance(b, Arr)):
        return None
    if a.dialect != b.dialect or a.kind != b.kind:
        return None
    a, b = freeze(a), freeze(b)
    n = a.n if a.n is b.n else T.ite(cond, a.n, b.n)
    if a.is_scalar:
        r = mk_scalar(a.dialect, a.kind, T.ite(cond, a.at(0), b.at(0)), "fresh")
        sa, sb = sct_of(a), sct_of(b)
        r.buf.sct = sa if sa is sb else T.ite(cond, sa, sb)
    else:
        r = mk_vec(a.dialect, a.kind, n, lambda i: T.ite(cond, a.at(i), b.at(i)), "fresh", symtype=a.symtype or b.symtype)
    oa, ob = a.buf.owner, b.buf.owner
    r.buf.owner = "fresh" if oa == "fresh" and ob == "fresh" else (oa if oa != "fresh" else ob)
    return r
