"""The ghost view of a Network and the symbolic heap of its elements (DESIGN.md 2.3, App. D).

A `GhostNet` is what strata B and D see of a `Network`: the values its lookups return, as
uninterpreted functions of object references, with the well-formedness facts (what the lookups
promise, established by stratum C and the assumed networkx contract) and - when the contract
says the network was accepted by validation - the nine validity conditions, instantiated at
every node a lookup touches (instantiate-on-read, quantifier free).
"""
from __future__ import annotations

from pyvc import arrays as A
from pyvc import terms as T
from pyvc.ctx import cur, Infeasible
from pyvc.interp import PyRaise
from pyvc.values import (Arr, BoundMethod, Builtin, ClassValue, ExcValue, FuncValue, ObjRef, PropertyValue, SEnum, SSeq,
                         StaticMethod, SymName, Unsupported, mk_scalar, mk_vec)

R, I, RE, B = T.REF, T.INT, T.REAL, T.BOOL

# ---- uninterpreted functions of the view ---------------------------------------------------
cls_tag = T.uf("cls", [R], I)
n_in = T.uf("n_in", [R], I)
in_link = T.uf("in_link", [R, I], R)
in_node = T.uf("in_node", [R, I], R)
n_out = T.uf("n_out", [R], I)
out_link = T.uf("out_link", [R, I], R)
out_node = T.uf("out_node", [R, I], R)
has_origin = T.uf("has_origin", [R], B)
origin_of = T.uf("origin_of", [R], R)
has_dest = T.uf("has_dest", [R], B)
dest_of = T.uf("dest_of", [R], R)
up = T.uf("up", [R], R)
down = T.uf("down", [R], R)
out_idx = T.uf("out_idx", [R], I)
in_idx = T.uf("in_idx", [R], I)
node_of_origin = T.uf("node_of_origin", [R], R)
node_of_dest = T.uf("node_of_dest", [R], R)
n_elements = T.uf("n_elements", [], I)
element_at = T.uf("element_at", [I], R)
n_origins = T.uf("n_origins", [], I)
origin_at = T.uf("origin_at", [I], R)
n_dests = T.uf("n_dests", [], I)
dest_at = T.uf("dest_at", [I], R)
n_links = T.uf("n_links", [], I)
link_at = T.uf("link_at", [I], R)
link_in_net = T.uf("link_in_net", [R], B)
origin_in_net = T.uf("origin_in_net", [R], B)
dest_in_net = T.uf("dest_in_net", [R], B)

# element parameters and variables
FIELD_REAL = {}
for _f in ("lam", "L", "rho_max", "rho_crit", "v_free", "a", "turnrate", "alpha", "C"):
    FIELD_REAL[_f] = T.uf("f." + _f, [R], RE)
f_N = T.uf("f.N", [R], I)
f_feq = T.uf("f.flow_eq_type", [R], I)
st_rho = T.uf("st.rho", [R, I], RE)
st_v = T.uf("st.v", [R, I], RE)
act_vsl = T.uf("act.v_ctrl", [R, I], RE)  # speed limits of a LinkWithVsl
vsl_len = T.uf("vsl.len", [R], I)
sc_val = {k: T.uf("sc." + k, [R], RE) for k in ("w", "d", "r", "q", "v_ctrl")}
sc_sct = {k: T.uf("sct." + k, [R], I) for k in ("w", "d", "r", "q", "v_ctrl")}

LINK_CLASSES = ("Link", "LinkWithVsl")
ORIGIN_CLASSES = ("Origin", "MainstreamOrigin", "MeteredOnRamp", "SimplifiedMeteredOnRamp")
DEST_CLASSES = ("Destination", "CongestedDestination")
METERED = ("MeteredOnRamp", "SimplifiedMeteredOnRamp")

CLASS_MODULES = {
    "Link": "sym_metanet.blocks.links",
    "LinkWithVsl": "sym_metanet.blocks.links",
    "Node": "sym_metanet.blocks.nodes",
    "Origin": "sym_metanet.blocks.origins",
    "MainstreamOrigin": "sym_metanet.blocks.origins",
    "MeteredOnRamp": "sym_metanet.blocks.origins",
    "SimplifiedMeteredOnRamp": "sym_metanet.blocks.origins",
    "Destination": "sym_metanet.blocks.destinations",
    "CongestedDestination": "sym_metanet.blocks.destinations",
}
TAGS = {name: k + 1 for k, name in enumerate(CLASS_MODULES)}

# which variable dicts an element class has, and their keys (read from the real classes' init_vars
# by the stratum-B contracts on init_vars; used here only to shape heap reads)
VARS = {
    "Link": {"states": ("rho", "v")},
    "LinkWithVsl": {"states": ("rho", "v"), "actions": ("v_ctrl",)},
    "Origin": {},
    "MainstreamOrigin": {"states": ("w",), "actions": ("v_ctrl",), "disturbances": ("d",)},
    "MeteredOnRamp": {"states": ("w",), "actions": ("r",), "disturbances": ("d",)},
    "SimplifiedMeteredOnRamp": {"states": ("w",), "actions": ("q",), "disturbances": ("d",)},
    "Destination": {},
    "CongestedDestination": {"disturbances": ("d",)},
    "Node": {},
}
FEQ_OPTIONS = {"MeteredOnRamp": ("in", "out"), "SimplifiedMeteredOnRamp": ("limited", "unlimited")}


def install_admissible_facts():
    """admissible domain of C07 (DESIGN App. A): positive link parameters, rho_crit < rho_max,
    non-negative densities, speeds, queues, demands and desired flows, metering rate in [0, 1]"""
    from pyvc import vc

    pos = lambda t: T.lt(0, t)
    nonneg = lambda t: T.le(0, t)
    facts = [("uf:f." + f, pos) for f in ("lam", "L", "rho_crit", "v_free", "a", "turnrate")]
    facts.append(("uf:f.rho_max", lambda t: T.lt(FIELD_REAL["rho_crit"](t.args[0]), t)))
    facts.append(("uf:f.C", nonneg))
    facts.append(("uf:f.alpha", lambda t: T.lt(-1, t)))
    facts += [("uf:st.rho", nonneg), ("uf:st.v", nonneg), ("uf:act.v_ctrl", nonneg)]
    facts += [("uf:sc." + k, nonneg) for k in ("w", "d", "r", "q", "v_ctrl")]
    facts.append(("uf:sc.r", lambda t: T.le(t, 1)))
    vc.TERM_FACTS[:] = facts


def isa(ref_term, names):
    return T.or_(*[T.eq(cls_tag(ref_term), TAGS[n]) for n in names])


class UnknownAttr:
    """value of an element attribute outside the ghost view: arbitrary"""

    def __init__(self, what):
        self.what = what
        self._none = None

    def pyvc_is_none(self):
        if self._none is None:
            self._none = T.fresh("unknown_attr_is_none", T.BOOL)
        return self._none

    def pyvc_getattr(self, interp, name):
        raise Unsupported(f"attribute {self.what} is not part of the ghost view of an element")

    def pyvc_getitem(self, interp, k):
        raise Unsupported(f"attribute {self.what} is not part of the ghost view of an element")


class Heap:
    """read-only symbolic heap of the elements of one network"""

    def __init__(self, interp, net=None):
        self.interp = interp
        self.net = net
        self.classes = {n: interp.load_module(m).ns[n] for n, m in CLASS_MODULES.items()}

    def ref(self, term, class_names):
        return ObjRef(term, tuple(self.classes[n] for n in class_names), self)

    # ---- class structure -------------------------------------------------------------
    def names_of(self, obj):
        return [c.name for c in obj.classes]

    def isinstance(self, interp, obj, cls):
        names = [c.name for c in obj.classes if c.issubclass(cls)]
        if len(names) == len(obj.classes):
            return True
        if not names:
            return False
        return isa(obj.term, names)

    def type_of(self, interp, obj):
        if len(obj.classes) == 1:
            return obj.classes[0]
        return self.decide_class(obj)

    def decide_class(self, obj):
        """split the path on the dynamic class of obj"""
        c = cur()
        for k in obj.classes[:-1]:
            if c.decide(T.eq(cls_tag(obj.term), TAGS[k.name]), f"class of {obj.term!r} is {k.name}"):
                return k
        c.assume(T.eq(cls_tag(obj.term), TAGS[obj.classes[-1].name]))
        return obj.classes[-1]

    def narrow(self, obj, k):
        return ObjRef(obj.term, (k,), self)

    def mro_of(self, interp, obj):
        k = self.type_of(interp, obj)
        return k.mro

    # ---- attributes ------------------------------------------------------------------
    def getattr(self, interp, obj, name):
        if name == "name":
            return SymName(obj.term)
        if name == "__class__":
            return self.type_of(interp, obj)
        # methods / properties: resolve per class; split only if implementations differ
        impls = []
        for k in obj.classes:
            v, owner = k.lookup(name)
            impls.append((k, v, owner))
        if all(owner is not None for _, _, owner in impls):
            first = impls[0][1]
            if all(v is first for _, v, _ in impls):
                return self._bind(interp, first, obj)
            # group the classes by implementation family: implementations whose contracts are
            # declared interchangeable at call sites (same signature, same specified value)
            groups = []
            for k, v, _ in impls:
                fam = self._family(interp, v)
                for g in groups:
                    if g[0] == fam:
                        g[1].append(k)
                        break
                else:
                    groups.append((fam, [k], v))
            if len(groups) == 1:
                return self._bind(interp, groups[0][2], obj)
            c = cur()
            for fam, ks, v in groups[:-1]:
                if c.decide(isa(obj.term, [k.name for k in ks]), f"class of {obj.term!r} in {[k.name for k in ks]}"):
                    return self._bind(interp, v, ObjRef(obj.term, tuple(ks), self))
            fam, ks, v = groups[-1]
            c.assume(isa(obj.term, [k.name for k in ks]))
            return self._bind(interp, v, ObjRef(obj.term, tuple(ks), self))
        if any(owner is not None for _, _, owner in impls):
            k = self.decide_class(obj)
            return self.getattr(interp, self.narrow(obj, k), name)
        return self.read_field(interp, obj, name)

    def _family(self, interp, v):
        if isinstance(v, FuncValue):
            ct = interp.contract_for(v)
            fam = getattr(ct, "family", None) if ct is not None else None
            if fam is not None:
                return ("family", fam)
        return ("impl", id(v))

    def _bind(self, interp, v, obj):
        if isinstance(v, FuncValue):
            return BoundMethod(v, obj)
        if isinstance(v, StaticMethod):
            return v.func
        if isinstance(v, PropertyValue):
            return interp.call(v.fget, [obj], {})
        return v

    def read_field(self, interp, obj, name):
        c = cur()
        t = obj.term
        names = self.names_of(obj)
        if name in ("states", "actions", "disturbances", "next_states"):
            return HeapRec(self, obj, name)
        if name == "N" and all(n in LINK_CLASSES for n in names):
            c.axiom(T.le(1, f_N(t)))
            return f_N(t)
        if name in FIELD_REAL:
            ok = (name in ("lam", "L", "rho_max", "rho_crit", "v_free", "a", "turnrate") and all(n in LINK_CLASSES for n in names)) or \
                 (name == "alpha" and names == ["LinkWithVsl"]) or (name == "C" and all(n in METERED for n in names))
            if ok:
                return FIELD_REAL[name](t)
        if name == "vsl" and names == ["LinkWithVsl"]:
            return vsl_of(t)
        if name == "flow_eq_type" and all(n in METERED for n in names):
            if len(names) > 1:
                k = self.decide_class(obj)
                names = [k.name]
            opts = FEQ_OPTIONS[names[0]]
            c.axiom(T.and_(T.le(0, f_feq(t)), T.lt(f_feq(t), len(opts))))
            return SEnum(f_feq(t), opts)
        if any(k.declares_attr(name) for k in obj.classes):
            # an instance attribute the ghost view does not know (e.g. a private cache): the heap stands
            # for an arbitrary prior state, so its value is arbitrary - only `is None` can be asked
            return UnknownAttr(f"{name} of {'|'.join(names)}")
        raise PyRaise(ExcValue("AttributeError", (f"{'|'.join(names)} object has no attribute {name}",)))

    def setattr(self, interp, obj, name, v):
        cur().oblige("frame", f"the elements are only read here: no write to attribute {name} of an element (hidden state would make a step depend on earlier steps)", T.FALSE, assume_after=False)
        raise Infeasible()


_vsl_cache = {}


def vsl_of(t):
    """LinkWithVsl.vsl of the link t: class invariant = sorted, distinct, inside [0, N)"""
    lst = _vsl_cache.get(t.uid)
    if lst is None:
        lst = RefIntList(t)
        _vsl_cache[t.uid] = lst
    cur().axiom(T.le(0, lst.n))
    return lst


class RefIntList(A.SIntList):
    """SIntList whose functions are fields of a reference"""

    def __init__(self, t):
        self.name = f"vsl({t!r})"
        self.n = vsl_len(t)
        self.bound = f_N(t)
        el = T.uf("vsl.at", [R, I], I)
        ps = T.uf("vsl.pos", [R, I], I)
        self._el = lambda k: el(t, k)
        self._pos = lambda j: ps(t, j)


class HeapRec:
    """element.states / .actions / .disturbances / .next_states of a symbolic element"""

    def __init__(self, heap, obj, which):
        self.heap, self.obj, self.which = heap, obj, which

    def keys(self):
        names = self.heap.names_of(self.obj)
        ks = [VARS[n].get(self.which if self.which != "next_states" else "states") for n in names]
        if any(k != ks[0] for k in ks):
            k = self.heap.decide_class(self.obj)
            self.obj = self.heap.narrow(self.obj, k)
            return self.keys()
        return ks[0]

    def pyvc_is_none(self):
        if self.which == "next_states":
            raise Unsupported("next_states of a symbolic element")
        ks = self.keys()
        if ks is None:
            return True  # the class never initialises this dict
        if not self.heap.net.all_init:
            raise Unsupported("variables of an element that is not known to be initialised")
        return False

    def pyvc_getitem(self, interp, key):
        c = cur()
        if self.which == "next_states":
            raise Unsupported("next_states of a symbolic element")
        ks = self.keys()
        if ks is None:
            c.oblige("safe", f"{self.which} of this element is a dict (not None)", T.FALSE, assume_after=False)
            raise Infeasible()
        if not self.heap.net.all_init:
            raise Unsupported("variables of an element that is not known to be initialised")
        if key not in ks:
            c.oblige("safe", f"key {key!r} in {self.which}", T.FALSE, assume_after=False)
            raise Infeasible()
        t = self.obj.term
        names = self.heap.names_of(self.obj)
        owner = ("heap", f"{self.which}[{key!r}]")
        if all(n in LINK_CLASSES for n in names):
            if key == "rho":
                c.axiom(T.le(1, f_N(t)))
                return mk_vec("abs", "vec", f_N(t), lambda i: st_rho(t, i), owner)
            if key == "v":
                c.axiom(T.le(1, f_N(t)))
                return mk_vec("abs", "vec", f_N(t), lambda i: st_v(t, i), owner)
            if key == "v_ctrl":
                c.axiom(T.le(0, vsl_len(t)))
                return mk_vec("abs", "vec", vsl_len(t), lambda i: act_vsl(t, i), owner)
        else:
            a = mk_scalar("abs", "sc", sc_val[key](t), owner)
            s = sc_sct[key](t)
            c.axiom(T.and_(T.le(0, s), T.le(s, 1)))
            a.buf.sct = s
            return a
        raise Unsupported(f"heap read {self.which}[{key}]")

    def pyvc_contains(self, interp, key):
        ks = self.keys()
        return ks is not None and key in ks

    def pyvc_setitem(self, interp, key, v):
        cur().oblige("frame", f"no write to {self.which}[{key!r}] of another element", T.FALSE, assume_after=False)
        raise Infeasible()

    def pyvc_delitem(self, interp, key):
        return self.pyvc_setitem(interp, key, None)


# ---- the network view ---------------------------------------------------------------------


class GhostNet:
    def __init__(self, interp, valid=True, all_init=True, name="net", admissible=False):
        self.interp = interp
        self.heap = Heap(interp, self)
        self.valid = valid
        self.all_init = all_init
        self.admissible = admissible
        if admissible:
            install_admissible_facts()
        self.name = name
        self.touched = set()

    # facts -------------------------------------------------------------------------
    def node_facts(self, n):
        """well-formedness and validity facts at node n (instantiate on read)"""
        if n.uid in self.touched:
            return
        self.touched.add(n.uid)
        c = cur()
        c.axiom(T.le(0, n_in(n)))
        c.axiom(T.le(0, n_out(n)))
        c.axiom(T.eq(cls_tag(n), TAGS["Node"]))
        c.axiom(T.implies(has_origin(n), T.and_(T.eq(node_of_origin(origin_of(n)), n), origin_in_net(origin_of(n)), isa(origin_of(n), ORIGIN_CLASSES))))
        c.axiom(T.implies(has_dest(n), T.and_(T.eq(node_of_dest(dest_of(n)), n), dest_in_net(dest_of(n)), isa(dest_of(n), DEST_CLASSES))))
        if self.valid:
            c.axiom(T.not_(T.and_(has_origin(n), has_dest(n))))  # (2)
            c.axiom(T.not_(T.and_(T.eq(n_in(n), 0), T.eq(n_out(n), 0))))  # (3)
            c.axiom(T.implies(T.eq(n_in(n), 0), has_origin(n)))  # (4)
            c.axiom(T.implies(T.eq(n_out(n), 0), has_dest(n)))  # (5)
            c.axiom(T.implies(T.and_(has_origin(n), T.not_(isa(origin_of(n), METERED))), T.eq(n_in(n), 0)))  # (6)
            c.axiom(T.implies(has_origin(n), T.le(n_out(n), 1)))  # (7)
            c.axiom(T.implies(has_dest(n), T.le(n_in(n), 1)))  # (8)
            c.axiom(T.implies(has_dest(n), T.eq(n_out(n), 0)))  # (9)

    def in_edge_facts(self, n, j):
        c = cur()
        l = in_link(n, j)
        inr = T.and_(T.le(0, j), T.lt(j, n_in(n)))
        c.axiom(T.implies(inr, T.and_(T.eq(down(l), n), T.eq(up(l), in_node(n, j)), T.eq(in_idx(l), j), link_in_net(l),
                                      isa(l, LINK_CLASSES), T.le(1, f_N(l)))))
        self.link_facts(l, guard=inr)

    def out_edge_facts(self, n, j):
        c = cur()
        l = out_link(n, j)
        inr = T.and_(T.le(0, j), T.lt(j, n_out(n)))
        c.axiom(T.implies(inr, T.and_(T.eq(up(l), n), T.eq(down(l), out_node(n, j)), T.eq(out_idx(l), j), link_in_net(l),
                                      isa(l, LINK_CLASSES), T.le(1, f_N(l)))))
        self.link_facts(l, guard=inr)

    def link_facts(self, l, guard=T.TRUE):
        """a link of the network sits on exactly one edge (no duplicates, condition 1)"""
        c = cur()
        g = T.and_(guard, link_in_net(l))
        u, d = up(l), down(l)
        c.axiom(T.implies(g, T.and_(T.le(0, out_idx(l)), T.lt(out_idx(l), n_out(u)), T.eq(out_link(u, out_idx(l)), l),
                                    T.eq(out_node(u, out_idx(l)), d),
                                    T.le(0, in_idx(l)), T.lt(in_idx(l), n_in(d)), T.eq(in_link(d, in_idx(l)), l),
                                    T.eq(in_node(d, in_idx(l)), u), isa(l, LINK_CLASSES), T.le(1, f_N(l)))))

    def origin_facts(self, o):
        c = cur()
        n = node_of_origin(o)
        c.axiom(T.implies(origin_in_net(o), T.and_(has_origin(n), T.eq(origin_of(n), o), isa(o, ORIGIN_CLASSES))))
        self.node_facts(n)

    def dest_facts(self, d):
        c = cur()
        n = node_of_dest(d)
        c.axiom(T.implies(dest_in_net(d), T.and_(has_dest(n), T.eq(dest_of(n), d), isa(d, DEST_CLASSES))))
        self.node_facts(n)

    # objects -----------------------------------------------------------------------
    def node(self, t):
        self.node_facts(t)
        return self.heap.ref(t, ("Node",))

    def link(self, t):
        self.link_facts(t)
        return self.heap.ref(t, LINK_CLASSES)

    def origin(self, t):
        self.origin_facts(t)
        return self.heap.ref(t, ORIGIN_CLASSES)

    def dest(self, t):
        self.dest_facts(t)
        return self.heap.ref(t, DEST_CLASSES)

    def in_links_seq(self, n):
        self.node_facts(n)

        def elem(j):
            self.in_edge_facts(n, j)
            return (self.heap.ref(in_node(n, j), ("Node",)), self.heap.ref(n, ("Node",)), self.heap.ref(in_link(n, j), LINK_CLASSES))

        return SSeq(n_in(n), elem, f"in_links({n!r})")

    def out_links_seq(self, n):
        self.node_facts(n)

        def elem(j):
            self.out_edge_facts(n, j)
            return (self.heap.ref(n, ("Node",)), self.heap.ref(out_node(n, j), ("Node",)), self.heap.ref(out_link(n, j), LINK_CLASSES))

        return SSeq(n_out(n), elem, f"out_links({n!r})")

    # attribute protocol --------------------------------------------------------------
    # enumerations (C04: links in edge order, then origins, then destinations) -----------------
    def links_seq(self):
        def elem(j):
            l = link_at(j)
            cur().axiom(T.implies(T.and_(T.le(0, j), T.lt(j, n_links())), link_in_net(l)))
            self.link_facts(l)
            return (self.heap.ref(up(l), ("Node",)), self.heap.ref(down(l), ("Node",)), self.heap.ref(l, LINK_CLASSES))

        cur().axiom(T.le(0, n_links()))
        return SSeq(n_links(), elem, "links")

    def origins_seq(self):
        def elem(j):
            o = origin_at(j)
            cur().axiom(T.implies(T.and_(T.le(0, j), T.lt(j, n_origins())), origin_in_net(o)))
            self.origin_facts(o)
            return self.heap.ref(o, ORIGIN_CLASSES)

        cur().axiom(T.le(0, n_origins()))
        return SSeq(n_origins(), elem, "origins")

    def dests_seq(self):
        def elem(j):
            d = dest_at(j)
            cur().axiom(T.implies(T.and_(T.le(0, j), T.lt(j, n_dests())), dest_in_net(d)))
            self.dest_facts(d)
            return self.heap.ref(d, DEST_CLASSES)

        cur().axiom(T.le(0, n_dests()))
        return SSeq(n_dests(), elem, "destinations")

    def elements_seq(self):
        """chain(links, origins, destinations) as one sequence"""
        nl, no, nd = n_links(), n_origins(), n_dests()
        for x in (nl, no, nd):
            cur().axiom(T.le(0, x))
        total = T.add(T.add(nl, no), nd)

        def elem(j):
            c = cur()
            e = element_at(j)
            inr = T.and_(T.le(0, j), T.lt(j, total))
            c.axiom(T.implies(T.and_(inr, T.lt(j, nl)), T.and_(T.eq(e, link_at(j)), link_in_net(e), isa(e, LINK_CLASSES))))
            c.axiom(T.implies(T.and_(inr, T.le(nl, j), T.lt(j, T.add(nl, no))), T.and_(T.eq(e, origin_at(T.sub(j, nl))), origin_in_net(e), isa(e, ORIGIN_CLASSES))))
            c.axiom(T.implies(T.and_(inr, T.le(T.add(nl, no), j)), T.and_(T.eq(e, dest_at(T.sub(T.sub(j, nl), no))), dest_in_net(e), isa(e, DEST_CLASSES))))
            return self.heap.ref(e, LINK_CLASSES + ORIGIN_CLASSES + DEST_CLASSES)

        return SSeq(total, elem, "elements")

    def pyvc_getattr(self, interp, name):
        if name == "elements":
            return self.elements_seq()
        if name in ("in_links", "out_links", "links"):
            return _LinkView(self, "in" if name == "in_links" else "out")
        if name in ("origins_by_node", "destinations_by_node", "origins", "destinations", "nodes_by_link"):
            return _Lookup(self, name)
        if name == "name":
            return SymName(T.var("net", R))
        if name in ("graph", "_graph"):
            return _GhostGraph(self)
        raise Unsupported(f"Network.{name} is not part of the ghost view")

    def pyvc_is_none(self):
        return False


class _GhostGraph:
    """the little of the networkx graph the element layer may ask directly: the degrees of a node"""

    def __init__(self, net):
        self.net = net

    def pyvc_getattr(self, interp, name):
        if name in ("out_degree", "in_degree"):
            f = n_out if name == "out_degree" else n_in

            def degree(it, a, k):
                if len(a) != 1 or k:
                    raise Unsupported(f"graph.{name} called with other than one node")
                t = _as_ref(a[0], f"graph.{name}")
                self.net.node_facts(t)
                return f(t)

            return Builtin(f"graph.{name}", degree)
        raise Unsupported(f"graph.{name} is not part of the ghost view")


def _as_ref(x, what):
    if isinstance(x, ObjRef):
        return x.term
    from pyvc.values import LocalObj

    if isinstance(x, LocalObj) and x.ref is not None:
        return x.ref
    raise Unsupported(f"{what}: not an element reference: {x!r}")


class _LinkView:
    def __init__(self, net, kind):
        self.net, self.kind = net, kind

    def pyvc_call(self, interp, args, kwargs):
        if len(args) != 1 or kwargs:
            raise Unsupported("link view called with other than one node")
        n = _as_ref(args[0], "link view")
        return self.net.in_links_seq(n) if self.kind == "in" else self.net.out_links_seq(n)

    def pyvc_iter(self, interp):
        from pyvc.interp import _SymbolicIterationNeeded

        if self.kind != "out":
            raise Unsupported("iteration over the in-link view")
        raise _SymbolicIterationNeeded(self.net.links_seq())


class _Lookup:
    def __init__(self, net, which):
        self.net, self.which = net, which

    def pyvc_getattr(self, interp, name):
        if name == "get":
            def get(it, a, k):
                default = a[1] if len(a) > 1 else k.get("default")
                present = self.pyvc_contains(it, a[0])
                if cur().decide(T.lift(present), f"{self.which}.get: key present"):
                    return self.pyvc_getitem(it, a[0])
                return default

            return Builtin(f"{self.which}.get", get)
        if name in ("keys", "values", "items") and self.which in ("origins", "destinations"):
            net, which = self.net, self.which
            base = net.origins_seq if which == "origins" else net.dests_seq
            nodef = node_of_origin if which == "origins" else node_of_dest

            def view(it, a, k, name=name):
                seq = base()
                if name == "keys":
                    return seq
                if name == "values":
                    return SSeq(seq.n, lambda j: net.node(nodef(seq.elem(j).term)), f"{which}.values()")
                return SSeq(seq.n, lambda j: (seq.elem(j), net.node(nodef(seq.elem(j).term))), f"{which}.items()")

            return Builtin(f"{which}.{name}", view)
        raise Unsupported(f"{self.which}.{name} is not part of the ghost view")

    def pyvc_iter(self, interp):
        from pyvc.interp import _SymbolicIterationNeeded

        if self.which == "origins":
            raise _SymbolicIterationNeeded(self.net.origins_seq())
        if self.which == "destinations":
            raise _SymbolicIterationNeeded(self.net.dests_seq())
        raise Unsupported(f"iteration over {self.which}")

    def pyvc_contains(self, interp, key):
        t = _as_ref(key, self.which)
        net = self.net
        if self.which == "origins_by_node":
            net.node_facts(t)
            return has_origin(t)
        if self.which == "destinations_by_node":
            net.node_facts(t)
            return has_dest(t)
        if self.which == "origins":
            return origin_in_net(t)
        if self.which == "destinations":
            return dest_in_net(t)
        if self.which == "nodes_by_link":
            return link_in_net(t)
        raise Unsupported(self.which)

    def pyvc_getitem(self, interp, key):
        c = cur()
        t = _as_ref(key, self.which)
        net = self.net
        present = self.pyvc_contains(interp, key)
        c.oblige("safe", f"key present in {self.which}", present)
        if self.which == "origins_by_node":
            return net.origin(origin_of(t))
        if self.which == "destinations_by_node":
            return net.dest(dest_of(t))
        if self.which == "origins":
            net.origin_facts(t)
            return net.node(node_of_origin(t))
        if self.which == "destinations":
            net.dest_facts(t)
            return net.node(node_of_dest(t))
        if self.which == "nodes_by_link":
            net.link_facts(t)
            return (net.node(up(t)), net.node(down(t)))
        raise Unsupported(self.which)
