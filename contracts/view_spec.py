"""METANET on the ghost view: what each element-level function must return, as terms over the
view's functions, built from the scalar oracle specs/metanet.py.  (DESIGN.md App. A)

Aggregates are sums over the entering / leaving link *sets* of a node; the enumeration index
only names the summand (C14)."""
from __future__ import annotations

from pyvc import arrays as A
from pyvc import terms as T
from pyvc.values import mk_vec
from specs import metanet as M
from contracts import ghost as G

ZERO = A.ZERO


def N(l):
    return G.f_N(l)


def fld(name, r):
    return G.FIELD_REAL[name](r)


def last(l):
    return T.sub(N(l), 1)


def link_flow_at(l, i):
    return M.flow(G.st_rho(l, i), G.st_v(l, i), fld("lam", l))


# ---- origins -------------------------------------------------------------------------------
def origin_link(o):
    """the single link leaving the node of origin o"""
    return G.out_link(G.node_of_origin(o), ZERO)


def origin_speed(o):
    return G.st_v(origin_link(o), ZERO)


def origin_flow(o, T_):
    """flow admitted by origin o, by its class (T_ may be None only for ideal origins)"""
    l = origin_link(o)
    tag = G.cls_tag(o)
    ideal = link_flow_at(l, ZERO)
    if T_ is None:
        return ideal
    w, d = G.sc_val["w"](o), G.sc_val["d"](o)
    main = M.mainstream_flow_guarded(d, w, G.sc_val["v_ctrl"](o), G.st_v(l, ZERO), fld("rho_crit", l), fld("a", l),
                                     fld("v_free", l), fld("lam", l), T_)
    args = (fld("C", o), fld("rho_max", l), G.st_rho(l, ZERO), fld("rho_crit", l), T_)
    C, rmax, rho1, rcrit, Tt = args
    r = G.sc_val["r"](o)
    metered = T.ite(T.eq(G.f_feq(o), 0), M.ramp_flow_in(d, w, C, r, rmax, rho1, rcrit, Tt),
                    M.ramp_flow_out(d, w, C, r, rmax, rho1, rcrit, Tt))
    qd = G.sc_val["q"](o)
    simpl = T.ite(T.eq(G.f_feq(o), 1), qd, M.simplified_ramp_flow(qd, d, w, C, rmax, rho1, rcrit, Tt))
    return T.ite(T.eq(tag, G.TAGS["Origin"]), ideal,
                 T.ite(T.eq(tag, G.TAGS["MainstreamOrigin"]), main,
                       T.ite(T.eq(tag, G.TAGS["MeteredOnRamp"]), metered, simpl)))


def origin_flow_sct(o):
    """shape class of the flow value: the join of the classes of the values it is computed from"""
    tag = G.cls_tag(o)
    s = lambda k: G.sc_sct[k](o)
    main = T.smax(s("d"), T.smax(s("w"), s("v_ctrl")))
    met = T.smax(s("d"), T.smax(s("w"), s("r")))
    sim = T.smax(s("q"), T.smax(s("d"), s("w")))
    return T.ite(T.eq(tag, G.TAGS["Origin"]), ZERO,
                 T.ite(T.eq(tag, G.TAGS["MainstreamOrigin"]), main, T.ite(T.eq(tag, G.TAGS["MeteredOnRamp"]), met, sim)))


# ---- destinations --------------------------------------------------------------------------
def dest_link(d):
    return G.in_link(G.node_of_dest(d), ZERO)


def dest_density(d):
    l = dest_link(d)
    rho_last = G.st_rho(l, last(l))
    free = M.dest_free(rho_last, fld("rho_crit", l))
    cong = M.dest_congested(rho_last, G.sc_val["d"](d), fld("rho_crit", l))
    return T.ite(T.eq(G.cls_tag(d), G.TAGS["Destination"]), free, cong)


# ---- nodes ---------------------------------------------------------------------------------
def _vec(n, elem):
    return mk_vec("abs", "vec", n, elem, "fresh")


def entering_last_flows(n):
    return _vec(G.n_in(n), lambda j: link_flow_at(G.in_link(n, j), last(G.in_link(n, j))))


def entering_last_speeds(n):
    return _vec(G.n_in(n), lambda j: G.st_v(G.in_link(n, j), last(G.in_link(n, j))))


def leaving_turnrates(n):
    return _vec(G.n_out(n), lambda j: fld("turnrate", G.out_link(n, j)))


def leaving_first_densities(n):
    return _vec(G.n_out(n), lambda j: G.st_rho(G.out_link(n, j), ZERO))


def node_inflow(n, T_):
    """total flow arriving at node n: last-segment flows of the entering links + its origin's flow"""
    q = A.vsum(entering_last_flows(n))
    return q + T.ite(G.has_origin(n), origin_flow(G.origin_of(n), T_), T.const(0, T.REAL))


def upstream_flow(n, l, T_):
    """flow entering the first segment of l: its turn-rate share of the node's inflow [H 3.2.2]"""
    return M.inflow_share(fld("turnrate", l), A.vsum(leaving_turnrates(n)), node_inflow(n, T_))


def upstream_speed(n):
    """[H 3.10]; with a single entering link its last speed; at an origin-only node the origin's speed"""
    qs, vs = entering_last_flows(n), entering_last_speeds(n)
    k = G.n_in(n)
    prod = _vec(k, lambda j: vs.at(j) * qs.at(j))
    weighted = M.upstream_speed_weighted(A.vsum(prod), A.vsum(qs))
    single = G.st_v(G.in_link(n, ZERO), last(G.in_link(n, ZERO)))
    return T.ite(T.eq(k, 0), origin_speed(G.origin_of(n)), T.ite(T.eq(k, 1), single, weighted))


def downstream_density(n):
    """[H 3.9] over the first segments of the leaving links, or the destination's law"""
    rs = leaving_first_densities(n)
    k = G.n_out(n)
    sq = _vec(k, lambda j: rs.at(j) * rs.at(j))
    weighted = M.downstream_density_weighted(A.vsum(sq), A.vsum(rs))
    single = G.st_rho(G.out_link(n, ZERO), ZERO)
    return T.ite(G.has_dest(n), dest_density(G.dest_of(n)), T.ite(T.eq(k, 1), single, weighted))


# ---- links ---------------------------------------------------------------------------------
def link_veq_at(l, i):
    V = M.veq(G.st_rho(l, i), fld("v_free", l), fld("rho_crit", l), fld("a", l))
    lst = G.vsl_of(l)
    p = lst.pos(i)
    Vc = T.ite(T.le(0, p), T.smin(V, (1 + fld("alpha", l)) * G.act_vsl(l, p)), V)
    return T.ite(T.eq(G.cls_tag(l), G.TAGS["LinkWithVsl"]), Vc, V)


def merge_active(l, delta):
    """merging term [H 3.7] applies to the first segment of l"""
    n = G.up(l)
    if delta is None:
        return T.FALSE
    return T.and_(G.has_origin(n), T.lt(0, G.n_in(n)), G.isa(G.origin_of(n), G.METERED))


def lane_drop(l):
    n = G.down(l)
    return fld("lam", l) - fld("lam", G.out_link(n, ZERO))


def drop_active(l, phi):
    n = G.down(l)
    if phi is None:
        return T.FALSE
    return T.and_(T.eq(G.n_out(n), 1), T.ne(lane_drop(l), 0))


def link_next_density_at(l, i, T_, clamp):
    n = G.up(l)
    q_up = T.ite(T.eq(i, 0), upstream_flow(n, l, T_), link_flow_at(l, T.sub(i, 1)))
    r = M.next_density(G.st_rho(l, i), link_flow_at(l, i), q_up, fld("lam", l), fld("L", l), T_)
    return T.ite(clamp, M.clamp0(r), r)


def link_next_speed_at(l, i, tau, eta, kappa, T_, delta, phi, clamp):
    nu, nd = G.up(l), G.down(l)
    v_up = T.ite(T.eq(i, 0), upstream_speed(nu), G.st_v(l, T.sub(i, 1)))
    rho_down = T.ite(T.eq(i, last(l)), downstream_density(nd), G.st_rho(l, T.add(i, 1)))
    r = M.next_speed(G.st_v(l, i), v_up, G.st_rho(l, i), rho_down, link_veq_at(l, i), fld("L", l), tau, eta, kappa, T_)
    if delta is not None:
        m = M.merge_term(delta, T_, origin_flow(G.origin_of(nu), T_), G.st_v(l, ZERO), fld("L", l), fld("lam", l), G.st_rho(l, ZERO), kappa)
        r = T.ite(T.and_(T.eq(i, 0), merge_active(l, delta)), r - m, r)
    if phi is not None:
        d = M.lanedrop_term(phi, T_, lane_drop(l), G.st_rho(l, last(l)), G.st_v(l, last(l)), fld("L", l), fld("lam", l), fld("rho_crit", l))
        r = T.ite(T.and_(T.eq(i, last(l)), drop_active(l, phi)), r - d, r)
    return T.ite(clamp, M.clamp0(r), r)


def origin_next_queue(o, T_, clamp):
    r = M.queue_next(G.sc_val["w"](o), G.sc_val["d"](o), origin_flow(o, T_), T_)
    return T.ite(clamp, M.clamp0(r), r)
