"""Lemmas over the contracts (DESIGN.md 2.8, 3): properties that are consequences of the proved
postconditions.  Every lemma is an obligation for the solvers; inductions are split into base
and step obligations; analytic facts come from lemmas/Metanet.lean as labelled hypotheses."""
from __future__ import annotations

from pyvc import arrays as A
from pyvc import terms as T
from pyvc.arrays import BV
from pyvc.values import mk_vec
from pyvc.vc import Task
from specs import metanet as M
from contracts import ghost as G
from contracts import view_spec as V
from contracts.engine_spec import SpecCtx, call_spec

REAL, INT = T.REAL, T.INT


def rv(name):
    return T.var(name, REAL)


def lemma(c, label, goal, **kw):
    c.oblige("lemma", label, goal, assume_after=False, **kw)


def psum(body_at, n):
    """prefix sum term  sum_{i<n} body_at(i)"""
    return T.Term("sum", (body_at(BV), T.lift(n, INT)), REAL)


# ---- C17 -------------------------------------------------------------------------------------
def fd_max_instance(a, x):
    """lemmas/Metanet.lean: fd_max  0 < a -> 0 < x <= 1 -> x * (-a * log x)^(1/a) <= exp(-1/a)"""
    return T.implies(T.and_(T.lt(0, a), T.lt(0, x), T.le(x, 1)),
                     T.le(x * T.power(-a * T.log(x), 1 / a), T.exp(-1 / a)))


def run_c17_ramps(interp, c):
    d, w, C, r, rmax, rho1, rcrit, T_, qdes = (rv(x) for x in ("d", "w", "C", "r", "rho_max", "rho_first", "rho_crit", "T", "qdes"))
    for h in (T.le(0, d), T.le(0, w), T.le(0, C), T.le(0, r), T.le(r, 1), T.lt(0, T_), T.lt(rcrit, rmax), T.le(rho1, rmax), T.le(0, qdes)):
        c.assume(h)
    for nm, q in (("metered ramp, 'in' variant", M.ramp_flow_in(d, w, C, r, rmax, rho1, rcrit, T_)),
                  ("metered ramp, 'out' variant", M.ramp_flow_out(d, w, C, r, rmax, rho1, rcrit, T_)),
                  ("limited simplified ramp", M.simplified_ramp_flow(qdes, d, w, C, rmax, rho1, rcrit, T_))):
        lemma(c, f"{nm}: flow non-negative", T.le(0, q))
        lemma(c, f"{nm}: flow at most demand plus queue over T", T.le(q, d + w / T_))
        lemma(c, f"{nm}: flow at most capacity", T.le(q, C))
        lemma(c, f"{nm}: zero flow at maximum density", T.implies(T.eq(rho1, rmax), T.eq(q, 0)))
        lemma(c, f"{nm}: next queue non-negative without clamping", T.le(0, M.queue_next(w, d, q, T_)))


def run_c17_mainstream(interp, c):
    d, w, vc, v1, rcrit, a, vf, lam, T_ = (rv(x) for x in ("d", "w", "v_ctrl", "v_first", "rho_crit", "a", "v_free", "lanes", "T"))
    for h in (T.le(0, d), T.le(0, w), T.le(0, vc), T.le(0, v1), T.lt(0, rcrit), T.lt(0, a), T.lt(0, vf), T.lt(0, lam), T.lt(0, T_)):
        c.assume(h)
    q = M.mainstream_flow_guarded(d, w, vc, v1, rcrit, a, vf, lam, T_)
    v_lim = T.smin(vc, v1)
    ratio = T.smax(0.05, T.smin(1.0, v_lim / vf))
    c.axiom(fd_max_instance(a, ratio))  # Lean: fd_max
    cap = lam * M.veq(rcrit, vf, rcrit, a) * rcrit
    lemma(c, "mainstream origin: flow non-negative", T.le(0, q))
    lemma(c, "mainstream origin: flow at most demand plus queue over T", T.le(q, d + w / T_))
    lemma(c, "mainstream origin: flow at most the capacity flow of its link", T.le(q, cap))
    lemma(c, "mainstream origin: next queue non-negative without clamping", T.le(0, M.queue_next(w, d, q, T_)))


# ---- KF1 / C01: EngineSpec's guarded formula against Hegyi 3.3.3 --------------------------------
def run_c01_mainstream_hegyi(interp, c):
    d, w, vc, v1, rcrit, a, vf, lam, T_ = (rv(x) for x in ("d", "w", "v_ctrl", "v_first", "rho_crit", "a", "v_free", "lanes", "T"))
    for h in (T.lt(0, rcrit), T.lt(0, a), T.lt(0, vf), T.lt(0, lam), T.lt(0, T_)):
        c.assume(h)
    guarded = M.mainstream_flow_guarded(d, w, vc, v1, rcrit, a, vf, lam, T_)
    hegyi = M.mainstream_flow_hegyi(d, w, vc, v1, rcrit, a, vf, lam, T_)
    ratio = T.smin(vc, v1) / vf
    region = T.and_(T.lt(0, ratio), T.lt(ratio, T.const(0.05)))
    # admissible: speeds positive (Hegyi's log is undefined at 0)
    c.assume(T.lt(0, T.smin(vc, v1)))
    lemma(c, "mainstream origin flow of EngineSpec equals Hegyi 3.3.3", T.eq(guarded, hegyi), meta={"known_finding_region": "0 < min(v_ctrl, v_first)/v_free < 0.05"})
    lemma(c, "mainstream origin flow of EngineSpec equals Hegyi 3.3.3 outside the guard region (ratio >= 0.05)", T.implies(T.not_(region), T.eq(guarded, hegyi)))


# ---- C18 -------------------------------------------------------------------------------------
def run_c18_prims(interp, c):
    d, w, C, r, rmax, rho1, rcrit, T_, qdes = (rv(x) for x in ("d", "w", "C", "r", "rho_max", "rho_first", "rho_crit", "T", "qdes"))
    c.assume(T.ne(T_, 0))
    c.assume(T.ne(rmax - rcrit, 0))
    fin = M.ramp_flow_in(d, w, C, T.const(1, REAL), rmax, rho1, rcrit, T_)
    fout = M.ramp_flow_out(d, w, C, T.const(1, REAL), rmax, rho1, rcrit, T_)
    lemma(c, "metering rate one: the 'in' and 'out' ramp flows coincide", T.eq(fin, fout))
    lim = T.smin(d + w / T_, C * T.smin(1, M.space_term(rmax, rho1, rcrit)))
    lemma(c, "limited simplified ramp with desired flow above its limits admits the flow of a metered ramp at rate one",
          T.implies(T.le(lim, qdes), T.eq(M.simplified_ramp_flow(qdes, d, w, C, rmax, rho1, rcrit, T_), fout)))
    vc, v1, a, vf, lam = (rv(x) for x in ("v_ctrl", "v_first", "a", "v_free", "lanes"))
    g = M.mainstream_flow_guarded(d, w, vc, v1, rcrit, a, vf, lam, T_)
    g2 = M.mainstream_flow_guarded(d, w, v1, v1, rcrit, a, vf, lam, T_)
    lemma(c, "mainstream origin with a speed limit at or above the first-segment speed is limited by that speed only",
          T.implies(T.le(v1, vc), T.eq(g, g2)))


def run_c18_vsl(interp, c):
    """controlled_Veq of EngineSpec: neutral limits, never above V, untouched off the VSL set; and
    the speed update is monotone in the equilibrium speed"""
    n = T.var("len.n", INT)
    c.axiom(T.le(1, n))
    K = T.var("len.K", INT)
    c.axiom(T.le(0, K))
    rho_f = T.uf("in.rho", [INT], REAL)
    vc_f = T.uf("in.v_ctrl", [INT], REAL)
    rho = mk_vec("abs", "vec", n, lambda i: rho_f(i), ("in", "rho"))
    vctrl = mk_vec("abs", "vec", K, lambda i: vc_f(i), ("in", "v_ctrl"))
    vsl = A.SIntList("in.vsl", K, n)
    alpha, vf, rc, a = rv("alpha"), rv("v_free"), rv("rho_crit"), rv("a")
    sc = SpecCtx("abs", "assume", "controlled_Veq")
    CV = call_spec("links.controlled_Veq", sc, [rho, vctrl, vsl, alpha, vf, rc, a], {})
    Vq = call_spec("links.Veq", sc, [rho, vf, rc, a], {})
    i = c.fresh_index(n, "k")
    p = vsl.pos(i)
    lemma(c, "a finite limit never raises the equilibrium speed", T.le(CV.at(i), Vq.at(i)))
    lemma(c, "segments without a sign keep their equilibrium speed", T.implies(T.lt(p, 0), T.eq(CV.at(i), Vq.at(i))))
    neutral = T.implies(T.le(0, p), T.le(Vq.at(i), (1 + alpha) * vc_f(p)))
    lemma(c, "limits at or above every equilibrium speed (infinite limits) leave it unchanged", T.implies(neutral, T.eq(CV.at(i), Vq.at(i))))
    lemma(c, "an empty set of signs leaves the equilibrium speed unchanged", T.implies(T.eq(K, 0), T.eq(CV.at(i), Vq.at(i))))
    # monotonicity of the speed update in Veq
    v, vup, r, rd, V1, V2, L, tau, eta, kap, T_ = (rv(x) for x in ("v", "v_up", "rho", "rho_down", "V1", "V2", "L", "tau", "eta", "kappa", "T"))
    c.assume(T.lt(0, T_))
    c.assume(T.lt(0, tau))
    s1 = M.next_speed(v, vup, r, rd, V1, L, tau, eta, kap, T_)
    s2 = M.next_speed(v, vup, r, rd, V2, L, tau, eta, kap, T_)
    lemma(c, "the next speed is monotone in the equilibrium speed (a lower V never raises it)", T.implies(T.le(V1, V2), T.le(s1, s2)))
    lemma(c, "clamping at zero preserves that monotonicity", T.implies(T.le(V1, V2), T.le(M.clamp0(s1), M.clamp0(s2))))


def run_c18_element(interp, c):
    """element level: a speed-limited link whose limits are neutral has, segment by segment, the
    equilibrium speed (hence, by the proved postcondition of Link.step_dynamics, the next state)
    of a plain link with the same parameters and state"""
    net = G.GhostNet(interp)
    l = T.var("l", T.REF)
    c.axiom(G.link_in_net(l))
    net.link_facts(l)
    N = G.f_N(l)
    i = c.fresh_index(N, "k")
    lst = G.vsl_of(l)
    p = lst.pos(i)
    Vplain = M.veq(G.st_rho(l, i), V.fld("v_free", l), V.fld("rho_crit", l), V.fld("a", l))
    is_vsl = T.eq(G.cls_tag(l), G.TAGS["LinkWithVsl"])
    neutral = T.implies(T.le(0, p), T.le(Vplain, (1 + V.fld("alpha", l)) * G.act_vsl(l, p)))
    lemma(c, "a speed-limited link with neutral limits has the equilibrium speed of a plain link on every segment",
          T.implies(T.and_(is_vsl, neutral), T.eq(V.link_veq_at(l, i), Vplain)))
    lemma(c, "a speed-limited link without signs has the equilibrium speed of a plain link",
          T.implies(T.and_(is_vsl, T.eq(lst.n, 0)), T.eq(V.link_veq_at(l, i), Vplain)))
    lemma(c, "a speed limit never raises the equilibrium speed of any segment", T.le(V.link_veq_at(l, i), Vplain))
    tau, eta, kappa, T_ = (rv(x) for x in ("tau", "eta", "kappa", "T"))
    c.assume(T.lt(0, tau))
    c.assume(T.lt(0, T_))
    # the next speed is the same function of V for both classes: compare through the spec term
    full = V.link_next_speed_at(l, i, tau, eta, kappa, T_, None, None, T.FALSE)
    plain = T.substitute(full, {V.link_veq_at(l, i): Vplain})
    lemma(c, "hence a finite limit never raises the next speed of any segment", T.le(full, plain))
    lemma(c, "... and neutral limits leave the next speed unchanged", T.implies(T.and_(is_vsl, neutral), T.eq(full, plain)))


# ---- C02 / C14: sums over the leaving links -------------------------------------------------------
def run_node_balance(interp, c):
    """sum over the leaving links of their inflow shares = the node's total inflow (C02), by
    induction on the number of leaving links; and invariance of the share under a common
    positive scaling of the turn rates (C14)"""
    net = G.GhostNet(interp)
    n = T.var("n", T.REF)
    T_ = rv("T")
    net.node_facts(n)
    Q = V.node_inflow(n, T_)
    beta = lambda k: V.fld("turnrate", G.out_link(n, k))
    kout = G.n_out(n)
    S = psum(beta, kout)
    c.assume(T.ne(S, 0))
    share = lambda k: M.inflow_share(beta(k), S, Q)
    m = T.var("m", INT)
    c.assume(T.le(0, m))
    # the induction is carried out for an arbitrary total inflow X (the lemma does not depend on
    # what the inflow is made of), then instantiated at X := the node's inflow
    X = rv("X")
    shareX = lambda k: M.inflow_share(beta(k), S, X)
    PX = lambda mm: T.eq(S * psum(shareX, mm), X * psum(beta, mm))
    lemma(c, "node balance, induction base", PX(0))
    lemma(c, "node balance, induction step", T.implies(PX(m), PX(T.add(m, 1))))
    # conclusion for an arbitrary total inflow X; the node's own inflow (entering last-segment flows +
    # origin flow) is an instance (X := node_inflow), and the proved postcondition of
    # Node.get_upstream_speed_and_flow is exactly share_k with that X (next obligation)
    lemma(c, "flows entering the leaving links sum to the node's total inflow (entering links plus origin)",
          T.implies(PX(kout), T.eq(psum(shareX, kout), X)))
    # the same through the proved postcondition term of Node.get_upstream_speed_and_flow
    k = c.fresh_index(kout, "k")
    net.out_edge_facts(n, k)
    lemma(c, "the share of a leaving link is its turn rate over the sum of the turn rates",
          T.eq(V.upstream_flow(n, G.out_link(n, k), T_), beta(k) / A.vsum(V.leaving_turnrates(n)) * Q))
    # scaling (C14)
    cs_ = rv("c")
    c.assume(T.lt(0, cs_))
    sbeta = lambda kk: cs_ * beta(kk)
    Pm = lambda mm: T.eq(psum(sbeta, mm), cs_ * psum(beta, mm))
    lemma(c, "scaled turn rates, induction base", Pm(0))
    lemma(c, "scaled turn rates, induction step", T.implies(Pm(m), Pm(T.add(m, 1))))
    c.assume(Pm(kout))
    lemma(c, "multiplying all turn rates of a node by a common positive factor leaves every share unchanged",
          T.eq(M.inflow_share(cs_ * beta(k), psum(sbeta, kout), X), M.inflow_share(beta(k), S, X)))


def run_link_balance(interp, c):
    """telescoping: sum_i lam*L*(rho+_i - rho_i) = T*(q_up,0 - q_{N-1}) with q_up the shifted flows"""
    N = T.var("len.N", INT)
    c.axiom(T.le(1, N))
    rho_f, v_f = T.uf("in.rho", [INT], REAL), T.uf("in.v", [INT], REAL)
    lam, L, T_, q0 = rv("lam"), rv("L"), rv("T"), rv("q_up0")
    c.assume(T.ne(lam, 0))
    c.assume(T.ne(L, 0))
    q = lambda i: M.flow(rho_f(i), v_f(i), lam)
    qup = lambda i: T.ite(T.eq(i, 0), q0, q(T.sub(i, 1)))
    dveh = lambda i: lam * L * (M.next_density(rho_f(i), q(i), qup(i), lam, L, T_) - rho_f(i))
    m = T.var("m", INT)
    c.assume(T.le(1, m))
    P = lambda mm: T.eq(psum(dveh, mm), T_ * (q0 - q(T.sub(mm, 1))))
    lemma(c, "link balance, induction base (one segment)", P(1))
    lemma(c, "link balance, induction step", T.implies(P(m), P(T.add(m, 1))))
    c.assume(P(N))
    lemma(c, "vehicles in a link change by T times (inflow of the first segment minus outflow of the last)", T.eq(psum(dveh, N), T_ * (q0 - q(T.sub(N, 1)))))
    # origin queue
    w, d, qo = rv("w"), rv("d"), rv("q_o")
    lemma(c, "a queue changes by T times (demand minus admitted flow)", T.eq(M.queue_next(w, d, qo, T_) - w, T_ * (d - qo)))


# ---- C10: footprints ----------------------------------------------------------------------------
STATE_UFS = ("uf:st.rho", "uf:st.v", "uf:act.v_ctrl", "uf:sc.w", "uf:sc.d", "uf:sc.r", "uf:sc.q", "uf:sc.v_ctrl")


def run_footprint(interp, c):
    from pyvc import vc as VC

    net = G.GhostNet(interp)
    l = T.var("l", T.REF)
    c.axiom(G.link_in_net(l))
    net.link_facts(l)
    tau, eta, kappa, T_, delta, phi = (rv(x) for x in ("tau", "eta", "kappa", "T", "delta", "phi"))
    N = G.f_N(l)
    c.axiom(T.le(1, N))
    i = c.fresh_index(N, "k")
    nu, nd = G.up(l), G.down(l)
    net.node_facts(nu)
    net.node_facts(nd)
    rho_next = V.link_next_density_at(l, i, T_, T.FALSE)
    v_next = V.link_next_speed_at(l, i, tau, eta, kappa, T_, delta, phi, T.FALSE)

    def reads(term):
        return [t for t in VC.collect([term], lambda t: t.op in STATE_UFS)]

    def owner_ok(t, allowed):
        """Bool term: the state read t is one of the allowed reads"""
        alts = []
        for (op, ref, idx) in allowed:
            if t.op != op:
                continue
            cond = T.eq(t.args[0], ref)
            if idx is not None and len(t.args) > 1:
                cond = T.and_(cond, T.eq(t.args[1], idx))
            alts.append(cond)
        return T.or_(*alts) if alts else T.FALSE

    # interior segment: own segment and the immediate neighbours only
    interior = T.and_(T.lt(0, i), T.lt(i, T.sub(N, 1)))
    hy = list(c.axioms.values()) + c.hyps + [T.lt(0, i), T.lt(i, T.sub(N, 1))]
    for name, term, allowed in (
        ("next density of an interior segment", rho_next,
         [("uf:st.rho", l, i), ("uf:st.v", l, i), ("uf:st.rho", l, T.sub(i, 1)), ("uf:st.v", l, T.sub(i, 1))]),
        ("next speed of an interior segment", v_next,
         [("uf:st.rho", l, i), ("uf:st.v", l, i), ("uf:st.v", l, T.sub(i, 1)), ("uf:st.rho", l, T.add(i, 1)), ("uf:act.v_ctrl", l, None)]),
    ):
        t2 = VC.simplify_goal(hy, T.eq(term, rv("dummy")))
        log = []
        t2 = VC.decide_conditions(VC._augment(hy, None, False), t2, log)
        for rd in reads(t2):
            lemma(c, f"{name} reads only its own and the adjacent segments' state ({rd.op[3:]})", T.implies(interior, owner_ok(rd, allowed)))
    # first segment: own state, the node inflow terms (last segments of the entering links, inside
    # the sums; the node's origin and the first segment of the origin's link = this link's node)
    o_up = G.origin_of(nu)
    first_allowed = [("uf:st.rho", l, None), ("uf:st.v", l, None)] + [(op, o_up, None) for op in STATE_UFS if op.startswith("uf:sc.")] \
        + [("uf:st.rho", G.out_link(nu, T.const(0, INT)), T.const(0, INT)), ("uf:st.v", G.out_link(nu, T.const(0, INT)), T.const(0, INT)), ("uf:act.v_ctrl", l, None)]
    hy0 = list(c.axioms.values()) + c.hyps + [T.eq(i, 0), T.le(2, N)]
    for name, term in (("next density of the first segment", rho_next), ("next speed of the first segment", v_next)):
        t2 = VC.simplify_goal(hy0, T.eq(term, rv("dummy")))
        t2 = VC.decide_conditions(VC._augment(hy0, None, False), t2, [])
        for rd in reads(t2):
            okk = owner_ok(rd, first_allowed)
            if len(rd.args) > 1 and rd.op in ("uf:st.rho", "uf:st.v"):
                r_ = rd.args[0]
                own = T.and_(T.eq(r_, l), T.or_(T.eq(rd.args[1], 0), T.eq(rd.args[1], 1)))
                # syntactically an entry of the upstream node's in-link list, at its last segment
                entering_last = T.and_(T.eq(r_.args[0], nu), T.eq(rd.args[1], T.sub(G.f_N(r_), 1))) if r_.op == "uf:in_link" else T.FALSE
                origin_link = T.and_(T.eq(r_, G.out_link(G.node_of_origin(o_up), T.const(0, INT))), T.eq(rd.args[1], 0))
                okk = T.or_(own, entering_last, origin_link)
            lemma(c, f"{name} (link of two or more segments) reads only: its own first two segments, last segments of links entering its upstream node, that node's origin and the first segment of the origin's link ({rd.op[3:]})",
                  T.implies(T.and_(T.eq(i, 0), T.le(2, N)), okk))
        # inside the sums: only the last segments of the links entering the upstream node
        for sm in VC.collect([t2], lambda t: t.op == "sum"):
            for rd in VC.collect([sm.args[0]], lambda t: t.op in STATE_UFS):
                ok_in = T.FALSE
                if rd.op in ("uf:st.rho", "uf:st.v") and rd.args[0].op == "uf:in_link":
                    ok_in = T.and_(T.eq(rd.args[0].args[0], nu), T.eq(rd.args[1], T.sub(G.f_N(rd.args[0]), 1)))
                lemma(c, f"{name}: the sums over the entering links read only their last segments ({rd.op[3:]})", T.implies(T.le(2, N), ok_in))
    # a segment's speed limit entry: only the sign of that segment
    lst = G.vsl_of(l)
    p = lst.pos(i)
    t2 = V.link_veq_at(l, i)
    for rd in reads(t2):
        if rd.op == "uf:act.v_ctrl":
            lemma(c, "the equilibrium speed of a segment reads only that segment's own speed limit", T.implies(T.le(0, p), T.eq(lst.at(rd.args[1]), i)))
    # origin queue: own queue, demand, control and the first segment of its link
    o = T.var("o", T.REF)
    c.axiom(G.origin_in_net(o))
    net.origin_facts(o)
    lk = V.origin_link(o)
    wn = V.origin_next_queue(o, T_, T.FALSE)
    allowed = [(op, o, None) for op in STATE_UFS if op.startswith("uf:sc.")] + [("uf:st.rho", lk, T.const(0, INT)), ("uf:st.v", lk, T.const(0, INT))]
    for rd in reads(wn):
        lemma(c, f"the next queue of an origin reads only its own variables and the first segment of its link ({rd.op[3:]})", owner_ok(rd, allowed))


def run_sum_signs(interp, c):
    """the two facts instantiated by pyvc.vc.sum_sign_lemmas: by induction on the length"""
    f = T.uf("in.f", [INT], REAL)
    body = lambda i: f(i)
    m = T.var("m", INT)
    c.assume(T.le(1, m))
    allpos = lambda mm: T.TRUE
    # P(m): (forall i < m. f(i) > 0) -> psum(m) > 0, with the quantifier skolemised per instance:
    # step: psum(m) > 0 and f(m) > 0  ->  psum(m+1) > 0;  base: f(0) > 0 -> psum(1) > 0
    lemma(c, "sum of positive terms is positive, base (one term)", T.implies(T.lt(0, f(0)), T.lt(0, psum(body, 1))))
    lemma(c, "sum of positive terms is positive, step", T.implies(T.and_(T.lt(0, psum(body, m)), T.lt(0, f(m))), T.lt(0, psum(body, T.add(m, 1)))))
    lemma(c, "sum of non-negative terms is non-negative, base (no term)", T.le(0, psum(body, 0)))
    m0 = T.var("m0", INT)
    c.assume(T.le(0, m0))
    lemma(c, "sum of non-negative terms is non-negative, step", T.implies(T.and_(T.le(0, psum(body, m0)), T.le(0, f(m0))), T.le(0, psum(body, T.add(m0, 1)))))


def run_sum_membership(interp, c):
    """the two facts about finite sums instantiated by contracts/valid_agg_tasks.py
    (sum_member, sum_witness): by induction on the length, for an arbitrary body f"""
    f = T.uf("in.g", [INT], REAL)
    body = lambda i: f(i)
    m, i = T.var("m", INT), T.var("i", INT)
    c.assume(T.le(0, m))
    c.assume(T.le(0, i))
    # S1: f >= 0 everywhere  ->  forall i < n. f(i) <= psum(n).   Induction on n for a fixed i.
    lemma(c, "a term of a sum of non-negative terms is at most the sum, base (no term)", T.implies(T.lt(i, 0), T.le(f(i), psum(body, 0))))
    lemma(c, "a term of a sum of non-negative terms is at most the sum, step",
          T.implies(T.and_(T.implies(T.lt(i, m), T.le(f(i), psum(body, m))), T.le(0, psum(body, m)), T.le(0, f(m)), T.le(0, f(i)), T.lt(i, T.add(m, 1))),
                    T.le(f(i), psum(body, T.add(m, 1)))))
    # S2: (forall i < n. f(i) <= 0) -> psum(n) <= 0, i.e. a positive sum has a positive term
    lemma(c, "a sum of non-positive terms is non-positive, base (no term)", T.le(psum(body, 0), 0))
    lemma(c, "a sum of non-positive terms is non-positive, step", T.implies(T.and_(T.le(psum(body, m), 0), T.le(f(m), 0)), T.le(psum(body, T.add(m, 1)), 0)))


def run_lean(interp, c):
    """the Lean lemma file: quick tier = the committed proof-check stamp matches the file;
    thorough tier = lean re-checks the file (about 2-4 minutes, Mathlib import)"""
    import hashlib, json, os, subprocess

    here = os.path.dirname(os.path.dirname(os.path.abspath(__file__)))
    f = os.path.join(here, "lemmas", "Metanet.lean")
    src = open(f, "rb").read()
    stamp = json.load(open(f + ".checked"))
    ok = hashlib.sha256(src).hexdigest() == stamp.get("sha256")
    c.oblige("lemma", "lemmas/Metanet.lean is the file whose Lean check is recorded in Metanet.lean.checked", T.const(ok), assume_after=False)
    names = ("fd_max", "network_balance", "sum_enum", "sum_perm", "flatMap_length_congr", "term_le_sum_range", "exists_pos_of_sum_range_pos", "exp_pos'", "exp_le_one_of_nonpos", "log_nonpos'", "rpow_nonneg'", "zero_rpow'", "one_rpow'")
    text = src.decode()
    for nme in names:
        c.oblige("lemma", f"Lean theorem Metanet.{nme} is stated in the checked file (no sorry in the file)", T.const(__import__("re").search(r"theorem " + __import__("re").escape(nme) + r"\s", text) is not None and "sorry" not in text), assume_after=False)
    if os.environ.get("VERIF_TIER_EFFECTIVE") == "thorough":
        try:
            p = subprocess.run(["lean", f], capture_output=True, text=True, timeout=1500, cwd=os.path.dirname(f))
            out = p.stdout + p.stderr
            good = p.returncode == 0 and "error" not in out.lower() and "sorryAx" not in out
        except Exception as e:  # noqa: BLE001
            good, out = False, str(e)
        c.oblige("lemma", "lean accepts lemmas/Metanet.lean (axioms: propext, Classical.choice, Quot.sound only)", T.const(good), assume_after=False, meta={"lean_output": out[-800:]})


def all_tasks():
    return [
        Task("lemma:sum-signs", run_sum_signs, props=("C07",), func="pyvc.vc.sum_sign_lemmas"),
        Task("lemma:sum-membership", run_sum_membership, props=("C06",), func="contracts.valid_agg_tasks.sum_member/sum_witness"),
        Task("lean:lemmas/Metanet.lean", run_lean, props=("C02", "C04", "C06", "C14", "C17", "C18"), func="lemmas/Metanet.lean"),
        Task("lemma:origin-flow-bounds(ramps)", run_c17_ramps, props=("C17",), func="EngineSpec.origins.get_ramp_flow/get_simplifiedramp_flow"),
        Task("lemma:origin-flow-bounds(mainstream)", run_c17_mainstream, props=("C17",), func="EngineSpec.origins.get_mainstream_flow"),
        Task("lemma:mainstream-flow-vs-Hegyi", run_c01_mainstream_hegyi, props=("C01",), func="EngineSpec.origins.get_mainstream_flow"),
        Task("lemma:neutral-controls(origins)", run_c18_prims, props=("C18",), func="EngineSpec.origins.*"),
        Task("lemma:neutral-controls(speed limits)", run_c18_vsl, props=("C18",), func="EngineSpec.links.controlled_Veq/step_speed"),
        Task("lemma:neutral-controls(LinkWithVsl)", run_c18_element, props=("C18",), func="LinkWithVsl.step_dynamics (postcondition)"),
        Task("lemma:node-balance-and-scaling", run_node_balance, props=("C02", "C14"), func="Node.get_upstream_speed_and_flow (postcondition)"),
        Task("lemma:link-balance", run_link_balance, props=("C02",), func="EngineSpec.links.step_density / origins.step_queue"),
        Task("lemma:footprints", run_footprint, props=("C10",), func="Link.step_dynamics / origin step_dynamics (postconditions)"),
    ]
