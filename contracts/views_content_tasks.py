"""Content of the lookups the element layer relies on (the ghost view, contracts/ghost.py):
the real bodies of Network.origins, origins_by_node, destinations, destinations_by_node and
nodes_by_link are executed on a graph with a symbolic number of nodes and edges and arbitrary
attachments, and what they return is proved to be what the ghost view assumes:

    origins[o] = n            <=>  n is a node of the graph whose attribute dict has the origin o
    origins_by_node[n] = o    <=>  (same)
    destinations / destinations_by_node: likewise
    nodes_by_link[l] = (u, d) <=>  l is the link of the edge u -> d

(membership included: a key is present iff such a node / edge exists).  The graph is well formed
(its nodes are distinct, as keys of a dict are) and satisfies validity condition (1): no origin,
destination or link sits in two places - that is what makes the inverse lookups functions.

Dict comprehensions over a symbolic sequence, `.keys()/.values()/.items()`, `zip` and `dict`
are modelled by *guarded symbolic dicts* (SDict): entries (key(i), val(i)) for the indices i < n
with guard(i); python's semantics (a repeated key keeps its last value) is the definition of
idx(k) = the last index with key k:
    k in D   :=  0 <= idx(k) < n and guard(idx(k)) and key(idx(k)) = k
    D[k]     :=  val(idx(k))
    for every i: guard(i) and key(i) = k  ->  k in D and i <= idx(k)      (instantiated by hand)
    D.keys()/values()/items(): the entries at the surviving indices (idx(key(i)) = i).
What is assumed: networkx's node and edge enumeration (`nodes.data()` lists every node once with
its attribute dict; the link view lists every edge once as (u, d, link) - the wrapper's own
`__iter__` is checked against that in the last task)."""
from __future__ import annotations

import itertools

from pyvc import terms as T
from pyvc.ctx import cur
from pyvc.interp import BoundMethod, PyRaise, _SymbolicIterationNeeded
from pyvc.summary import summarise
from pyvc.values import Builtin, PropertyValue, SSeq, Unsupported
from pyvc.vc import Task
from contracts import ghost as G
from contracts.valid_tasks import NodeData, Slot, NETQ

R, I, B = T.REF, T.INT, T.BOOL
node_at = T.uf("g.node", [I], R)
link_at = T.uf("g.link", [I], R)
eu = T.uf("g.edge_up", [I], R)
ed = T.uf("g.edge_down", [I], R)
P_V = ("C01", "C02", "C05", "C07", "C08", "C10", "C14")
_uid = itertools.count()


def inrange(i, n):
    return T.and_(T.le(0, i), T.lt(i, n))


def subst_value(v, m):
    if isinstance(v, T.Term):
        return T.substitute(v, m)
    if isinstance(v, Slot):
        return Slot(T.substitute(v.term, m))
    if isinstance(v, NodeData):
        return NodeData(T.substitute(v.node, m))
    if isinstance(v, tuple):
        return tuple(subst_value(x, m) for x in v)
    if isinstance(v, (str, int, bool)) or v is None:
        return v
    raise Unsupported(f"value of type {type(v).__name__} in a symbolic collection")


def same_value(a, b):
    """equality of two collection values as a term"""
    if isinstance(a, Slot) and isinstance(b, Slot):
        return T.eq(a.term, b.term)
    if isinstance(a, tuple) and isinstance(b, tuple) and len(a) == len(b):
        return T.and_(*[same_value(x, y) for x, y in zip(a, b)])
    return T.FALSE


class GSeq(SSeq):
    """guarded symbolic sequence: item(i) is present iff guard(i)"""

    def __init__(self, n, guard, elem, desc, base=None):
        super().__init__(n, elem, desc)
        self.guard = guard
        self.base = base if base is not None else object()


def as_gseq(seq):
    if isinstance(seq, GSeq):
        return seq
    return GSeq(seq.n, lambda i: T.TRUE, seq.elem, seq.desc)


class SDict:
    def __init__(self, n, guard, key, val, desc):
        self.n, self.guard, self.key, self.val, self.desc = n, guard, key, val, desc
        self.idx = T.uf(f"idx.{desc}.{next(_uid)}", [R], I)
        self.base = object()

    # definitions ------------------------------------------------------------------
    def contains_term(self, k):
        j = self.idx(k)
        return T.and_(inrange(j, self.n), self.guard(j), T.eq(self.key(j).term, k))

    def universal(self, i, k):
        """instance of: guard(i) and key(i) = k  ->  k in D and i <= idx(k)"""
        return T.implies(T.and_(inrange(i, self.n), self.guard(i), T.eq(self.key(i).term, k)), T.and_(self.contains_term(k), T.le(i, self.idx(k))))

    def survives(self, i):
        return T.and_(self.guard(i), T.eq(self.idx(self.key(i).term), i))

    # python protocol ---------------------------------------------------------------
    def pyvc_contains(self, interp, k):
        if not isinstance(k, Slot):
            raise Unsupported("membership of a non-object key in a symbolic dict")
        return self.contains_term(k.term)

    def pyvc_getitem(self, interp, k):
        if not isinstance(k, Slot):
            raise Unsupported("lookup of a non-object key in a symbolic dict")
        cur().oblige("safe", f"key present in {self.desc}", self.contains_term(k.term))
        return self.val(self.idx(k.term))

    def _view(self, what):
        f = {"keys": self.key, "values": self.val, "items": lambda i: (self.key(i), self.val(i))}[what]
        return GSeq(self.n, self.survives, f, f"{self.desc}.{what}()", base=self.base)

    def pyvc_getattr(self, interp, name):
        if name in ("keys", "values", "items"):
            return Builtin(f"{self.desc}.{name}", lambda it, a, k: self._view(name))
        raise Unsupported(f"{self.desc}.{name}")

    def pyvc_iter(self, interp):
        raise _SymbolicIterationNeeded(self._view("keys"))


def comp_rule(it, node, seq, env, kind):
    """dict / filtered comprehension over a (guarded) symbolic sequence -> SDict / GSeq"""
    from pyvc.loops import _child_env

    g = node.generators[0]
    seq = as_gseq(seq)
    snapshot = dict(env.vars)
    J = T.fresh("comp_i", I)

    def conds_at():
        e2 = _child_env(it, env)
        e2.vars.update(snapshot)
        it.assign(g.target, seq.elem(J), e2)
        cs = [T.lift(it.truth_term(it.eval(cond, e2))) for cond in g.ifs]
        return T.and_(*cs) if cs else T.TRUE

    filt = conds_at()

    def run_once():
        e2 = _child_env(it, env)
        e2.vars.update(snapshot)
        it.assign(g.target, seq.elem(J), e2)
        if kind == "dict":
            return (it.eval(node.key, e2), it.eval(node.value, e2))
        return it.eval(node.elt, e2)

    assuming = [x for x in (seq.guard(J), filt) if x is not T.TRUE]
    paths = summarise(run_once, assuming=assuming)
    if len(paths) != 1 or paths[0].kind != "ok":  # (a single path: its condition is made of facts it proved on the way)
        raise Unsupported("comprehension element branches or raises")
    res = paths[0].value
    guard = lambda i: T.and_(seq.guard(i), T.substitute(filt, {J: i}))
    if kind == "dict":
        kJ, vJ = res
        if not isinstance(kJ, Slot):
            raise Unsupported("symbolic dict keyed by something else than an object")
        return SDict(seq.n, guard, lambda i: subst_value(kJ, {J: i}), lambda i: subst_value(vJ, {J: i}), f"comp@{node.lineno}")
    return GSeq(seq.n, guard, lambda i: subst_value(res, {J: i}), f"comp@{node.lineno}", base=seq.base)


class CNodes:
    def __init__(self, net):
        self.net = net

    def pyvc_iter(self, interp):
        raise _SymbolicIterationNeeded(SSeq(self.net.nN, lambda i: Slot(node_at(i)), "nodes"))

    def pyvc_getattr(self, interp, name):
        net = self.net
        if name == "data":
            return Builtin("nodes.data", lambda it, a, k: SSeq(net.nN, lambda i: (Slot(node_at(i)), NodeData(node_at(i))), "nodes.data()"))
        if name == "values":
            return Builtin("nodes.values", lambda it, a, k: SSeq(net.nN, lambda i: NodeData(node_at(i)), "nodes.values()"))
        raise Unsupported(f"nodes.{name}")


class CGraph:
    def __init__(self, net):
        self.net = net

    def pyvc_getattr(self, interp, name):
        if name == "nodes":
            return CNodes(self.net)
        raise Unsupported(f"_graph.{name}")


class CNet:
    """`self` of the property bodies: a graph given by its node and edge enumerations"""

    def __init__(self, interp):
        c = cur()
        self.interp = interp
        self.nN, self.nL = T.var("n_nodes", I), T.var("n_links", I)
        c.axiom(T.le(0, self.nN))
        c.axiom(T.le(0, self.nL))
        self.K = interp.load_module(NETQ).ns["Network"]
        self.cache = {}

    def pyvc_getattr(self, interp, name):
        if name == "_graph":
            return CGraph(self)
        if name == "nodes":
            return CNodes(self)
        if name in ("links", "out_links"):
            # contract of the link view (checked against the wrapper's __iter__ below)
            return SSeq(self.nL, lambda j: (Slot(eu(j)), Slot(ed(j)), Slot(link_at(j))), "links")
        if name in self.cache:
            return self.cache[name]
        prop, _ = self.K.lookup(name)
        if isinstance(prop, PropertyValue):
            interp.inline_only.add(prop.fget.qualname)
            v = interp.call(prop.fget, [self], {})
            self.cache[name] = v
            return v
        from pyvc.values import FuncValue

        if isinstance(prop, FuncValue):  # a (private) helper method of Network: run its real body on this graph
            interp.inline_only.add(prop.qualname)
            return BoundMethod(prop, self)
        raise Unsupported(f"Network.{name} in a lookup body")

    def pyvc_is_none(self):
        return False

    # assumptions on the graph ----------------------------------------------------------------
    def nodes_distinct(self, i, j):
        return T.implies(T.and_(inrange(i, self.nN), inrange(j, self.nN), T.eq(node_at(i), node_at(j))), T.eq(i, j))

    def no_dup(self, what, i, j):
        """validity condition (1) for the attachments at node indices i, j / the links of edges i, j"""
        if what == "link":
            return T.implies(T.and_(inrange(i, self.nL), inrange(j, self.nL), T.eq(link_at(i), link_at(j))), T.eq(i, j))
        has, of = (G.has_origin, G.origin_of) if what == "origin" else (G.has_dest, G.dest_of)
        return T.implies(T.and_(inrange(i, self.nN), inrange(j, self.nN), has(node_at(i)), has(node_at(j)), T.eq(of(node_at(i)), of(node_at(j)))), T.eq(i, j))


def setup(interp):
    interp.comp_rule = comp_rule
    old_zip, old_dict = interp.builtins["zip"], interp.builtins["dict"]

    def _zip(it, a, k):
        if a and all(isinstance(x, GSeq) for x in a):
            if len({id(x.base) for x in a}) != 1:
                raise Unsupported("zip of symbolic sequences with different index sets")
            x0 = a[0]
            return GSeq(x0.n, x0.guard, lambda i: tuple(x.elem(i) for x in a), "zip", base=x0.base)
        return old_zip.fn(it, a, k)

    def _dict(it, a, k):
        if a and isinstance(a[0], GSeq) and not k:
            s = a[0]
            probe = s.elem(T.fresh("probe", I))
            if not (isinstance(probe, tuple) and len(probe) == 2 and isinstance(probe[0], Slot)):
                raise Unsupported("dict() of a symbolic sequence that is not made of (object, value) pairs")
            return SDict(s.n, s.guard, lambda i: s.elem(i)[0], lambda i: s.elem(i)[1], "dict(...)")
        return old_dict.fn(it, a, k)

    interp.builtins["zip"] = Builtin("zip", _zip)
    interp.builtins["dict"] = Builtin("dict", _dict)
    return CNet(interp)


def lookup_task(prop, what, direction):
    """direction 'by_object': {object: node};  'by_node': {node: object}"""
    has, of = (G.has_origin, G.origin_of) if what == "origin" else (G.has_dest, G.dest_of)

    def run(interp, c):
        net = setup(interp)
        try:
            D = net.pyvc_getattr(interp, prop)
        except PyRaise as e:
            c.oblige("safe", f"Network.{prop} raises nothing ({e.exc.cls_name})", T.FALSE, assume_after=False)
            return
        ok = isinstance(D, SDict)
        c.oblige("post", f"Network.{prop} is a dict built from the node enumeration", T.const(ok), assume_after=False)
        if not ok:
            return
        base = net.cache.get(what + "s") if direction == "by_node" else None
        # (a) every node with such an attachment is found, with the right value
        i = c.fresh_index(net.nN, "i")
        n, o = node_at(i), of(node_at(i))
        if direction == "by_object":
            k, want = o, Slot(n)
            c.axiom(D.universal(i, k))
            c.axiom(net.no_dup(what, i, D.idx(k)))
        else:
            k, want = n, Slot(o)
            if isinstance(base, SDict):  # the entry of node i in the underlying {object: node} dict survives
                c.axiom(base.universal(i, o))
                c.axiom(net.no_dup(what, i, base.idx(o)))
            c.axiom(D.universal(i, k))
            c.axiom(net.nodes_distinct(i, D.idx(k)))
        c.oblige("post", f"{prop}: the key of every node with a {what} is present", T.implies(T.and_(inrange(i, net.nN), has(n)), D.contains_term(k)), assume_after=False)
        c.oblige("post", f"{prop}: and maps to the {'node' if direction == 'by_object' else what} it belongs to",
                 T.implies(T.and_(inrange(i, net.nN), has(n)), same_value(D.val(D.idx(k)), want)), assume_after=False)
        # (b) nothing else is in it
        x = T.var("x", R)
        w = D.idx(x)
        if direction == "by_object":
            fact = T.and_(inrange(w, net.nN), has(node_at(w)), T.eq(of(node_at(w)), x), same_value(D.val(w), Slot(node_at(w))))
        else:
            fact = T.and_(inrange(w, net.nN), T.eq(node_at(w), x), has(x), same_value(D.val(w), Slot(of(x))))
        c.oblige("post", f"{prop}: a key is present only if it is the {what if direction == 'by_object' else 'node'} of such a node of the graph, with that value",
                 T.implies(D.contains_term(x), fact), assume_after=False)

    return Task(f"{NETQ}:Network.{prop}<content>", run, props=P_V, func=f"{NETQ}:Network.{prop}", config="content on a symbolic graph")


def nodes_by_link_task():
    def run(interp, c):
        net = setup(interp)
        try:
            D = net.pyvc_getattr(interp, "nodes_by_link")
        except PyRaise as e:
            c.oblige("safe", f"Network.nodes_by_link raises nothing ({e.exc.cls_name})", T.FALSE, assume_after=False)
            return
        ok = isinstance(D, SDict)
        c.oblige("post", "Network.nodes_by_link is a dict built from the edge enumeration", T.const(ok), assume_after=False)
        if not ok:
            return
        j = c.fresh_index(net.nL, "j")
        l = link_at(j)
        c.axiom(D.universal(j, l))
        c.axiom(net.no_dup("link", j, D.idx(l)))
        c.oblige("post", "nodes_by_link: the link of every edge is present", T.implies(inrange(j, net.nL), D.contains_term(l)), assume_after=False)
        c.oblige("post", "nodes_by_link: and maps to (upstream node, downstream node) of its edge",
                 T.implies(inrange(j, net.nL), same_value(D.val(D.idx(l)), (Slot(eu(j)), Slot(ed(j))))), assume_after=False)
        x = T.var("x", R)
        w = D.idx(x)
        c.oblige("post", "nodes_by_link: a key is present only if it is the link of an edge, with that edge's end nodes",
                 T.implies(D.contains_term(x), T.and_(inrange(w, net.nL), T.eq(link_at(w), x), same_value(D.val(w), (Slot(eu(w)), Slot(ed(w)))))), assume_after=False)

    return Task(f"{NETQ}:Network.nodes_by_link<content>", run, props=P_V, func=f"{NETQ}:Network.nodes_by_link", config="content on a symbolic graph")


def refinement_task(what):
    """The ghost view's facts about origins / destinations (contracts/ghost.py: GhostNet.node_facts,
    origin_facts / dest_facts, and what _Lookup answers for the four lookups) are *derived* here from
    what the real lookup bodies return on the symbolic graph, instead of being identified by hand:
    with   x in the network  :=  x in Network.<what>s    and    node_of(x) := Network.<what>s[x]
    every fact the ghost view emits at a node of the graph / at an attached object (except class
    membership, which is the closed-world assumption) is an obligation, and the ghost answers of
    <what>s_by_node (membership, value) must equal those of the real dict."""
    plural = what + "s"
    has, of = (G.has_origin, G.origin_of) if what == "origin" else (G.has_dest, G.dest_of)
    in_net, node_of = (G.origin_in_net, G.node_of_origin) if what == "origin" else (G.dest_in_net, G.node_of_dest)

    def run(interp, c):
        from pyvc.values import ObjRef

        net = setup(interp)
        try:
            D = net.pyvc_getattr(interp, plural)
            Dn = net.pyvc_getattr(interp, plural + "_by_node")
        except PyRaise as e:
            c.oblige("safe", f"Network.{plural} raises nothing ({e.exc.cls_name})", T.FALSE, assume_after=False)
            return
        ok = isinstance(D, SDict) and isinstance(Dn, SDict)
        c.oblige("post", f"Network.{plural} and {plural}_by_node are dicts built from the node enumeration", T.const(ok), assume_after=False)
        if not ok:
            return
        ghost = G.GhostNet(interp, valid=False)
        x0 = T.var("x0", R)

        def define(x):
            """the two definitions, instantiated at x"""
            c.axiom(T.eq(in_net(x), D.contains_term(x)))
            v = D.val(D.idx(x))
            if isinstance(v, Slot):
                c.axiom(T.implies(D.contains_term(x), T.eq(node_of(x), v.term)))

        def instances(i):
            """facts of the guarded dicts at node index i (python's dict semantics + condition (1))"""
            o = of(node_at(i))
            c.axiom(D.universal(i, o))
            c.axiom(net.no_dup(what, i, D.idx(o)))
            c.axiom(Dn.universal(i, node_at(i)))
            c.axiom(net.nodes_distinct(i, Dn.idx(node_at(i))))
            c.axiom(net.no_dup(what, i, Dn.idx(node_at(i))))
            define(o)

        def emitted(fn):
            """the facts the ghost view emits while running fn, conjunct by conjunct"""
            saved = c.axioms
            c.axioms = {}
            try:
                fn()
                out = list(c.axioms.values())
            finally:
                c.axioms = saved
            return out

        def prove(facts, under, label):
            k = 0
            for f in facts:
                ops = {t.op for t in T.subterms([f])}
                if not ({in_net(x0).op, node_of(x0).op} & ops) or ({G.n_in(x0).op, G.n_out(x0).op} & ops):
                    continue  # degrees (networkx), class tags (closed world): not about these lookups
                f = drop_class_facts(f)
                k += 1
                c.oblige("post", f"ghost view refines Network.{plural}: {label} #{k}", T.implies(under, f), assume_after=False)
            c.oblige("post", f"ghost view refines Network.{plural}: {label}: the ghost view states something about them", T.const(k > 0), assume_after=False)

        # (1) at a node of the graph
        i = c.fresh_index(net.nN, "i")
        n = node_at(i)
        instances(i)
        prove(emitted(lambda: ghost.node_facts(n)), inrange(i, net.nN), "facts at a node")
        # (2) at an object the ghost view takes to be attached to the network
        x = T.var("x_" + what, R)
        define(x)
        w = D.idx(x)
        instances(w)
        ghost.touched.clear()
        facts = emitted(lambda: (ghost.origin_facts if what == "origin" else ghost.dest_facts)(x))
        prove(facts, in_net(x), f"facts at an attached {what}")  # (what the view says about node_of(x) is used only once x is known to be attached: the lookup is obliged to find its key)
        # (3) the ghost answers of the by-node lookup
        look = G._Lookup(ghost, plural + "_by_node")
        key = ghost.heap.ref(n, ("Node",))
        present = T.lift(look.pyvc_contains(interp, key))
        c.oblige("post", f"ghost view refines Network.{plural}_by_node: membership of a node of the graph", T.implies(inrange(i, net.nN), T.eq(present, Dn.contains_term(n))), assume_after=False)
        v = Dn.val(Dn.idx(n))
        c.hyps.append(T.and_(inrange(i, net.nN), present))
        try:
            got = look.pyvc_getitem(interp, key)
        finally:
            c.hyps.pop()
        okv = isinstance(v, Slot) and isinstance(got, ObjRef)
        c.oblige("post", f"ghost view refines Network.{plural}_by_node: value at a node of the graph",
                 T.implies(T.and_(inrange(i, net.nN), present), T.eq(got.term, v.term)) if okv else T.FALSE, assume_after=False)
        # (4) and of the by-object lookup
        look = G._Lookup(ghost, plural)
        keyx = ghost.heap.ref(x, G.ORIGIN_CLASSES if what == "origin" else G.DEST_CLASSES)
        present = T.lift(look.pyvc_contains(interp, keyx))
        c.oblige("post", f"ghost view refines Network.{plural}: membership", T.eq(present, D.contains_term(x)), assume_after=False)
        v = D.val(w)
        c.hyps.append(present)
        try:
            got = look.pyvc_getitem(interp, keyx)
        finally:
            c.hyps.pop()
        okv = isinstance(v, Slot) and isinstance(got, ObjRef)
        c.oblige("post", f"ghost view refines Network.{plural}: value", T.implies(present, T.eq(got.term, v.term)) if okv else T.FALSE, assume_after=False)

    return Task(f"{NETQ}:Network.{plural}<ghost view refinement>", run, props=P_V, func=f"{NETQ}:Network.{plural}", config="ghost view derived from the real lookups")


def drop_class_facts(f):
    """remove the conjuncts that speak about the class of an object (closed-world assumption, not a lookup fact)"""
    tag = G.cls_tag(T.var("x0", R)).op

    def is_class(t):
        return any(s.op == tag for s in T.subterms([t]))

    if f.op == "implies":
        a, b = f.args
        return T.implies(a, drop_class_facts(b))
    if f.op == "and":
        return T.and_(*[drop_class_facts(x) for x in f.args if not is_class(x)])
    return T.TRUE if is_class(f) else f


def elements_task():
    """Network.elements enumerates the links (edge order), then the origins, then the destinations"""

    def run(interp, c):
        net = setup(interp)
        from pyvc.interp import _Iter

        old_chain = interp.load_module(NETQ).ns["chain"]
        got = {}

        def chain(it_, a, k):
            got["parts"] = list(a)
            return _Iter([])

        interp.load_module(NETQ).ns["chain"] = Builtin("itertools.chain", chain)
        try:
            net.pyvc_getattr(interp, "elements")
        finally:
            interp.load_module(NETQ).ns["chain"] = old_chain
        parts = got.get("parts", [])
        c.oblige("post", "Network.elements chains three collections", T.const(len(parts) == 3), assume_after=False)
        if len(parts) != 3:
            return
        a, b, d = parts
        okl = isinstance(a, SSeq) and a.n is net.nL
        c.oblige("post", "elements: first one item per edge, in edge order", T.const(okl), assume_after=False)
        if okl:
            j = c.fresh_index(net.nL, "j")
            it_ = a.elem(j)
            c.oblige("post", "elements: ... namely the link of that edge", T.const(isinstance(it_, Slot)) if not isinstance(it_, Slot) else T.eq(it_.term, link_at(j)), assume_after=False)
        c.oblige("post", "elements: then the origins (the keys of Network.origins), then the destinations (the keys of Network.destinations)",
                 T.const(b is net.cache.get("origins") and d is net.cache.get("destinations") and isinstance(b, SDict) and isinstance(d, SDict)), assume_after=False)

    return Task(f"{NETQ}:Network.elements<content>", run, props=("C04", "C01", "C07"), func=f"{NETQ}:Network.elements", config="content on a symbolic graph")


def all_tasks():
    return [
        lookup_task("origins", "origin", "by_object"),
        lookup_task("origins_by_node", "origin", "by_node"),
        lookup_task("destinations", "destination", "by_object"),
        lookup_task("destinations_by_node", "destination", "by_node"),
        nodes_by_link_task(),
        refinement_task("origin"),
        refinement_task("destination"),
        elements_task(),
    ]
