"""Network.step (network.py) on the ghost view: the three loops, in order, each calling the
right method on every element of the right collection with the right arguments.

The loops run over collections of symbolic length; the loop rule evaluates the body once at a
generic element (forking on its class) and the contracts of init_vars / step record the call.
Together with the contracts of init_vars (C11 init half), ElementWithVars.step and the
step_dynamics functions this carries C01/C07/C11/C12/C13 to the network level: every element is
initialised (all of them before anything is stepped), every element with states is stepped
once, with the same engine, the flags of the same name and the caller's parameters."""
from __future__ import annotations

from pyvc import terms as T
from pyvc.ctx import cur
from pyvc.interp import BreakEx, ContinueEx, Env, PyRaise, StarPack
from pyvc.values import ObjRef, Unsupported
from pyvc.vc import Task
from contracts import ghost as G
from contracts.blocks_contracts import check_engine, engine_cfg
from contracts.blocks_tasks import setup_engine, run_guarded, ENGINE_MODES

STEP_Q = "sym_metanet.network:Network.step"


name_of = T.uf("element.name", [T.REF], T.INT)  # names are opaque tokens; two elements may share one
ic_key = T.uf("init_conditions.key", [T.INT], T.REF)


class InitCond:
    """the init_conditions argument: a mapping keyed by elements; .get(el) is the entry of that element.
    An entry is identified by the element whose entry it is (a Ref term)."""

    def __init__(self, net=None):
        self.gets = []
        self.net = net

    def pyvc_getattr(self, interp, name):
        from pyvc.values import Builtin, SSeq

        if name == "get":
            def get(it, a, k):
                if not isinstance(a[0], ObjRef):
                    raise Unsupported(f"init_conditions.get with a key that is not an element: {a[0]!r}")
                tok = ("init_conditions.get", a[0].term)
                self.gets.append(tok)
                return _Entry(tok)

            return Builtin("init_conditions.get", get)
        if name == "items" and self.net is not None:
            n = T.fresh("n_init_conditions", T.INT)
            cur().axiom(T.le(0, n))
            net = self.net
            return Builtin("init_conditions.items", lambda it, a, k: SSeq(n, lambda j: (net.heap.ref(ic_key(j), G.LINK_CLASSES + G.ORIGIN_CLASSES + G.DEST_CLASSES),
                                                                                      _Entry(("init_conditions.item", ic_key(j)))), "init_conditions.items()"))
        raise Unsupported(f"init_conditions.{name}")

    def pyvc_is_none(self):
        return False

    def pyvc_truth(self, interp):
        if not hasattr(self, "_nonempty"):
            self._nonempty = T.fresh("init_conditions_nonempty", T.BOOL)
        return self._nonempty


class ReKeyed:
    """a dict built from init_conditions.items() by a comprehension: entries re-keyed by the element
    itself or by its name.  A lookup by name finds the entry of *some* element with that name (the last
    one inserted) - names are not unique"""

    by_name = T.uf("init_conditions.last_key_named", [T.INT], T.REF)

    def __init__(self, kind):
        self.kind = kind

    def pyvc_getattr(self, interp, name):
        from pyvc.values import Builtin, SymName

        if name == "get":
            def get(it, a, k):
                key = a[0]
                if self.kind == "element" and isinstance(key, ObjRef):
                    return _Entry(("init_conditions.get", key.term))
                if self.kind == "name" and isinstance(key, SymName) and isinstance(key.owner, T.Term):
                    nm = name_of(key.owner)
                    other = ReKeyed.by_name(nm)
                    cur().axiom(T.eq(name_of(other), nm))
                    return _Entry(("init_conditions.get-by-name", other))
                raise Unsupported(f"lookup in the re-keyed init_conditions with {key!r}")

            return Builtin("rekeyed.get", get)
        raise Unsupported(f"re-keyed init_conditions.{name}")

    def pyvc_is_none(self):
        return False


def ic_comp_rule(it, node, seq, env, kind):
    """{key(el): ic for el, ic in init_conditions.items()}"""
    from pyvc.loops import _child_env
    from pyvc.values import SymName

    if kind != "dict" or not getattr(seq, "desc", "").startswith("init_conditions.items"):
        raise Unsupported("dict / filtered comprehension over a symbolic sequence")
    g = node.generators[0]
    if g.ifs:
        raise Unsupported("filtered comprehension over init_conditions")
    e2 = _child_env(it, env)
    e2.vars.update(env.vars)
    J = T.fresh("ic_j", T.INT)
    item = seq.elem(J)
    it.assign(g.target, item, e2)
    k = it.eval(node.key, e2)
    v = it.eval(node.value, e2)
    if v is not item[1]:
        raise Unsupported("init_conditions re-keyed with changed entries")
    if isinstance(k, ObjRef) and k.term is item[0].term:
        return ReKeyed("element")
    if isinstance(k, SymName) and k.owner is item[0].term:
        return ReKeyed("name")
    raise Unsupported(f"init_conditions re-keyed by {k!r}")


class _Entry:
    def __init__(self, tok):
        self.tok = tok

    def pyvc_is_none(self):
        raise Unsupported("test of an init_conditions entry outside init_vars")


class EventContract:
    """init_vars / step called on an element of the network: binds the arguments with the real
    signature (arity errors surface), checks the engine, records the event"""

    family = None

    def __init__(self, what):
        self.what = what

    def apply(self, interp, fn, args, kwargs):
        c = cur()
        recv = args[0]
        if not isinstance(recv, ObjRef):
            raise Unsupported(f"{self.what} on a concrete object inside Network.step")
        env = Env(parent=fn.env, module=fn.module, func=fn)
        interp.bind_args(fn, args, kwargs, env)
        if self.what == "step":
            st = recv.heap.getattr(interp, recv, "states")
            c.oblige("pre", "ElementWithVars.step: the element has states (states is not None)", T.const(st.pyvc_is_none() is False), assume_after=False)
        check_engine(f"{recv.classes[0].name}.{self.what}", kwargs.get("engine"))
        c.events.append({"what": self.what, "recv": recv.term, "classes": tuple(k.name for k in recv.classes), "args": list(args[1:]), "kwargs": dict(kwargs), "fn": fn.qualname})
        return None


def foreach_rule(k):
    def rule(interp, node, seq, env):
        c = cur()
        j = c.fresh_index(seq.n, f"e{k}")
        item = seq.elem(j)
        c.events.append({"what": "loop", "ordinal": k, "over": seq.desc, "item": item})
        interp.assign(node.target, item, env)
        try:
            interp.exec_block(node.body, env)
        except ContinueEx:
            pass
        except BreakEx:
            raise Unsupported("break inside a loop of Network.step")
        c.events.append({"what": "endloop", "ordinal": k})

    return rule


def net_step_task(mode, ic_given):
    label = f"engine={mode},init_conditions={'given' if ic_given else 'None'}"

    def run(interp, c):
        eng = setup_engine(interp, c, mode)
        c.events = []
        netmod = interp.load_module("sym_metanet.network")
        fn = netmod.ns["Network"].ns["step"]
        interp.inline_only.add(fn.qualname)
        interp.loop_rules = {(STEP_Q, k): foreach_rule(k) for k in range(3)}
        for clsname, module in G.CLASS_MODULES.items():
            if clsname == "Node":
                continue
            k = interp.load_module(module).ns[clsname]
            iv = k.ns.get("init_vars")
            if iv is not None:
                interp.contracts[iv.qualname] = EventContract("init_vars")
        base = interp.load_module("sym_metanet.blocks.base").ns["ElementWithVars"]
        interp.contracts[base.ns["step"].qualname] = EventContract("step")
        net = G.GhostNet(interp)
        ic = InitCond(net) if ic_given else None
        interp.comp_rule = ic_comp_rule
        names = ("positive_init_speed", "positive_init_density", "positive_init_queue", "positive_next_speed", "positive_next_density", "positive_next_queue")
        flags = {f: T.var(f, T.BOOL) for f in names}
        others = {"T": T.var("T", T.REAL), "tau": T.var("tau", T.REAL), "eta": T.var("eta", T.REAL), "kappa": T.var("kappa", T.REAL), "delta": T.var("delta", T.REAL)}
        kwargs = dict(init_conditions=ic, **flags, **others)
        if eng is not None:
            kwargs["engine"] = eng
        ok, _ = run_guarded(interp, c, fn, [net], kwargs)
        if not ok:
            return
        ev = c.events
        loops = [e for e in ev if e["what"] == "loop"]
        c.oblige("post", "Network.step runs its three loops: all elements, then the origins, then the links",
                 T.const([l["over"].split(".")[0] for l in loops] == ["elements", "origins", "links"]), assume_after=False)
        if [l["over"].split(".")[0] for l in loops] != ["elements", "origins", "links"]:
            return

        def body_events(k):
            out, inside = [], False
            for e in ev:
                if e["what"] == "loop" and e["ordinal"] == k:
                    inside = True
                elif e["what"] == "endloop" and e["ordinal"] == k:
                    inside = False
                elif inside:
                    out.append(e)
            return out

        # loop 0: every element is initialised with its entry, the engine and the three init flags
        b0 = body_events(0)
        el = loops[0]["item"]
        good = len(b0) == 1 and b0[0]["what"] == "init_vars" and b0[0]["recv"] is el.term
        c.oblige("post", "each element gets exactly one init_vars call", T.const(good), assume_after=False)
        if good:
            kw = b0[0]["kwargs"]
            c.oblige("post", "init_vars takes no positional arguments besides the element", T.const(not b0[0]["args"]), assume_after=False)
            for f in names[:3]:
                c.oblige("post", f"init_vars receives {f} = the step's {f}", T.const(kw.get(f) is flags[f]), assume_after=False)
            c.oblige("post", "init_vars receives no other flag or parameter", T.const(set(kw) <= {"init_conditions", "engine", *names[:3]}), assume_after=False)
            entry = kw.get("init_conditions")
            if ic_given:
                okk = T.eq(entry.tok[1], el.term) if isinstance(entry, _Entry) and isinstance(entry.tok[1], T.Term) else T.FALSE
            else:
                okk = T.const(entry is None)
            c.oblige("post", "init_vars receives this element's own entry of init_conditions (None if there is none)", okk, assume_after=False)
            c.oblige("post", "init_vars receives the engine argument of step unchanged", T.const(kw.get("engine") is eng), assume_after=False)
        # loop 1: every origin with states is stepped
        b1 = body_events(1)
        o = loops[1]["item"]
        has_states = not all(G.VARS[k.name].get("states") is None for k in o.classes) if isinstance(o, ObjRef) else None
        stepped = [e for e in b1 if e["what"] == "step"]
        # on this path the generic origin's class is decided by the has_states test
        cls_known = [e for e in stepped]
        for e in stepped:
            c.oblige("post", "the stepped object is the loop's origin", T.const(e["recv"] is o.term), assume_after=False)
            kw = e["kwargs"]
            c.oblige("post", "origin.step receives net = this network", T.const(kw.get("net") is net and not e["args"]), assume_after=False)
            c.oblige("post", "origin.step receives positive_next_queue = the step's positive_next_queue", T.const(kw.get("positive_next_queue") is flags["positive_next_queue"]), assume_after=False)
            c.oblige("post", "origin.step receives the engine argument of step unchanged", T.const(kw.get("engine") is eng), assume_after=False)
            for p, v in others.items():
                c.oblige("post", f"origin.step receives the caller's parameter {p}", T.const(kw.get(p) is v), assume_after=False)
            c.oblige("post", "origin.step receives no init flag and no link flag", T.const(not (set(kw) & {*names[:5]})), assume_after=False)
        c.oblige("post", "an origin is stepped at most once", T.const(len(stepped) <= 1), assume_after=False)
        if not stepped:
            # only state-less origins may be skipped
            c.oblige("post", "only an origin without states (the ideal origin) is not stepped", T.eq(G.cls_tag(o.term), G.TAGS["Origin"]), assume_after=False)
        # loop 2: every link is stepped
        b2 = body_events(2)
        item = loops[2]["item"]
        l = item[2] if isinstance(item, tuple) and len(item) == 3 else None
        stepped = [e for e in b2 if e["what"] == "step"]
        good = l is not None and len(stepped) == 1 and stepped[0]["recv"] is l.term
        c.oblige("post", "each link is stepped exactly once", T.const(good), assume_after=False)
        if good:
            kw = stepped[0]["kwargs"]
            c.oblige("post", "link.step receives net = this network", T.const(kw.get("net") is net and not stepped[0]["args"]), assume_after=False)
            for f in ("positive_next_speed", "positive_next_density"):
                c.oblige("post", f"link.step receives {f} = the step's {f}", T.const(kw.get(f) is flags[f]), assume_after=False)
            c.oblige("post", "link.step receives the engine argument of step unchanged", T.const(kw.get("engine") is eng), assume_after=False)
            for p, v in others.items():
                c.oblige("post", f"link.step receives the caller's parameter {p}", T.const(kw.get(p) is v), assume_after=False)
            c.oblige("post", "link.step receives no init flag and no queue flag", T.const(not (set(kw) & {*names[:3], "positive_next_queue"})), assume_after=False)
        # order: no step event before the last init_vars event
        idx_init = [i for i, e in enumerate(ev) if e["what"] == "init_vars"]
        idx_step = [i for i, e in enumerate(ev) if e["what"] == "step"]
        c.oblige("post", "every element is initialised before any element is stepped", T.const(not idx_step or not idx_init or max(idx_init) < min(idx_step)), assume_after=False)
        for eff in c.effects:
            if eff[0] in ("global-write", "attr-write"):
                c.oblige("frame", "Network.step writes nothing itself (only through init_vars / step of the elements)", T.FALSE, assume_after=False)

    return Task(f"{STEP_Q}<{label}>", run, props=("C01", "C07", "C11", "C12", "C13", "C14", "C18"), func=STEP_Q, config=label)


def all_tasks():
    return [net_step_task(m, g) for m in ENGINE_MODES for g in (True, False)]
