"""Network.is_valid as a whole (C06), for a graph with a symbolic number of nodes, links and
attachments - the aggregation over all items that contracts/valid_tasks.py leaves open.

The real function is executed from its first to its last statement.  Each of its loops runs
over a *segmented guarded sequence* (segments of symbolic length; per index a fixed number of
slots, each with a guard saying whether the slot yields an item):

    loop 1   links (one slot per edge), then per node the origin slot and the destination slot
             (the real nested generator is summarised per node: it yields a slot's attachment
             exactly when the node's attribute dict has that key);
    loop 2   one slot per node;
    loops 3/4 one slot per node, guarded by "has an origin (destination) and is the last node
             carrying this object" - the dict {object: node} of Network.origins/destinations
             keeps the last node of a repeated key (python dict semantics).

A loop is not unrolled.  Its body is summarised at a generic index (pyvc/summary.py: all paths,
locally), which gives as terms: does iteration i report (append a message / raise)?  and what
does it write to the `count` dict?  The loop rule then states the loop's effect by

    raises=False:  msgs is non-empty afterwards  <=>  it was before, or some iteration reports
                   (skolem witness one way, universal fact instantiated at generic indices the
                   other way);
    raises=True:   the loop raises <=> some iteration raises (witness), else no iteration does;
    count dict:    invariant  count[o] = number of earlier slots holding o  (a prefix sum of
                   indicators); every write of the body is obliged to re-establish it.

The postconditions are the property statement: valid <=> none of the nine documented conditions
is violated anywhere (both directions, with explicit witnesses), InvalidNetworkError exactly when
invalid, invalid => at least one message.  Facts about finite sums used: lemma:sum-membership."""
from __future__ import annotations

import ast

from pyvc import terms as T
from pyvc.arrays import BV
from pyvc.ctx import cur, Infeasible
from pyvc.interp import Env, PyRaise, BoundMethod, ContinueEx, BreakEx
from pyvc.summary import summarise
from pyvc.values import Builtin, SSeq, Unsupported, ExcValue
from pyvc.vc import Task
from contracts import ghost as G
from contracts.valid_tasks import NodeData, Slot, Deg, NETQ

R, I, B = T.REF, T.INT, T.BOOL
REAL = T.REAL
node_at = T.uf("valid.node", [I], R)
link_at = T.uf("valid.link", [I], R)
up_at = T.uf("valid.up", [I], R)
down_at = T.uf("valid.down", [I], R)
ONE, ZERO = T.const(1, REAL), T.const(0, REAL)


def psum(body_at, n):
    return T.Term("sum", (body_at(BV), T.lift(n, I)), REAL)


def inrange(i, n):
    return T.and_(T.le(0, i), T.lt(i, n))


# ---- instances of the sum lemmas (lemma:sum-membership) -------------------------------------------
def sum_member(body_at, n, i):
    """for a non-negative body: 0 <= i < n  ->  body(i) <= sum_{j<n} body(j)"""
    return T.implies(inrange(i, n), T.le(body_at(i), psum(body_at, n)))


def sum_witness(body_at, n, tag):
    """sum_{j<n} body(j) > 0  ->  body(sk) > 0 for some 0 <= sk < n   (skolemised)"""
    sk = T.fresh(f"sk_{tag}", I)
    return sk, T.or_(T.le(psum(body_at, n), 0), T.and_(inrange(sk, n), T.lt(0, body_at(sk))))


# ---- segmented guarded sequences ---------------------------------------------------------------------
class Segment:
    """n indices; slots: list of functions i -> (guard term, item)"""

    def __init__(self, name, n, slots):
        self.name, self.n, self.slots = name, n, slots


class SegSeq:
    pyvc_symbolic_iter = True

    def __init__(self, segments, desc):
        self.segments, self.desc = segments, desc
        self.n = T.fresh("n_items", I)

    def pyvc_iter_obj(self, interp):
        return self

    def elem(self, i):
        raise Unsupported("segmented sequence indexed directly")


class _Product:
    pyvc_symbolic_iter = True

    def __init__(self, seq, lst):
        self.seq, self.lst = seq, lst
        self.n = T.fresh("n_prod", I)
        self.desc = "product"


# ---- recorders used while one iteration is summarised ------------------------------------------------
class RecMsgs:
    def __init__(self):
        self.items = []

    def pyvc_getattr(self, interp, name):
        if name == "append":
            return Builtin("msgs.append", lambda it, a, k: self.items.append(a[0]))
        raise Unsupported(f"msgs.{name}")

    def pyvc_getitem(self, interp, key):
        if key == -1 and self.items:
            return self.items[-1]
        raise Unsupported("msgs[...] other than the message just appended")


class AbsMsgs:
    """the msgs list between loops: only whether it is empty is known"""

    def __init__(self, nonempty):
        self.nonempty = nonempty

    def pyvc_truth(self, interp):
        return self.nonempty

    def pyvc_len(self, interp):
        raise Unsupported("len(msgs)")


class RecCount:
    """count dict inside loop 1 at one slot: get(o, 0) = occurrences of o in earlier slots"""

    def __init__(self, before):
        self.before, self.writes, self.bad_key, self.default = before, [], None, "unset"

    def pyvc_getattr(self, interp, name):
        if name == "get":
            def get(it, a, k):
                self.default = a[1] if len(a) > 1 else None
                if not isinstance(a[0], Slot):
                    self.bad_key = repr(a[0])
                    return T.fresh("count_of_other_key", REAL)
                return self.before(a[0].term)

            return Builtin("count.get", get)
        raise Unsupported(f"count.{name}")

    def pyvc_setitem(self, interp, key, v):
        self.writes.append((key, v))


# ---- the network is_valid reads ----------------------------------------------------------------------
class AggNet:
    def __init__(self, interp):
        c = cur()
        self.interp = interp
        self.nN, self.nL = T.var("n_nodes", I), T.var("n_links", I)
        c.axiom(T.le(0, self.nN))
        c.axiom(T.le(0, self.nL))
        self.ghost = G.GhostNet(interp, valid=False)
        # which node is the last one carrying its origin / destination (dict semantics of
        # Network.origins / Network.destinations: a repeated key keeps the last value)
        self.lastO = T.uf("valid.last_origin_entry", [I], B)
        self.lastD = T.uf("valid.last_dest_entry", [I], B)
        self.nxtO = T.uf("valid.next_same_origin", [I], I)
        self.nxtD = T.uf("valid.next_same_dest", [I], I)

    def last_axioms(self, i):
        """definition of lastO/lastD at index i (skolemised) - python dict semantics"""
        out = []
        for last, nxt, has, of in ((self.lastO, self.nxtO, G.has_origin, G.origin_of), (self.lastD, self.nxtD, G.has_dest, G.dest_of)):
            j = nxt(i)
            out.append(T.or_(last(i), T.and_(T.lt(i, j), T.lt(j, self.nN), has(node_at(j)), T.eq(of(node_at(j)), of(node_at(i))))))
        return T.and_(*out)

    def last_excludes(self, i, j):
        """lastX(i) and a later node j with the same object cannot both be"""
        out = []
        for last, has, of in ((self.lastO, G.has_origin, G.origin_of), (self.lastD, G.has_dest, G.dest_of)):
            out.append(T.implies(T.and_(last(i), T.lt(i, j), T.lt(j, self.nN), has(node_at(j))), T.ne(of(node_at(j)), of(node_at(i)))))
        return T.and_(*out)

    def origin_ref(self, t):
        cur().axiom(T.implies(T.TRUE, T.TRUE))
        return self.ghost.heap.ref(t, G.ORIGIN_CLASSES)

    def dest_ref(self, t):
        return self.ghost.heap.ref(t, G.DEST_CLASSES)

    def pyvc_getattr(self, interp, name):
        if name in ("in_links", "out_links"):
            f = G.n_in if name == "in_links" else G.n_out

            def view(it, a, k):
                t = a[0].term
                cur().axiom(T.le(0, f(t)))
                return Deg(f(t))

            return Builtin(name, view)
        if name == "links":
            return SSeq(self.nL, lambda j: (Slot(up_at(j)), Slot(down_at(j)), Slot(link_at(j))), "links")
        if name == "nodes":
            return _Nodes(self)
        if name == "_graph":
            return _Graph(self)
        if name == "origins":
            return _Attach(self, "origin")
        if name == "destinations":
            return _Attach(self, "destination")
        raise Unsupported(f"Network.{name} in is_valid")


class _Graph:
    def __init__(self, net):
        self.net = net

    def pyvc_getattr(self, interp, name):
        if name == "nodes":
            return _Nodes(self.net)
        raise Unsupported(f"_graph.{name}")


class _Nodes:
    def __init__(self, net):
        self.net = net

    def pyvc_getattr(self, interp, name):
        net = self.net
        if name == "values":
            return Builtin("nodes.values", lambda it, a, k: SSeq(net.nN, lambda i: NodeData(node_at(i)), "node data"))
        if name == "data":
            return Builtin("nodes.data", lambda it, a, k: SegSeq([Segment("nodes", net.nN, [lambda i: (T.TRUE, (Slot(node_at(i)), NodeData(node_at(i))))])], "nodes.data()"))
        raise Unsupported(f"nodes.{name}")


class _Attach:
    """Network.origins / Network.destinations: {object: node}, last node of a repeated object"""

    def __init__(self, net, what):
        self.net, self.what = net, what

    def pyvc_getattr(self, interp, name):
        net = self.net
        if name == "items":
            if self.what == "origin":
                slot = lambda i: (T.and_(G.has_origin(node_at(i)), net.lastO(i)), (net.origin_ref(G.origin_of(node_at(i))), Slot(node_at(i))))
            else:
                slot = lambda i: (T.and_(G.has_dest(node_at(i)), net.lastD(i)), (net.dest_ref(G.dest_of(node_at(i))), Slot(node_at(i))))
            return Builtin(f"{self.what}s.items", lambda it, a, k: SegSeq([Segment(self.what + "s", net.nN, [slot])], f"{self.what}s.items()"))
        raise Unsupported(f"{self.what}s.{name}")


# ---- loop rules ------------------------------------------------------------------------------------------
class Agg:
    """bookkeeping of one whole-function run"""

    def __init__(self, net, raises):
        self.net, self.raises = net, raises
        self.msgs_name = None
        self.loops = []  # per executed loop: dict(seq, report(seg, i), some, witness (seg index, w))
        self.raised_in = None


def _mutated_names(body):
    """(names of lists the body appends to, names of dicts the body writes entries of)"""
    apps, subs = set(), set()
    for st in body:
        for n in ast.walk(st):
            if isinstance(n, ast.Call) and isinstance(n.func, ast.Attribute) and n.func.attr == "append" and isinstance(n.func.value, ast.Name):
                apps.add(n.func.value.id)
            if isinstance(n, ast.Assign):
                for t in n.targets:
                    if isinstance(t, ast.Subscript) and isinstance(t.value, ast.Name):
                        subs.add(t.value.id)
    return apps, subs


def generator_rule(agg):
    """the nested generator: one pass of its (outer) loop is summarised at a generic node index - all
    paths, each with the list of values it yields; slot k of the node yields iff some path yields
    more than k values, and then the k-th value of that path"""

    def rule(interp, node, it, env):
        from pyvc.loops import _child_env

        if isinstance(it, _Product):
            seq, entries = it.seq, it.lst
        elif isinstance(it, SSeq):
            seq, entries = it, None
        else:
            raise Unsupported("generator loop over something else than the nodes (or product(nodes, entries))")
        snapshot = dict(env.vars)
        holder = env
        while holder is not None and "$yield" not in holder.vars:
            holder = holder.parent
        if holder is None:
            raise Unsupported("generator rule outside a generator")
        if holder.vars.get("$yield"):
            raise Unsupported("generator yields outside its loop over the nodes")
        J = T.fresh("gen_i", I)

        def run_once():
            e2 = _child_env(interp, env)
            e2.vars.update(snapshot)
            e2.vars["$yield"] = []
            for entry in (entries if entries is not None else [None]):
                interp.assign(node.target, seq.elem(J) if entries is None else (seq.elem(J), entry), e2)
                try:
                    interp.exec_block(node.body, e2)
                except ContinueEx:
                    pass
                except BreakEx:
                    raise Unsupported("`break` in the generator")
            return e2.vars["$yield"]

        paths = summarise(run_once)
        for p in paths:
            if p.kind != "ok":
                raise Unsupported("generator body raises")
            if not all(isinstance(v, Slot) for v in p.value):
                raise Unsupported("generator yields something else than attachment objects")
        K = max([len(p.value) for p in paths], default=0)

        def slot_fn(k):
            mine = [p for p in paths if len(p.value) > k]
            gJ = T.or_(*[p.cond for p in mine]) if mine else T.FALSE
            tJ = None
            for p in reversed(mine):
                tJ = p.value[k].term if tJ is None else T.ite(p.cond, p.value[k].term, tJ)

            def at(i):
                if tJ is None:
                    return T.FALSE, Slot(T.fresh("nothing", R))
                return T.substitute(gJ, {J: i}), Slot(T.substitute(tJ, {J: i}))

            return at

        holder.vars["$yield_value"] = SegSeq([Segment("attachments", seq.n, [slot_fn(k) for k in range(K)])], "generator")

    return rule


def agg_rule(agg):
    def rule(interp, node, seq, env):
        from pyvc.loops import _child_env

        c = cur()
        if isinstance(seq, SSeq):
            seq = SegSeq([Segment(seq.desc, seq.n, [lambda i, s=seq: (T.TRUE, s.elem(i))])], seq.desc)
        if not isinstance(seq, SegSeq):
            raise Unsupported("is_valid loop over an unexpected iterable")
        apps, subs = _mutated_names(node.body)
        if len(apps) != 1 or len(subs) > 1:
            raise Unsupported(f"loop body appends to {sorted(apps)} and writes entries of {sorted(subs)}: expected one message list and at most one counter dict")
        MSGS = next(iter(apps))
        COUNT = next(iter(subs)) if subs else None
        if agg.msgs_name not in (None, MSGS):
            raise Unsupported("the loops append to different lists")
        agg.msgs_name = MSGS
        snapshot = dict(env.vars)
        msgs0 = interp.lookup(MSGS, env)
        if isinstance(msgs0, list):
            if msgs0:
                raise Unsupported("msgs not empty before the first loop")
            msgs0 = AbsMsgs(T.FALSE)
        uses_count = COUNT is not None
        segs = seq.segments

        # occurrences of object o in all slots before slot (s, i, k)
        def ind(s, k):
            return lambda i, o: (lambda gi: T.ite(T.and_(gi[0], T.eq(gi[1].term, o)), ONE, ZERO))(segs[s].slots[k](i))

        def seg_body(s, o):
            def at(i):
                t = ZERO
                for k in range(len(segs[s].slots)):
                    g, it_ = segs[s].slots[k](i)
                    if not isinstance(it_, Slot):
                        raise Unsupported("count dict over items that are not objects")
                    t = T.add(t, T.ite(T.and_(g, T.eq(it_.term, o)), ONE, ZERO))
                return t

            return at

        def before(s, i, k):
            def f(o):
                t = ZERO
                for s2 in range(s):
                    t = T.add(t, psum(seg_body(s2, o), segs[s2].n))
                t = T.add(t, psum(seg_body(s, o), i))
                for k2 in range(k):
                    t = T.add(t, ind(s, k2)(i, o))
                return t

            return f

        def summary(s, i):
            """per slot of index i of segment s: (guard, paths of the body)"""
            out = []
            for k, slot in enumerate(segs[s].slots):
                g, item = slot(i)

                def run_once(item=item, s=s, i=i, k=k):
                    e2 = _child_env(interp, env)
                    e2.vars.update(snapshot)
                    rm = RecMsgs()
                    e2.vars[MSGS] = rm
                    rc = RecCount(before(s, i, k)) if uses_count else None
                    if rc is not None:
                        e2.vars[COUNT] = rc
                    interp.assign(node.target, item, e2)
                    err = None
                    try:
                        interp.exec_block(node.body, e2)
                    except PyRaise as e:
                        err = e.exc
                    except ContinueEx:
                        pass  # `continue`: this iteration ends here
                    except BreakEx:
                        raise Unsupported("`break` inside a loop of is_valid")
                    if rc is not None and err is None:
                        good = len(rc.writes) == 1 and isinstance(rc.writes[0][0], Slot) and isinstance(item, Slot) and rc.writes[0][0].term is item.term
                        cc = cur()
                        cc.oblige("inv", "(1) count invariant: the slot's own object is counted, once", T.const(good), assume_after=False)
                        cc.oblige("inv", "(1) count invariant: occurrences are looked up by the object itself", T.const(rc.bad_key is None), assume_after=False)
                        cc.oblige("inv", "(1) count invariant: an object not met before counts from zero", T.const(rc.default == 0), assume_after=False)
                        if good:
                            cc.oblige("inv", "(1) count invariant: count[o] becomes (occurrences of o in earlier slots) + 1",
                                      T.eq(T.lift(rc.writes[0][1], REAL), T.add(before(s, i, k)(item.term), ONE)), assume_after=False)
                    return (len(rm.items), err)

                paths = summarise(run_once, assuming=[g] if g is not T.TRUE else [])  # the body runs only for a slot that yields
                out.append((g, paths))
            return out

        cache = {}

        def compute(s, J):
            """(some slot of index J appends a message, some slot raises, raised classes) as terms in J"""
            app, rse, kinds = [], [], set()
            for g, paths in summary(s, J):
                for p in paths:
                    n_app, err = p.value
                    if err is not None:
                        rse.append(T.and_(g, p.cond))
                        kinds.add(err.cls_name)
                    elif n_app > 0:
                        app.append(T.and_(g, p.cond))
            return (T.or_(*app) if app else T.FALSE), (T.or_(*rse) if rse else T.FALSE), kinds

        def report_terms(s, i):
            J, a, r, kinds = cache[s]
            if i is J:
                return a, r, kinds
            return T.substitute(a, {J: i}), T.substitute(r, {J: i}), kinds

        # one generic evaluation records the body's own obligations (count invariant, safety)
        info = {"seq": seq, "report": report_terms, "lineno": node.lineno, "somes": [], "before": before, "segs": segs, "facts": [], "counts": uses_count}
        agg.loops.append(info)
        nonempty = msgs0.nonempty
        for s, seg in enumerate(segs):
            j = c.fresh_index(seg.n, f"g{s}_")
            cache[s] = (j,) + compute(s, j)
            app_j, rse_j, kinds = report_terms(s, j)
            c.oblige("post", f"loop at line {node.lineno}: nothing but InvalidNetworkError is raised (found {sorted(kinds)})", T.const(kinds <= {"InvalidNetworkError"}), assume_after=False)
            some_r = T.fresh(f"raises_in_loop{node.lineno}_seg{s}", B)
            w_r = T.fresh("wr", I)
            if rse_j is not T.FALSE:
                c.axiom(T.implies(some_r, T.and_(inrange(w_r, seg.n), report_terms(s, w_r)[1])))
                if c.decide(some_r, f"loop@{node.lineno}: some iteration raises"):
                    agg.raised_in = {"loop": info, "seg": s, "w": w_r}
                    raise PyRaise(ExcValue("InvalidNetworkError", ("<message>",), ("Exception",)))
                c.assume_forall(seg.n, lambda i, s=s: T.not_(report_terms(s, i)[1]))
                info["facts"].append((s, lambda i, s=s: T.not_(report_terms(s, i)[1])))
            some_a = T.fresh(f"reports_in_loop{node.lineno}_seg{s}", B)
            w_a = T.fresh("wa", I)
            c.axiom(T.implies(some_a, T.and_(inrange(w_a, seg.n), report_terms(s, w_a)[0])))
            c.assume_forall(seg.n, lambda i, s=s, some_a=some_a: T.implies(report_terms(s, i)[0], some_a))
            info["facts"].append((s, lambda i, s=s, some_a=some_a: T.implies(report_terms(s, i)[0], some_a)))
            info["somes"].append({"seg": s, "some": some_a, "w": w_a})
            nonempty = T.or_(nonempty, some_a)
        new = AbsMsgs(nonempty)
        # rebind msgs where it lives
        e = env
        while e is not None and MSGS not in e.vars:
            e = e.parent
        e.vars[MSGS] = new

    return rule


# ---- the documented conditions ------------------------------------------------------------------------
def node_conditions(n):
    ni, no, ho, hd = G.n_in(n), G.n_out(n), G.has_origin(n), G.has_dest(n)
    c2 = T.and_(ho, hd)
    c3 = T.and_(T.eq(ni, 0), T.eq(no, 0))
    c4 = T.and_(T.eq(ni, 0), T.not_(ho))
    c5 = T.and_(T.eq(no, 0), T.not_(hd))
    c6 = T.and_(ho, T.not_(G.isa(G.origin_of(n), G.METERED)), T.lt(0, ni))
    c7 = T.and_(ho, T.lt(1, no))
    c8 = T.and_(hd, T.lt(1, ni))
    c9 = T.and_(hd, T.lt(0, no))
    return {2: c2, 3: c3, 4: c4, 5: c5, 6: c6, 7: c7, 8: c8, 9: c9}


def setup(interp, c, raises):
    mod = interp.load_module(NETQ)
    K = mod.ns["Network"]
    fn = K.ns["is_valid"]
    interp.inline_only.add(fn.qualname)
    net = AggNet(interp)
    agg = Agg(net, raises)
    loops = sorted((n for n in ast.walk(fn.node) if isinstance(n, ast.For)), key=lambda n: (n.lineno, n.col_offset))
    gen = [n for n in ast.walk(fn.node) if isinstance(n, ast.FunctionDef) and n is not fn.node]
    rules = {}
    for k, l in enumerate(loops):
        inner = any(l in ast.walk(g) for g in gen)
        if not inner:
            rules[(fn.qualname, k)] = agg_rule(agg)
    for g in gen:
        gl = sorted((n for n in ast.walk(g) if isinstance(n, ast.For)), key=lambda n: (n.lineno, n.col_offset))
        for k, _ in enumerate(gl):
            rules[(f"{fn.qualname}.<locals>.{g.name}", k)] = generator_rule(agg)
            rules[(g.name, k)] = generator_rule(agg)
    interp.loop_rules = rules

    def product(it_, a, k):
        if len(a) == 2 and isinstance(a[0], SSeq):
            return _Product(a[0], list(it_.iterate(a[1])))
        raise Unsupported("product of something else than (nodes, entries)")

    def chain(it_, a, k):
        segs = []
        for x in a:
            if isinstance(x, SegSeq):
                segs.extend(x.segments)
            elif isinstance(x, SSeq):
                segs.append(Segment(x.desc, x.n, [lambda i, s=x: (T.TRUE, s.elem(i))]))
            else:
                raise Unsupported(f"chain over {type(x).__name__}")
        return SegSeq(segs, "chain")

    mod.ns["product"] = Builtin("itertools.product", product)
    mod.ns["chain"] = Builtin("itertools.chain", chain)
    return fn, net, agg


def spec_holders(net):
    links = Segment("links", net.nL, [lambda j: (T.TRUE, Slot(link_at(j)))])
    links.names = ["the link of an edge"]
    att = Segment("attachments", net.nN, [lambda i: (G.has_origin(node_at(i)), Slot(G.origin_of(node_at(i)))),
                                          lambda i: (G.has_dest(node_at(i)), Slot(G.dest_of(node_at(i))))])
    att.names = ["the origin of a node", "the destination of a node"]
    return [links, att]


def dup_indicator(info, s2, o):
    """body of the occurrence sum of object o over segment s2 of loop 1"""
    segs = info["segs"]

    def at(i):
        t = ZERO
        for k in range(len(segs[s2].slots)):
            g, it_ = segs[s2].slots[k](i)
            t = T.add(t, T.ite(T.and_(g, T.eq(it_.term, o)), ONE, ZERO))
        return t

    return at


def agg_task(raises):
    def run(interp, c):
        fn, net, agg = setup(interp, c, raises)
        raised = None
        ret = None
        try:
            ret = interp.call(BoundMethod(fn, net), [], {"raises": raises})
        except PyRaise as e:
            raised = e.exc
        nN, nL = net.nN, net.nL
        dups = [l for l in agg.loops if l["counts"]]
        if raised is None and len(dups) != 1:
            raise Unsupported(f"{len(dups)} loops count occurrences; the lemma instances below expect one duplicate scan - undecided")
        shape1 = [len(sg.slots) for sg in dups[0]["segs"]] if dups else []
        if dups and shape1 != [1, 2] and not (raised is not None and shape1[:1] == [1]):
            # another organisation of the duplicate scan: the lemma instances below do not fit it
            raise Unsupported(f"duplicate scan is organised differently (slots per segment {shape1}); not a violation - undecided")
        if raised is not None:
            c.oblige("post", f"only InvalidNetworkError leaves is_valid (got {raised.cls_name})", T.const(raised.cls_name == "InvalidNetworkError" and agg.raised_in is not None), assume_after=False)
            c.oblige("post", "with raises=False nothing is raised", T.const(raises), assume_after=False)
            if agg.raised_in is None:
                return
            # the witness iteration violates a documented condition
            check_witness(c, net, agg, agg.raised_in["loop"], agg.raised_in["seg"], agg.raised_in["w"], "raise", T.TRUE)
            return
        ok = isinstance(ret, tuple) and len(ret) == 2 and isinstance(ret[1], AbsMsgs)
        c.oblige("post", "is_valid returns (verdict, msgs)", T.const(ok), assume_after=False)
        if not ok:
            return
        valid = T.lift(ret[0])
        c.oblige("post", "an invalid verdict comes with at least one message, a valid one with none", T.eq(valid, T.not_(ret[1].nonempty)), assume_after=False)
        if raises:
            c.oblige("post", "with raises=True a normal return reports a valid network", valid, assume_after=False)
        # ---- valid  =>  none of the nine conditions is violated anywhere
        L1 = dups[0]
        c.assume(valid)
        i = c.fresh_index(nN, "node")
        n = node_at(i)
        conds = node_conditions(n)
        # (2)-(5) directly from loop 2 (its universal fact is instantiated at the generic index i)
        for k in (2, 3, 4, 5):
            c.oblige("post", f"valid => condition ({k}) holds at every node", T.not_(conds[k]), assume_after=False)
        # (1): two different slots never hold the same object.  Generic later slot (segment s, index
        # q, slot k) and earlier slot (s2, p, k2)
        # the holders of the documented condition, written from the statement (not from the code):
        # every edge holds its link; every node holds its origin and its destination if it has one
        segs = spec_holders(net)
        positions = []
        for s, seg in enumerate(segs):
            q = c.fresh_index(seg.n, f"q{s}_")
            for k in range(len(seg.slots)):
                positions.append((s, q, k))
        for (s, q, k) in positions:
            gq, itq = segs[s].slots[k](q)
            for s2 in range(s + 1):
                p = c.fresh_index(segs[s2].n, f"p{s2}_")
                for k2 in range(len(segs[s2].slots)):
                    gp, itp = segs[s2].slots[k2](p)
                    if s2 < s:
                        earlier = T.TRUE
                        inst = sum_member(dup_indicator(L1, s2, itq.term), segs[s2].n, p)
                    else:
                        earlier = T.or_(T.lt(p, q), T.and_(T.eq(p, q), T.const(k2 < k)))
                        inst = sum_member(dup_indicator(L1, s2, itq.term), q, p)
                    c.axiom(inst)  # instance of lemma:sum-membership (the indicator body is non-negative)
                    c.oblige("post", f"valid => (1): {segs[s].names[k]} is not also {segs[s2].names[k2]} (another one)",
                             T.implies(T.and_(gq, gp, earlier), T.ne(itq.term, itp.term)), assume_after=False)
        # (6)-(9): node i is the last (in fact the only) node with its origin / destination, since a later
        # node with the same object would be a duplicate in loop 1
        c.axiom(net.last_axioms(i))
        aseg = 1  # attachments segment of loop 1
        for slot_k, nxt, has in ((0, net.nxtO, G.has_origin), (1, net.nxtD, G.has_dest)):
            j = nxt(i)
            gj, itj = L1["segs"][aseg].slots[slot_k](j)
            # the universal fact of loop 1 ("no iteration reports") at index j, and the membership lemma at i
            for s_, fact in L1["facts"]:  # the loop's universal facts, instantiated at index j
                if s_ == aseg:
                    c.axiom(T.implies(inrange(j, nN), fact(j)))
            c.axiom(sum_member(dup_indicator(L1, aseg, itj.term), j, i))
        for k in (6, 7, 8, 9):
            c.oblige("post", f"valid => condition ({k}) holds at every node with an origin/destination", T.not_(conds[k]), assume_after=False)

    def run_invalid(interp, c):
        """not valid  =>  some documented condition is violated (explicit witness)"""
        fn, net, agg = setup(interp, c, raises)
        try:
            ret = interp.call(BoundMethod(fn, net), [], {"raises": raises})
        except PyRaise:
            return  # covered by the first task
        if not (isinstance(ret, tuple) and len(ret) == 2 and isinstance(ret[1], AbsMsgs)):
            return
        dups = [l for l in agg.loops if l["counts"]]
        if len(dups) != 1 or [len(sg.slots) for sg in dups[0]["segs"]] != [1, 2]:
            raise Unsupported("duplicate scan is organised differently; undecided")
        valid = T.lift(ret[0])
        c.assume(T.not_(valid))
        somes = [(l, sm) for l in agg.loops for sm in l["somes"]]
        c.oblige("post", "invalid => some iteration of some loop reported", T.or_(*[sm["some"] for _, sm in somes]), assume_after=False)
        for l, sm in somes:
            check_witness(c, net, agg, l, sm["seg"], sm["w"], "message", sm["some"])

    name = f"{NETQ}:Network.is_valid<whole function,raises={raises}"
    out = [Task(name + ",valid or raising>", run, props=("C06", "C07"), func=f"{NETQ}:Network.is_valid", config=f"aggregate over a symbolic graph, raises={raises}")]
    if not raises:
        out.append(Task(name + ",invalid verdict>", run_invalid, props=("C06",), func=f"{NETQ}:Network.is_valid", config="aggregate over a symbolic graph, invalid verdict"))
    return out


def check_witness(c, net, agg, loop, s, w, how, premise):
    """the iteration w of segment s of `loop` reported: a documented condition is violated there"""
    segs = loop["segs"]
    nN = net.nN
    rep = loop["report"](s, w)
    fired = rep[1] if how == "raise" else rep[0]
    prem = T.and_(premise, inrange(w, segs[s].n), fired)
    if loop["counts"]:
        # the slot's object occurs in an earlier slot: witnesses from lemma:sum-membership
        alts = []
        for k in range(len(segs[s].slots)):
            g, it_ = segs[s].slots[k](w)
            o = it_.term
            for s2 in range(s + 1):
                bound = segs[s2].n if s2 < s else w
                sk, fact = sum_witness(dup_indicator(loop, s2, o), bound, f"dup{s2}")
                c.axiom(fact)
                for k2 in range(len(segs[s2].slots)):
                    g2, it2 = segs[s2].slots[k2](sk)
                    alts.append(T.and_(g, inrange(sk, bound), g2, T.eq(it2.term, o)))
            for k2 in range(k):
                g2, it2 = segs[s].slots[k2](w)
                alts.append(T.and_(g, g2, T.eq(it2.term, o)))
        c.oblige("post", f"a {how} in the duplicate scan => condition (1) is violated: the object also sits in an earlier slot", T.implies(prem, T.or_(*alts)), assume_after=False)
        return
    n = node_at(w)
    conds = node_conditions(n)
    if any(sg.n is not nN or len(sg.slots) != 1 for sg in segs):
        raise Unsupported("a loop that is neither the duplicate scan nor a loop over nodes / attachments - undecided")
    c.oblige("post", f"a {how} in the loop at line {loop['lineno']} => one of the conditions (2)-(9) is violated at that node", T.implies(prem, T.or_(*conds.values())), assume_after=False)


def all_tasks():
    return agg_task(False) + agg_task(True)
