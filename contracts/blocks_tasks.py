"""Stratum B: the element layer (blocks/*.py) verified against EngineSpec and the ghost view.

Top-level postconditions come from the property statements through contracts/view_spec.py
(Hegyi 2004); every callee is replaced by its contract.  Each function is verified with an
explicitly passed engine E (the selected engine G must then not be consulted, C13) and with
engine=None (G does the work)."""
from __future__ import annotations

from pyvc import arrays as A
from pyvc import terms as T
from pyvc.ctx import cur
from pyvc.interp import PyRaise
from pyvc.values import Arr, LocalObj, ObjRef, Unsupported
from pyvc.vc import Task
from contracts import ghost as G
from contracts import view_spec as V
from contracts.blocks_contracts import EngineCfg
from contracts.engine_spec import AbsEngine

ZERO = A.ZERO
R = T.REF


# model parameters that may be CasADi symbols declared as function parameters (C16)
MAYBE_SYMBOLIC = {"tau", "eta", "kappa", "delta", "phi", "T", "f.rho_crit", "f.v_free", "f.a", "f.C", "f.rho_max"}


def setup_engine(interp, c, mode):
    c.maybe_symbolic = MAYBE_SYMBOLIC
    E, Gl = AbsEngine("E"), AbsEngine("G")
    c.engine_cfg = EngineCfg(E if mode == "explicit" else None, Gl)
    pkg = interp.load_module("sym_metanet")
    pkg.ns["engine"] = Gl
    return (E if mode == "explicit" else None)


def get_fn(interp, module, cls, name):
    mod = interp.load_module(module)
    k = mod.ns[cls]
    f = k.ns[name]
    inner = f
    while not hasattr(inner, "qualname") and hasattr(inner, "fn"):  # e.g. wrapped by functools.lru_cache
        inner = inner.fn
    if not hasattr(inner, "qualname"):
        raise Unsupported(f"{cls}.{name} is not a plain function any more ({type(f).__name__})")
    interp.inline_only.add(inner.qualname)
    return f, k


def run_guarded(interp, c, fn, args, kwargs):
    try:
        return True, interp.call(fn, args, kwargs)
    except PyRaise as e:
        c.oblige("safe", f"no exception ({e.exc.cls_name}: {str(e.exc.args)[:80]})", T.FALSE, assume_after=False)
        return False, None


def expect_sc(c, what, R_, val, must_be_fresh=True):
    ok = isinstance(R_, Arr) and R_.is_scalar
    if not ok and isinstance(R_, Arr) and T.is_const(R_.n) and T.cval(R_.n) == 1:
        ok = True
    c.oblige("shape", f"{what}: scalar-like value", T.const(ok), assume_after=False)
    if not ok:
        return
    c.oblige("post", f"{what}: value", T.eq(R_.at(0), val), assume_after=False)
    if must_be_fresh:
        c.oblige("fresh", f"{what}: not an alias of a stored variable", T.const(R_.buf.owner == "fresh"), assume_after=False,
                 meta={"owner": repr(R_.buf.owner)})


def expect_vec(c, what, R_, n, elem, must_be_fresh=True):
    ok = isinstance(R_, Arr) and not R_.is_scalar
    c.oblige("shape", f"{what}: vector value", T.const(ok), assume_after=False)
    if not ok:
        return
    c.oblige("shape", f"{what}: length", T.eq(R_.n, n))
    i = c.fresh_index(n, "k")
    lastk = T.sub(n, 1)
    goal = T.eq(R_.at(i), elem(i))
    c.oblige("post", f"{what}: value of the first entry", T.implies(T.eq(i, 0), goal), assume_after=False)
    c.oblige("post", f"{what}: value of the last entry", T.implies(T.eq(i, lastk), goal), assume_after=False)
    c.oblige("post", f"{what}: value of an interior entry", T.implies(T.and_(T.lt(0, i), T.lt(i, lastk)), goal), assume_after=False)
    if must_be_fresh:
        c.oblige("fresh", f"{what}: a new value", T.const(R_.buf.owner == "fresh"), assume_after=False, meta={"owner": repr(R_.buf.owner)})


ENGINE_MODES = ("explicit", "current")
P_B = ("C01", "C03", "C10", "C12", "C13", "C16")


def tasks_readers():
    out = []
    for mode in ENGINE_MODES:
        # ---- Link.get_flow
        def run_get_flow(interp, c, mode=mode):
            eng = setup_engine(interp, c, mode)
            fn, _ = get_fn(interp, "sym_metanet.blocks.links", "Link", "get_flow")
            net = G.GhostNet(interp)
            l = T.var("l", R)
            c.axiom(G.link_in_net(l))
            ok, Rv = run_guarded(interp, c, fn, [net.link(l)] + ([eng] if eng else []), {})
            if ok:
                expect_vec(c, "get_flow", Rv, G.f_N(l), lambda i: V.link_flow_at(l, i))

        out.append(Task(f"sym_metanet.blocks.links:Link.get_flow<engine={mode}>", run_get_flow, props=P_B + ("C05",), func="sym_metanet.blocks.links:Link.get_flow", config=mode))

        # ---- Node.get_downstream_density
        def run_down(interp, c, mode=mode):
            eng = setup_engine(interp, c, mode)
            fn, _ = get_fn(interp, "sym_metanet.blocks.nodes", "Node", "get_downstream_density")
            net = G.GhostNet(interp)
            n = T.var("n", R)
            ok, Rv = run_guarded(interp, c, fn, [net.node(n), net] + ([eng] if eng else []), {})
            if ok:
                expect_sc(c, "downstream density", Rv, V.downstream_density(n))

        out.append(Task(f"sym_metanet.blocks.nodes:Node.get_downstream_density<engine={mode}>", run_down, props=P_B, func="sym_metanet.blocks.nodes:Node.get_downstream_density", config=mode))

        # ---- Node.get_upstream_speed_and_flow
        def run_upstream(interp, c, mode=mode):
            eng = setup_engine(interp, c, mode)
            fn, _ = get_fn(interp, "sym_metanet.blocks.nodes", "Node", "get_upstream_speed_and_flow")
            net = G.GhostNet(interp)
            n, l = T.var("n", R), T.var("l", R)
            T_ = T.var("T", T.REAL)
            c.axiom(G.link_in_net(l))
            c.axiom(T.eq(G.up(l), n))
            nobj, lobj = net.node(n), net.link(l)
            ok, Rv = run_guarded(interp, c, fn, [nobj, net, lobj] + ([eng] if eng else []), {"T": T_})
            if not ok:
                return
            good = isinstance(Rv, tuple) and len(Rv) == 2
            c.oblige("shape", "returns (speed, flow)", T.const(good), assume_after=False)
            if good:
                expect_sc(c, "upstream speed", Rv[0], V.upstream_speed(n), must_be_fresh=False)
                # the flow may be handed to in-place arithmetic by callers only if it is fresh, unless
                # it is the flow of an 'unlimited' simplified ramp which is the action itself
                expect_sc(c, "upstream flow", Rv[1], V.upstream_flow(n, l, T_), must_be_fresh=False)

        out.append(Task(f"sym_metanet.blocks.nodes:Node.get_upstream_speed_and_flow<engine={mode}>", run_upstream, props=P_B + ("C02", "C05", "C14"), func="sym_metanet.blocks.nodes:Node.get_upstream_speed_and_flow", config=mode))

        # ---- origins
        for cls, meth in (("Origin", "get_speed"), ("Origin", "get_flow"), ("MainstreamOrigin", "get_flow"), ("MeteredOnRamp", "get_flow"),
                          ("SimplifiedMeteredOnRamp", "get_flow")):
            def run_origin(interp, c, mode=mode, cls=cls, meth=meth):
                eng = setup_engine(interp, c, mode)
                fn, k = get_fn(interp, "sym_metanet.blocks.origins", cls, meth)
                net = G.GhostNet(interp)
                o = T.var("o", R)
                T_ = T.var("T", T.REAL)
                c.axiom(G.origin_in_net(o))
                c.axiom(T.eq(G.cls_tag(o), G.TAGS[cls]))
                oobj = ObjRef(o, (net.heap.classes[cls],), net.heap)
                net.origin_facts(o)
                if meth == "get_speed":
                    ok, Rv = run_guarded(interp, c, fn, [oobj, net], {})
                    if ok:
                        expect_sc(c, "origin speed", Rv, V.origin_speed(o), must_be_fresh=False)
                    return
                if cls == "Origin":
                    ok, Rv = run_guarded(interp, c, fn, [oobj, net], dict({"engine": eng} if eng else {}, T=T_))
                else:
                    ok, Rv = run_guarded(interp, c, fn, [oobj, net, T_] + ([eng] if eng else []), {})
                if ok:
                    expect_sc(c, "origin flow", Rv, V.origin_flow(o, T_), must_be_fresh=(cls != "SimplifiedMeteredOnRamp"))

            out.append(Task(f"sym_metanet.blocks.origins:{cls}.{meth}<engine={mode}>", run_origin, props=P_B + ("C05", "C17", "C18"),
                            func=f"sym_metanet.blocks.origins:{cls}.{meth}", config=mode))

        def run_exit(interp, c, mode=mode):
            setup_engine(interp, c, mode)
            fn, k = get_fn(interp, "sym_metanet.blocks.origins", "Origin", "_get_exiting_link")
            net = G.GhostNet(interp)
            o = T.var("o", R)
            c.axiom(G.origin_in_net(o))
            ok, Rv = run_guarded(interp, c, fn, [net.origin(o), net], {})
            if ok:
                good = isinstance(Rv, ObjRef)
                c.oblige("shape", "returns a link", T.const(good), assume_after=False)
                if good:
                    c.oblige("post", "the link leaving the origin's node", T.eq(Rv.term, V.origin_link(o)), assume_after=False)

        if mode == "explicit":
            out.append(Task("sym_metanet.blocks.origins:Origin._get_exiting_link", run_exit, props=P_B + ("C07",), func="sym_metanet.blocks.origins:Origin._get_exiting_link"))

        # ---- destinations
        for cls in ("Destination", "CongestedDestination"):
            def run_dest(interp, c, mode=mode, cls=cls):
                eng = setup_engine(interp, c, mode)
                fn, k = get_fn(interp, "sym_metanet.blocks.destinations", cls, "get_density")
                net = G.GhostNet(interp)
                d = T.var("d", R)
                c.axiom(G.dest_in_net(d))
                c.axiom(T.eq(G.cls_tag(d), G.TAGS[cls]))
                dobj = ObjRef(d, (net.heap.classes[cls],), net.heap)
                net.dest_facts(d)
                ok, Rv = run_guarded(interp, c, fn, [dobj, net] + ([eng] if eng else []), {})
                if ok:
                    expect_sc(c, "destination density", Rv, V.dest_density(d))

            out.append(Task(f"sym_metanet.blocks.destinations:{cls}.get_density<engine={mode}>", run_dest, props=P_B,
                            func=f"sym_metanet.blocks.destinations:{cls}.get_density", config=mode))

        def run_enter(interp, c, mode=mode):
            setup_engine(interp, c, mode)
            fn, k = get_fn(interp, "sym_metanet.blocks.destinations", "Destination", "_get_entering_link")
            net = G.GhostNet(interp)
            d = T.var("d", R)
            c.axiom(G.dest_in_net(d))
            ok, Rv = run_guarded(interp, c, fn, [net.dest(d), net], {})
            if ok:
                good = isinstance(Rv, ObjRef)
                c.oblige("shape", "returns a link", T.const(good), assume_after=False)
                if good:
                    c.oblige("post", "the link entering the destination's node", T.eq(Rv.term, V.dest_link(d)), assume_after=False)

        if mode == "explicit":
            out.append(Task("sym_metanet.blocks.destinations:Destination._get_entering_link", run_enter, props=P_B + ("C07",), func="sym_metanet.blocks.destinations:Destination._get_entering_link"))

        # ---- equilibrium speeds
        for cls in ("Link", "LinkWithVsl"):
            def run_veq(interp, c, mode=mode, cls=cls):
                eng = setup_engine(interp, c, "explicit")
                fn, k = get_fn(interp, "sym_metanet.blocks.links", cls, "_get_equilibrium_speed")
                net = G.GhostNet(interp)
                l = T.var("l", R)
                c.axiom(G.link_in_net(l))
                c.axiom(T.eq(G.cls_tag(l), G.TAGS[cls]))
                lobj = ObjRef(l, (net.heap.classes[cls],), net.heap)
                rho = lobj.heap.getattr(interp, lobj, "states").pyvc_getitem(interp, "rho")
                ok, Rv = run_guarded(interp, c, fn, [lobj, eng, rho], {})
                if ok:
                    expect_vec(c, "equilibrium speed", Rv, G.f_N(l), lambda i: V.link_veq_at(l, i))

            if mode == "explicit":
                out.append(Task(f"sym_metanet.blocks.links:{cls}._get_equilibrium_speed", run_veq, props=P_B + ("C18",),
                                func=f"sym_metanet.blocks.links:{cls}._get_equilibrium_speed"))
    return out


def tasks_step_dynamics():
    out = []
    for mode in ENGINE_MODES:
        for delta_given in (False, True):
            for phi_given in (False, True):
                def run_link(interp, c, mode=mode, delta_given=delta_given, phi_given=phi_given):
                    eng = setup_engine(interp, c, mode)
                    fn, k = get_fn(interp, "sym_metanet.blocks.links", "Link", "step_dynamics")
                    net = G.GhostNet(interp)
                    l = T.var("l", R)
                    c.axiom(G.link_in_net(l))
                    tau, eta, kappa, T_ = (T.var(x, T.REAL) for x in ("tau", "eta", "kappa", "T"))
                    delta = T.var("delta", T.REAL) if delta_given else None
                    phi = T.var("phi", T.REAL) if phi_given else None
                    pns, pnd = T.var("positive_next_speed", T.BOOL), T.var("positive_next_density", T.BOOL)
                    lobj = net.link(l)
                    kwargs = dict(net=net, tau=tau, eta=eta, kappa=kappa, T=T_, positive_next_speed=pns, positive_next_density=pnd,
                                  some_other_parameter=T.var("other", T.REAL))
                    if delta_given:
                        kwargs["delta"] = delta
                    if phi_given:
                        kwargs["phi"] = phi
                    if eng is not None:
                        kwargs["engine"] = eng
                    ok, Rv = run_guarded(interp, c, fn, [lobj], kwargs)
                    if not ok:
                        return
                    good = isinstance(Rv, dict) and list(Rv.keys()) == ["rho", "v"]
                    c.oblige("shape", "returns {'rho': ..., 'v': ...}", T.const(good), assume_after=False)
                    if not good:
                        return
                    expect_vec(c, "next density", Rv["rho"], G.f_N(l), lambda i: V.link_next_density_at(l, i, T_, pnd))
                    # cases where Hegyi prescribes nothing (either behaviour allowed): a lane *gain*, and a
                    # metered ramp at a pure source node
                    nu, nd = G.up(l), G.down(l)
                    if phi_given:
                        c.assume(T.implies(T.eq(G.n_out(nd), 1), T.le(0, V.lane_drop(l))))
                    if delta_given:
                        c.assume(T.implies(T.and_(G.has_origin(nu), G.isa(G.origin_of(nu), G.METERED)), T.lt(0, G.n_in(nu))))
                    expect_vec(c, "next speed", Rv["v"], G.f_N(l), lambda i: V.link_next_speed_at(l, i, tau, eta, kappa, T_, delta, phi, pns))

                out.append(Task(f"sym_metanet.blocks.links:Link.step_dynamics<engine={mode},delta={delta_given},phi={phi_given}>", run_link,
                                props=P_B + ("C02", "C11", "C14", "C18"), func="sym_metanet.blocks.links:Link.step_dynamics",
                                config=f"{mode},delta={delta_given},phi={phi_given}"))

        for cls in ("MainstreamOrigin", "MeteredOnRamp", "SimplifiedMeteredOnRamp"):
            def run_orig(interp, c, mode=mode, cls=cls):
                eng = setup_engine(interp, c, mode)
                owner_cls = "MeteredOnRamp" if cls == "SimplifiedMeteredOnRamp" else cls
                fn, k = get_fn(interp, "sym_metanet.blocks.origins", owner_cls, "step_dynamics")
                net = G.GhostNet(interp)
                o = T.var("o", R)
                T_ = T.var("T", T.REAL)
                pnq = T.var("positive_next_queue", T.BOOL)
                c.axiom(G.origin_in_net(o))
                c.axiom(T.eq(G.cls_tag(o), G.TAGS[cls]))
                oobj = ObjRef(o, (net.heap.classes[cls],), net.heap)
                net.origin_facts(o)
                kwargs = dict(net=net, T=T_, positive_next_queue=pnq, tau=T.var("tau", T.REAL))
                if eng is not None:
                    kwargs["engine"] = eng
                ok, Rv = run_guarded(interp, c, fn, [oobj], kwargs)
                if not ok:
                    return
                good = isinstance(Rv, dict) and list(Rv.keys()) == ["w"]
                c.oblige("shape", "returns {'w': ...}", T.const(good), assume_after=False)
                if good:
                    expect_sc(c, "next queue", Rv["w"], V.origin_next_queue(o, T_, pnq))

            out.append(Task(f"sym_metanet.blocks.origins:{cls}.step_dynamics<engine={mode}>", run_orig, props=P_B + ("C02", "C05", "C11", "C17"),
                            func=f"sym_metanet.blocks.origins:{cls}.step_dynamics", config=mode))
    return out


def tasks_admissible():
    """C07, element layer: under the admissible domain (positive parameters, non-negative states,
    rho_crit < rho_max, T, tau, kappa > 0, excluding the model's own 0/0 at a merge with zero
    inflow / a bifurcation with zero first-segment density) every engine primitive is called
    inside its domain - the `pre ... (defined)` obligations of the EngineSpec contracts."""
    out = []

    def params(c):
        tau, eta, kappa, T_, delta, phi = (T.var(x, T.REAL) for x in ("tau", "eta", "kappa", "T", "delta", "phi"))
        for h in (T.lt(0, tau), T.le(0, eta), T.lt(0, kappa), T.lt(0, T_), T.le(0, delta), T.le(0, phi)):
            c.axiom(h)
        return tau, eta, kappa, T_, delta, phi

    def run_up(interp, c):
        eng = setup_engine(interp, c, "explicit")
        fn, _ = get_fn(interp, "sym_metanet.blocks.nodes", "Node", "get_upstream_speed_and_flow")
        net = G.GhostNet(interp, admissible=True)
        n, l = T.var("n", R), T.var("l", R)
        tau, eta, kappa, T_, delta, phi = params(c)
        c.axiom(G.link_in_net(l))
        c.axiom(T.eq(G.up(l), n))
        # excluded by the property: zero total entering flow where the weighted speed is used
        c.axiom(T.implies(T.le(2, G.n_in(n)), T.ne(A.vsum(V.entering_last_flows(n)), 0)))
        run_guarded(interp, c, fn, [net.node(n), net, net.link(l), eng], {"T": T_})

    out.append(Task("sym_metanet.blocks.nodes:Node.get_upstream_speed_and_flow<admissible>", run_up, props=("C07",), check_defined=True,
                    func="sym_metanet.blocks.nodes:Node.get_upstream_speed_and_flow", config="admissible domain"))

    def run_down(interp, c):
        eng = setup_engine(interp, c, "explicit")
        fn, _ = get_fn(interp, "sym_metanet.blocks.nodes", "Node", "get_downstream_density")
        net = G.GhostNet(interp, admissible=True)
        n = T.var("n", R)
        c.axiom(T.implies(T.le(2, G.n_out(n)), T.ne(A.vsum(V.leaving_first_densities(n)), 0)))
        run_guarded(interp, c, fn, [net.node(n), net, eng], {})

    out.append(Task("sym_metanet.blocks.nodes:Node.get_downstream_density<admissible>", run_down, props=("C07",), check_defined=True,
                    func="sym_metanet.blocks.nodes:Node.get_downstream_density", config="admissible domain"))

    for cls in ("MainstreamOrigin", "MeteredOnRamp", "SimplifiedMeteredOnRamp"):
        def run_o(interp, c, cls=cls):
            eng = setup_engine(interp, c, "explicit")
            owner_cls = "MeteredOnRamp" if cls == "SimplifiedMeteredOnRamp" else cls
            fn, k = get_fn(interp, "sym_metanet.blocks.origins", owner_cls, "step_dynamics")
            net = G.GhostNet(interp, admissible=True)
            o = T.var("o", R)
            tau, eta, kappa, T_, delta, phi = params(c)
            c.axiom(G.origin_in_net(o))
            c.axiom(T.eq(G.cls_tag(o), G.TAGS[cls]))
            oobj = ObjRef(o, (net.heap.classes[cls],), net.heap)
            net.origin_facts(o)
            run_guarded(interp, c, fn, [oobj], dict(net=net, T=T_, engine=eng, positive_next_queue=T.var("pnq", T.BOOL)))

        out.append(Task(f"sym_metanet.blocks.origins:{cls}.step_dynamics<admissible>", run_o, props=("C07",), check_defined=True,
                        func=f"sym_metanet.blocks.origins:{cls}.step_dynamics", config="admissible domain"))

    for cls in ("Destination", "CongestedDestination"):
        def run_d(interp, c, cls=cls):
            eng = setup_engine(interp, c, "explicit")
            fn, k = get_fn(interp, "sym_metanet.blocks.destinations", cls, "get_density")
            net = G.GhostNet(interp, admissible=True)
            d = T.var("d", R)
            c.axiom(G.dest_in_net(d))
            c.axiom(T.eq(G.cls_tag(d), G.TAGS[cls]))
            dobj = ObjRef(d, (net.heap.classes[cls],), net.heap)
            net.dest_facts(d)
            run_guarded(interp, c, fn, [dobj, net, eng], {})

        out.append(Task(f"sym_metanet.blocks.destinations:{cls}.get_density<admissible>", run_d, props=("C07",), check_defined=True,
                        func=f"sym_metanet.blocks.destinations:{cls}.get_density", config="admissible domain"))

    for delta_given, phi_given in ((False, False), (True, True)):
        def run_l(interp, c, delta_given=delta_given, phi_given=phi_given):
            eng = setup_engine(interp, c, "explicit")
            fn, k = get_fn(interp, "sym_metanet.blocks.links", "Link", "step_dynamics")
            net = G.GhostNet(interp, admissible=True)
            l = T.var("l", R)
            c.axiom(G.link_in_net(l))
            tau, eta, kappa, T_, delta, phi = params(c)
            kwargs = dict(net=net, tau=tau, eta=eta, kappa=kappa, T=T_, engine=eng,
                          positive_next_speed=T.var("pns", T.BOOL), positive_next_density=T.var("pnd", T.BOOL))
            if delta_given:
                kwargs["delta"] = delta
            if phi_given:
                kwargs["phi"] = phi
            run_guarded(interp, c, fn, [net.link(l)], kwargs)

        out.append(Task(f"sym_metanet.blocks.links:Link.step_dynamics<admissible,delta={delta_given},phi={phi_given}>", run_l, props=("C07",), check_defined=True,
                        func="sym_metanet.blocks.links:Link.step_dynamics", config=f"admissible domain,delta={delta_given},phi={phi_given}"))
    return out


def all_tasks():
    out = tasks_readers() + tasks_step_dynamics() + tasks_admissible()
    for t in out:
        # the flow bounds of C17 are stated for the origins of a network: that an origin computes its
        # flow from its own link's current state (and nothing remembered) is part of it
        if ".blocks.origins:" in t.name and "C17" not in t.props and "C01" in t.props:
            t.props = tuple(t.props) + ("C17",)
    return out
