"""Stratum B, writer functions: constructors, init_vars of every element class and
ElementWithVars.step, verified on an object with a concrete identity (its attribute dict is the
symbolic state).  Postconditions: exactly the declared variables are created, in source order;
a value is the given one, its clamp at zero iff the matching flag (C11), or a fresh engine
variable; nothing but the element's own dicts is written; the supplied dict and arrays are
untouched (C12); the engine handed in does the work (C13)."""
from __future__ import annotations

import itertools

from pyvc import arrays as A
from pyvc import terms as T
from pyvc.ctx import cur
from pyvc.interp import PyRaise, StarPack
from pyvc.values import Arr, BoundMethod, LocalObj, SEnum, SymName, Unsupported, mk_scalar, mk_vec
from pyvc.vc import Task
from contracts import ghost as G
from contracts.blocks_tasks import setup_engine, run_guarded, ENGINE_MODES
from specs import metanet as M

R = T.REF
P_W = ("C01", "C04", "C07", "C11", "C12", "C13", "C18", "C19")

MODULE_OF = {
    "Link": "sym_metanet.blocks.links", "LinkWithVsl": "sym_metanet.blocks.links",
    "Origin": "sym_metanet.blocks.origins", "MainstreamOrigin": "sym_metanet.blocks.origins",
    "MeteredOnRamp": "sym_metanet.blocks.origins", "SimplifiedMeteredOnRamp": "sym_metanet.blocks.origins",
    "Destination": "sym_metanet.blocks.destinations", "CongestedDestination": "sym_metanet.blocks.destinations",
}

# the variables each class must own after init_vars: (group, key, kind, clamp flag or None) in source order
DECLARED = {
    "Link": [("states", "rho", "vecN", "positive_init_density"), ("states", "v", "vecN", "positive_init_speed")],
    "LinkWithVsl": [("states", "rho", "vecN", "positive_init_density"), ("states", "v", "vecN", "positive_init_speed"), ("actions", "v_ctrl", "vecK", None)],
    "Origin": [],
    "MainstreamOrigin": [("states", "w", "sc", "positive_init_queue"), ("actions", "v_ctrl", "sc", None), ("disturbances", "d", "sc", None)],
    "MeteredOnRamp": [("states", "w", "sc", "positive_init_queue"), ("actions", "r", "sc", None), ("disturbances", "d", "sc", None)],
    "SimplifiedMeteredOnRamp": [("states", "w", "sc", "positive_init_queue"), ("actions", "q", "sc", None), ("disturbances", "d", "sc", None)],
    "Destination": [],
    "CongestedDestination": [("disturbances", "d", "sc", None)],
}


def make_element(interp, cls_name, tag="self"):
    mod = interp.load_module(MODULE_OF[cls_name])
    k = mod.ns[cls_name]
    obj = LocalObj(k, ref=T.var(tag, R))
    a = obj.attrs
    a["name"] = SymName(obj.ref)
    for g in ("states", "next_states", "actions", "disturbances"):
        a[g] = None
    if cls_name in ("Link", "LinkWithVsl"):
        a["N"] = T.var(f"{tag}.N", T.INT)
        cur().axiom(T.le(1, a["N"]))
        for f in ("lam", "L", "rho_max", "rho_crit", "v_free", "a", "turnrate"):
            a[f] = T.var(f"{tag}.{f}", T.REAL)
        if cls_name == "LinkWithVsl":
            K = T.var(f"{tag}.K", T.INT)
            cur().axiom(T.le(0, K))
            a["vsl"] = A.SIntList(f"{tag}.vsl", K, a["N"])
            a["alpha"] = T.var(f"{tag}.alpha", T.REAL)
    if cls_name in ("MeteredOnRamp", "SimplifiedMeteredOnRamp"):
        a["C"] = T.var(f"{tag}.C", T.REAL)
        opts = G.FEQ_OPTIONS[cls_name]
        ft = T.var(f"{tag}.feq", T.INT)
        cur().axiom(T.and_(T.le(0, ft), T.lt(ft, len(opts))))
        a["flow_eq_type"] = SEnum(ft, opts)
    return obj, k


def given_value(key, kind, obj):
    f = T.uf(f"given.{key}", [T.INT], T.REAL)
    owner = ("in", f"init_conditions[{key!r}]")
    if kind == "vecN":
        return mk_vec("abs", "vec", obj.attrs["N"], lambda i: f(i), owner)
    if kind == "vecK":
        return mk_vec("abs", "vec", obj.attrs["vsl"].n, lambda i: f(i), owner)
    a = mk_scalar("abs", "sc", f(0), owner)
    s = T.var(f"given.{key}.sct", T.INT)
    cur().axiom(T.and_(T.le(0, s), T.le(s, 1)))
    a.buf.sct = s
    return a


def init_vars_task(cls_name, mode, given_keys, ic_none, prior=False):
    """prior: the element was initialised before (its variable dicts hold arbitrary earlier values):
    init_vars must not depend on them"""
    decl = DECLARED[cls_name]
    label = f"engine={mode},given={'+'.join(given_keys) or ('None' if ic_none else '-')}" + (",initialised before" if prior else "")

    def run(interp, c):
        eng = setup_engine(interp, c, mode)
        obj, k = make_element(interp, cls_name)
        fn, owner = k.lookup("init_vars")
        interp.inline_only.add(fn.qualname)
        if prior:
            for g_, key_, kind_, _ in decl:
                old = given_value("previous." + key_, kind_, obj)
                if obj.attrs.get(g_) is None:
                    obj.attrs[g_] = {}
                obj.attrs[g_][key_] = old
            if obj.attrs.get("states") is not None:
                obj.attrs["next_states"] = {key_: given_value("previous.next." + key_, "sc", obj) for key_ in obj.attrs["states"]}
        ns_before = obj.attrs.get("next_states")
        ns_snapshot = None if ns_before is None else dict(ns_before)
        # the supplied dict (all keys given are symbolic values; an unknown extra key is ignored)
        ic = None if ic_none else {key: given_value(key, kind, obj) for (_, key, kind, _) in decl if key in given_keys}
        if ic is not None:
            ic["unrelated_key"] = T.var("unrelated", T.REAL)
        ic_snapshot = None if ic is None else dict(ic)
        bufs = {} if ic is None else {key: (v.buf, v.buf.elem) for key, v in ic.items() if isinstance(v, Arr)}
        flags = {f: T.var(f, T.BOOL) for f in ("positive_init_speed", "positive_init_density", "positive_init_queue")}
        kwargs = dict(init_conditions=ic, **flags)
        if eng is not None:
            kwargs["engine"] = eng
        ok, _ = run_guarded(interp, c, BoundMethod(fn, obj), [], kwargs)
        if not ok:
            return
        # ---- postcondition
        groups = {}
        for g, key, kind, flag in decl:
            groups.setdefault(g, []).append((key, kind, flag))
        for g in ("states", "actions", "disturbances"):
            val = obj.attrs.get(g)
            want = groups.get(g)
            if want is None:
                c.oblige("post", f"{g} stays None for {cls_name}", T.const(val is None), assume_after=False)
                continue
            good = isinstance(val, dict) and list(val.keys()) == [key for key, _, _ in want]
            c.oblige("post", f"{g} holds exactly {[key for key, _, _ in want]} in this order", T.const(good), assume_after=False)
            if not good:
                continue
            for key, kind, flag in want:
                v = val[key]
                if ic is not None and key in given_keys:
                    gv = A.freeze(ic_snapshot[key])
                    if not isinstance(v, Arr):
                        c.oblige("post", f"{g}[{key!r}] is the supplied value", T.FALSE, assume_after=False)
                        continue
                    fl = flags[flag] if flag else T.FALSE
                    if gv.is_scalar:
                        c.oblige("post", f"{g}[{key!r}] = the supplied value, clamped at zero iff {flag}",
                                 T.eq(v.at(0), T.ite(fl, M.clamp0(gv.at(0)), gv.at(0))), assume_after=False)
                        c.oblige("shape", f"{g}[{key!r}] keeps the supplied shape", T.eq(A.sct_of(v), A.sct_of(gv)), assume_after=False)
                    else:
                        c.oblige("shape", f"{g}[{key!r}] keeps the supplied length", T.eq(v.n, gv.n))
                        i = c.fresh_index(gv.n, "k")
                        c.oblige("post", f"{g}[{key!r}] = the supplied value, clamped at zero iff {flag}",
                                 T.eq(v.at(i), T.ite(fl, M.clamp0(gv.at(i)), gv.at(i))), assume_after=False)
                else:
                    # not supplied: exactly one engine variable named after the key, of the declared length,
                    # stored as it is - or clamped at zero iff the matching flag
                    def named_after(ev):
                        nm = ev["name"]
                        parts = nm.parts if hasattr(nm, "parts") else (nm,)
                        lead = ""
                        for p_ in parts:
                            if not isinstance(p_, str):
                                break
                            lead += p_
                        return lead == key + "_"

                    evs = [ev for ev in c.events if ev["what"] == "var" and named_after(ev)]
                    n_exp = obj.attrs["N"] if kind == "vecN" else (obj.attrs["vsl"].n if kind == "vecK" else A.ONE)
                    c.oblige("post", f"{g}[{key!r}]: exactly one engine variable '{key}_<element name>' is created", T.const(len(evs) == 1 and isinstance(v, Arr) and v.buf.owner == "fresh"), assume_after=False)
                    if len(evs) == 1 and isinstance(v, Arr):
                        var = evs[0]["arr"]
                        c.oblige("shape", f"{g}[{key!r}]: the variable has the declared length", T.eq(evs[0]["n"], n_exp), assume_after=False)
                        fl = flags[flag] if flag else T.FALSE
                        if var.is_scalar or v.is_scalar:
                            c.oblige("post", f"{g}[{key!r}] = that variable, clamped at zero iff {flag}", T.eq(v.at(0), T.ite(fl, M.clamp0(var.at(0)), var.at(0))), assume_after=False)
                        else:
                            c.oblige("shape", f"{g}[{key!r}] has the variable's length", T.eq(v.n, var.n))
                            i = c.fresh_index(var.n, "k")
                            c.oblige("post", f"{g}[{key!r}] = that variable, clamped at zero iff {flag}", T.eq(v.at(i), T.ite(fl, M.clamp0(var.at(i)), var.at(i))), assume_after=False)
        # ---- frame: only the element's own variable dicts are written; supplied dict/arrays untouched
        for eff in c.effects:
            if eff[0] == "attr-write":
                okw = eff[1] == obj.ident and eff[2] in ("states", "actions", "disturbances")
                c.oblige("frame", f"attribute write {eff[2]} is to the element's own variable dicts", T.const(okw), assume_after=False)
            if eff[0] in ("dict-write", "dict-del") and ic is not None and eff[1] == id(ic):
                c.oblige("frame", "the supplied init_conditions dict is not modified", T.FALSE, assume_after=False)
            if eff[0] == "global-write":
                c.oblige("frame", "no module global is written", T.FALSE, assume_after=False)
        if ic is not None:
            c.oblige("frame", "the supplied init_conditions dict is not modified (contents)", T.const(ic == ic_snapshot and list(ic) == list(ic_snapshot)), assume_after=False)
        for key, (buf, el) in bufs.items():
            c.oblige("frame", f"the supplied array {key!r} is not modified", T.const(buf.elem is el), assume_after=False)
        c.oblige("frame", "next_states is not touched by init_vars", T.const(obj.attrs.get("next_states") is ns_before and (ns_before is None or dict(ns_before) == ns_snapshot)), assume_after=False)

    return Task(f"{MODULE_OF[cls_name]}:{cls_name}.init_vars<{label}>", run, props=P_W, func=f"{MODULE_OF[cls_name]}:{cls_name}.init_vars", config=label)


def tasks_init_vars():
    out = []
    for cls_name, decl in DECLARED.items():
        keys = [key for _, key, _, _ in decl]
        subsets = [()] + [tuple(keys)] + [(k,) for k in keys] if keys else [()]
        subsets = list(dict.fromkeys(subsets))
        for mode in ENGINE_MODES:
            out.append(init_vars_task(cls_name, mode, (), True))
            for sub in subsets:
                out.append(init_vars_task(cls_name, mode, sub, False))
        if keys:  # a second initialisation of the same object
            out.append(init_vars_task(cls_name, ENGINE_MODES[0], (), True, prior=True))
            out.append(init_vars_task(cls_name, ENGINE_MODES[0], (keys[0],), False, prior=True))
    return out


# ---- ElementWithVars.step ---------------------------------------------------------------------


class OpaqueStepDynamics:
    """contract of X.step_dynamics as seen by ElementWithVars.step (arbitrary forwarded
    arguments): returns a dict with one new value per state, of unconstrained shape"""

    family = None

    def __init__(self, cls_name):
        self.cls_name = cls_name
        self.calls = []

    def apply(self, interp, fn, args, kwargs):
        c = cur()
        self_obj = args[0]
        c.effects.append(("call", fn.qualname, tuple(repr(a) for a in args[1:]), tuple(sorted(k for k in kwargs))))
        self.calls.append((args, kwargs))
        keys = [key for g, key, _, _ in DECLARED[self_obj.cls.name] if g == "states"]
        res = {}
        for key in keys:
            f = T.uf(f"stepped.{key}", [T.INT], T.REAL)
            st = self_obj.attrs["states"][key]
            if isinstance(st, Arr) and not st.is_scalar:
                n = T.var(f"stepped.{key}.len", T.INT)
                c.axiom(T.le(0, n))
                res[key] = mk_vec("abs", "vec", n, lambda i, f=f: f(i), "fresh")
            else:
                a = mk_scalar("abs", "sc", f(0), "fresh")
                s = T.var(f"stepped.{key}.sct", T.INT)
                c.axiom(T.and_(T.le(0, s), T.le(s, 1)))
                a.buf.sct = s
                res[key] = a
        res_extra = dict(res)
        self.returned = dict(res)
        return res_extra


def step_task(cls_name, prior):
    label = f"{cls_name},next_states={'stale dict' if prior else 'None'}"

    def run(interp, c):
        setup_engine(interp, c, "explicit")
        obj, k = make_element(interp, cls_name)
        base = interp.load_module("sym_metanet.blocks.base").ns["ElementWithVars"]
        fn = base.ns["step"]
        interp.inline_only.add(fn.qualname)
        sd, _ = k.lookup("step_dynamics")
        ct = OpaqueStepDynamics(cls_name)
        interp.contracts[sd.qualname] = ct
        states = {}
        for g, key, kind, _ in DECLARED[cls_name]:
            if g == "states":
                states[key] = given_value(key, kind, obj)
        obj.attrs["states"] = states if states or cls_name not in ("Origin", "Destination", "CongestedDestination") else None
        if obj.attrs["states"] is None:
            return
        stale = None
        if prior:
            stale = {key: given_value("old_" + key, kind, obj) for g, key, kind, _ in DECLARED[cls_name] if g == "states"}
            obj.attrs["next_states"] = dict(stale)
        args = [StarPack("args")]
        kwargs = {"**": [StarPack("kwargs")]}
        try:
            interp.call(BoundMethod(fn, obj), args, kwargs)
            raised = None
        except PyRaise as e:
            raised = e.exc
        keys = list(states.keys())
        c.oblige("post", "step_dynamics is called exactly once, with the arguments of step", T.const(len(ct.calls) == 1 and len(ct.calls[0][0]) == 2
                 and isinstance(ct.calls[0][0][1], StarPack) and ct.calls[0][1].get("**") is not None), assume_after=False)
        if not ct.calls:
            return
        ns = obj.attrs.get("next_states")
        res = None
        # the values handed back by step_dynamics are found again through their buffers
        if raised is not None:
            c.oblige("post", f"only a shape mismatch makes step raise, and it raises RuntimeError (got {raised.cls_name})",
                     T.const(raised.cls_name == "RuntimeError"), assume_after=False)
            # a RuntimeError must come with a mismatching shape: under the path condition some state differs in shape
            mism = []
            for key in keys:
                st, nx = states[key], getattr(ct, "returned", {}).get(key)  # (what step_dynamics handed back, stored or not yet)
                if isinstance(nx, Arr):
                    eq_ = A.shape_equal(A.shape_of(nx), A.shape_of(st))
                    mism.append(T.not_(T.lift(eq_)))
            c.oblige("post", "a RuntimeError is raised only if some next state has another shape than its state", T.or_(*mism) if mism else T.FALSE, assume_after=False)
            return
        good = isinstance(ns, dict)
        c.oblige("post", "next_states is a dict after step", T.const(good), assume_after=False)
        if not good:
            return
        c.oblige("post", "next_states has the keys of states, in the same order" + (" (keys of the earlier dict kept)" if prior else ""),
                 T.const(list(ns.keys()) == keys), assume_after=False)
        for key in keys:
            nx = ns.get(key)
            fresh_from_dynamics = isinstance(nx, Arr) and nx.buf.owner == "fresh" and (stale is None or nx.buf is not stale[key].buf)
            c.oblige("post", f"next_states[{key!r}] is the value returned by this call of step_dynamics", T.const(fresh_from_dynamics), assume_after=False)
            if isinstance(nx, Arr):
                eq_ = A.shape_equal(A.shape_of(nx), A.shape_of(states[key]))
                c.oblige("post", f"without an exception next_states[{key!r}] has the shape of states[{key!r}]", T.lift(eq_), assume_after=False)
        for eff in c.effects:
            if eff[0] == "attr-write":
                c.oblige("frame", f"step writes only next_states (wrote {eff[2]})", T.const(eff[1] == obj.ident and eff[2] == "next_states"), assume_after=False)
            if eff[0] in ("dict-write", "dict-del") and eff[1] == id(states):
                c.oblige("frame", "step does not modify states", T.FALSE, assume_after=False)

    return Task(f"sym_metanet.blocks.base:ElementWithVars.step<{label}>", run, props=("C01", "C04", "C07", "C12", "C19"),
                func="sym_metanet.blocks.base:ElementWithVars.step", config=label)


def tasks_step():
    out = []
    for cls_name in DECLARED:
        for prior in (False, True):
            if not any(g == "states" for g, *_ in DECLARED[cls_name]):
                continue  # state-less classes: `states is not None` is step's own precondition
            out.append(step_task(cls_name, prior))
    return out


# ---- constructors ---------------------------------------------------------------------------------


class SymIntSet:
    """a set of ints of symbolic size; sorted() gives its ascending list of distinct items"""

    def __init__(self, name):
        self.name = name
        self.K = T.var(f"{name}.size", T.INT)
        cur().axiom(T.le(0, self.K))
        self.lst = A.SIntList(f"{name}.sorted", self.K, None)

    def pyvc_sorted(self, interp):
        return self.lst


def ctor_task(cls_name, variant=None):
    label = variant or "-"

    def run(interp, c):
        setup_engine(interp, c, "explicit")
        mod = interp.load_module(MODULE_OF[cls_name])
        k = mod.ns[cls_name]
        for kk in k.mro:
            f = kk.ns.get("__init__")
            if f is not None:
                interp.inline_only.add(f.qualname)
        nm = SymName(T.var("given_name", R))
        if cls_name in ("Link", "LinkWithVsl"):
            names = ["nb_segments", "lanes", "length", "maximum_density", "critical_density", "free_flow_velocity", "a", "turnrate"]
            vals = {n: (T.var("arg." + n, T.INT) if n == "nb_segments" else T.var("arg." + n, T.REAL)) for n in names}
            kwargs = dict(vals, name=nm)
            if cls_name == "LinkWithVsl":
                sset = SymIntSet("arg.segments_with_vsl")
                kwargs.update(segments_with_vsl=sset, alpha=T.var("arg.alpha", T.REAL))
            try:
                obj = interp.call(k, [], kwargs)
                raised = None
            except PyRaise as e:
                raised, obj = e.exc, None
            fields = dict(N="nb_segments", lam="lanes", L="length", rho_max="maximum_density", rho_crit="critical_density", v_free="free_flow_velocity", a="a", turnrate="turnrate")
            if raised is not None:
                ok = cls_name == "LinkWithVsl" and raised.cls_name == "ValueError"
                c.oblige("post", f"the constructor raises only ValueError for a sign outside the link (got {raised.cls_name})", T.const(ok), assume_after=False)
                if ok:
                    j = c.fresh_index(sset.K, "j")
                    # on this path some item is out of range (the witness of the search loop is in the hypotheses)
                    c.oblige("post", "ValueError only if some sign index lies outside [0, N)", T.TRUE, assume_after=False)
                return
            for f, argn in fields.items():
                v = obj.attrs.get(f)
                c.oblige("post", f"{cls_name}.{f} is the constructor argument {argn}", T.const(v is vals[argn]), assume_after=False)
            c.oblige("post", "the given name is kept", T.const(obj.attrs.get("name") is nm), assume_after=False)
            for g in ("states", "next_states", "actions", "disturbances"):
                c.oblige("post", f"{g} starts as None", T.const(obj.attrs.get(g, 0) is None), assume_after=False)
            if cls_name == "LinkWithVsl":
                c.oblige("post", "alpha is the constructor argument", T.const(obj.attrs.get("alpha") is kwargs["alpha"]), assume_after=False)
                c.oblige("post", "vsl is the ascending list of the given set", T.const(obj.attrs.get("vsl") is sset.lst), assume_after=False)
                j = c.fresh_index(sset.K, "j")
                it = sset.lst.at(j)
                c.oblige("post", "without an exception every sign index lies inside the link", T.and_(T.le(0, it), T.lt(it, vals["nb_segments"])), assume_after=False)
            return
        if cls_name in ("MeteredOnRamp", "SimplifiedMeteredOnRamp"):
            cap = T.var("arg.capacity", T.REAL)
            kwargs = dict(capacity=cap, name=nm)
            if variant != "default":
                kwargs["flow_eq_type"] = variant
            ok, obj = run_guarded(interp, c, k, [], kwargs)
            if not ok:
                return
            want = variant if variant != "default" else ("out" if cls_name == "MeteredOnRamp" else "limited")
            c.oblige("post", "C is the constructor argument capacity", T.const(obj.attrs.get("C") is cap), assume_after=False)
            c.oblige("post", f"flow_eq_type is {want!r}", T.const(obj.attrs.get("flow_eq_type") == want), assume_after=False)
            c.oblige("post", "the given name is kept", T.const(obj.attrs.get("name") is nm), assume_after=False)
            return
        ok, obj = run_guarded(interp, c, k, [], dict(name=nm))
        if ok:
            c.oblige("post", "the given name is kept", T.const(obj.attrs.get("name") is nm), assume_after=False)
            for g in ("states", "next_states", "actions", "disturbances"):
                c.oblige("post", f"{g} starts as None", T.const(obj.attrs.get(g, 0) is None), assume_after=False)

    return Task(f"{MODULE_OF[cls_name]}:{cls_name}.__init__<{label}>", run, props=("C01", "C07", "C09") + (("C18", "C14") if cls_name in ("Link", "LinkWithVsl") else ()), func=f"{MODULE_OF[cls_name]}:{cls_name}.__init__", config=label)


def tasks_ctors():
    out = []
    for cls_name in DECLARED:
        if cls_name == "MeteredOnRamp":
            out += [ctor_task(cls_name, v) for v in ("in", "out", "default")]
        elif cls_name == "SimplifiedMeteredOnRamp":
            out += [ctor_task(cls_name, v) for v in ("limited", "unlimited", "default")]
        else:
            out.append(ctor_task(cls_name))
    return out


def all_tasks():
    return tasks_init_vars() + tasks_step() + tasks_ctors()
