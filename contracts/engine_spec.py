"""EngineSpec: the interface contract of sym_metanet.engines.core (DESIGN.md 1, App. B).

One specification function per primitive. It is used three ways:
 * `apply`   - at a call site (the element layer calling `engine.links.step_speed(...)`, or one
               primitive calling another): preconditions become `pre` obligations of the
               caller, the result is the spec value in the caller's dialect;
 * `refines` - the NumPy and the CasADi implementation are each executed symbolically from the
               real source and must return exactly this value (contracts/engines_tasks.py);
 * natively  - verif/bounded runs the same spec functions on floats.
The formulas come from specs/metanet.py (Hegyi 2004), not from the code.
"""
from __future__ import annotations

from pyvc import arrays as A
from pyvc import terms as T
from pyvc.ctx import cur
from pyvc.values import Arr, SEnum, SSeq, Unsupported, mk_scalar, mk_vec
from specs import metanet as M

ZERO, ONE = A.ZERO, A.ONE


class SpecCtx:
    """mode 'apply': requirements are obligations of the caller; mode 'assume': they are the
    assumed precondition of the implementation being verified"""

    def __init__(self, dialect, mode, where=""):
        self.dialect, self.mode, self.where = dialect, mode, where
        self.alias_of = None  # the spec result is (an alias of) this input

    def req(self, label, cond):
        c = cur()
        if isinstance(cond, bool):
            cond = T.const(cond)
        if self.mode == "apply":
            c.oblige("pre", f"{self.where}: {label}", cond)
        else:
            c.assume(cond)

    def dom(self, label, cond):
        """admissible-domain requirement (definedness of the result)"""
        c = cur()
        if self.mode == "apply":
            if c.check_defined:
                c.oblige("pre", f"{self.where}: {label} (defined)", cond)
            else:
                c.assume(cond)
        else:
            c.assume(cond)

    def dom_forall(self, label, n, cond_at):
        c = cur()
        if T.is_const(n) and T.cval(n) == 1:
            return self.dom(label, cond_at(ZERO))
        if self.mode == "apply" and c.check_defined:
            i = c.fresh_index(n, "p")
            c.oblige("pre", f"{self.where}: {label} (defined)", cond_at(i), assume_after=False)
        # as an assumption a universally quantified fact is used through its instances
        c.assume_forall(n, cond_at)

    # ---- shapes ------------------------------------------------------------------
    def is_vec(self, x):
        return isinstance(x, Arr) and not x.is_scalar

    def need_vec(self, name, x):
        """x must be indexable along axis 0 in both engines"""
        if self.dialect == "cs":
            ok = isinstance(x, Arr) or A.is_num(x)
        else:
            ok = self.is_vec(x)
        self.req(f"{name} is a 1-D array", ok)
        if not ok:
            from pyvc.ctx import Infeasible

            raise Infeasible()

    def need_scalar(self, name, x):
        if x is None:
            self.req(f"{name} is given", False)
        if isinstance(x, Arr) and not x.is_scalar:
            self.req(f"{name} has exactly one element", T.eq(x.n, 1))
        elif not (isinstance(x, Arr) or A.is_num(x)):
            self.req(f"{name} is numeric", False)

    def bl(self, what, *ops):
        """broadcast length with the broadcasting requirement"""
        n = None
        for o in ops:
            if self.is_vec(o):
                if n is None:
                    n = o.n
                elif o.n is not n:
                    if T.is_const(n) and T.cval(n) == 1:
                        n = o.n
                    elif T.is_const(o.n) and T.cval(o.n) == 1:
                        pass
                    else:
                        self.req(f"{what}: shapes broadcast", T.or_(T.eq(n, o.n), T.eq(n, 1), T.eq(o.n, 1)))
                        n = T.ite(T.eq(n, 1), o.n, n)
        return ONE if n is None else n

    def map(self, what, f, *ops, n=None):
        """elementwise f over broadcast operands; result kind by the dialect's rule"""
        if n is None:
            n = self.bl(what, *ops)
        kind = A._result_kind(self.dialect, ops)
        if self.dialect == "np" and kind == "npscalar" and not any(isinstance(o, Arr) for o in ops):
            kind = "npscalar"
        return A._mk(self.dialect, kind, n, lambda i: f(*[A.at_b(o, i, n) for o in ops]), ops)

    def scalar(self, val, ops=()):
        kind = {"np": "npscalar", "cs": "m", "abs": "sc"}[self.dialect]
        return A._mk(self.dialect, kind, ONE, lambda i: val, ops)


# ----------------------------------------------------------------------------------
# the primitives


def nodes_get_upstream_flow(c, q_lasts, beta, betas, q_orig=None):
    c.need_vec("q_lasts", q_lasts)
    c.need_vec("betas", betas)
    c.need_scalar("beta", beta)
    Sq = A.vsum(q_lasts)
    Sb = A.vsum(betas)
    c.dom("sum of turn rates non-zero", T.ne(Sb, 0))
    if q_orig is None:
        return c.map("get_upstream_flow", lambda b: M.inflow_share(b, Sb, Sq), beta)
    c.need_scalar("q_orig", q_orig)
    return c.map("get_upstream_flow", lambda b, qo: M.inflow_share(b, Sb, Sq + qo), beta, q_orig)


def nodes_get_upstream_speed(c, q_lasts, v_lasts):
    c.need_vec("q_lasts", q_lasts)
    c.need_vec("v_lasts", v_lasts)
    n = c.bl("get_upstream_speed", q_lasts, v_lasts)
    prod = A._mk(c.dialect, "a1" if c.dialect == "np" else ("m" if c.dialect == "cs" else "vec"), n,
                 lambda i: A.at_b(v_lasts, i, n) * A.at_b(q_lasts, i, n), (q_lasts, v_lasts))
    Svq = A.vsum(prod)
    Sq = A.vsum(q_lasts)
    c.dom("total entering flow non-zero", T.ne(Sq, 0))
    return c.scalar(M.upstream_speed_weighted(Svq, Sq))


def nodes_get_downstream_density(c, rho_firsts):
    c.need_vec("rho_firsts", rho_firsts)
    n = rho_firsts.n if isinstance(rho_firsts, Arr) else ONE
    sq = A._mk(c.dialect, "a1" if c.dialect == "np" else ("m" if c.dialect == "cs" else "vec"), n,
               lambda i: A.at(rho_firsts, i) * A.at(rho_firsts, i), (rho_firsts,))
    S2 = A.vsum(sq)
    S1 = A.vsum(rho_firsts)
    c.dom("total first-segment density non-zero", T.ne(S1, 0))
    return c.scalar(M.downstream_density_weighted(S2, S1))


def links_get_flow(c, rho, v, lanes):
    return c.map("get_flow", M.flow, rho, v, lanes)


def links_step_density(c, rho, q, q_up, lanes, L, T_):
    n = c.bl("step_density", rho, q, q_up, lanes, L, T_)
    c.dom_forall("lanes non-zero", n, lambda i: T.ne(A.at_b(lanes, i, n), 0))
    c.dom_forall("segment length non-zero", n, lambda i: T.ne(A.at_b(L, i, n), 0))
    return c.map("step_density", lambda r, q_, qu, lam, L_, T__: M.next_density(r, q_, qu, lam, L_, T__), rho, q, q_up, lanes, L, T_, n=n)


def links_step_speed(c, v, v_up, rho, rho_down, Veq, lanes, L, tau, eta, kappa, T_,
                     q_ramp=None, delta=None, lanes_drop=None, phi=None, rho_crit=None):
    for nm, x in (("lanes", lanes), ("L", L), ("tau", tau), ("eta", eta), ("kappa", kappa), ("T", T_)):
        c.need_scalar(nm, x)
    merge = q_ramp is not None and delta is not None
    drop = lanes_drop is not None and phi is not None and rho_crit is not None
    n = c.bl("step_speed", v, v_up, rho, rho_down, Veq)
    if merge or drop:
        c.need_vec("v", v)
        c.need_vec("rho", rho)
        # the correction terms are written into entries of v_next: it must have v's length
        c.req("v, rho and the other state vectors have one common length", T.and_(T.eq(v.n, n), T.eq(rho.n, n)))
    lam, L_, tau_, eta_, kap, Tt = (A.at(x, 0) for x in (lanes, L, tau, eta, kappa, T_))
    c.dom("tau non-zero", T.ne(tau_, 0))
    c.dom("segment length non-zero", T.ne(L_, 0))
    c.dom_forall("rho + kappa non-zero", n, lambda i: T.ne(A.at_b(rho, i, n) + kap, 0))
    if merge:
        c.need_scalar("q_ramp", q_ramp)
        c.need_scalar("delta", delta)
        c.dom("lanes non-zero", T.ne(lam, 0))
    if drop:
        for nm, x in (("lanes_drop", lanes_drop), ("phi", phi), ("rho_crit", rho_crit)):
            c.need_scalar(nm, x)
        c.dom("lanes, rho_crit non-zero", T.and_(T.ne(lam, 0), T.ne(A.at(rho_crit, 0), 0)))
    last = T.sub(n, 1)

    def elem(i):
        r = M.next_speed(A.at_b(v, i, n), A.at_b(v_up, i, n), A.at_b(rho, i, n), A.at_b(rho_down, i, n),
                         A.at_b(Veq, i, n), L_, tau_, eta_, kap, Tt)
        if merge:
            m = M.merge_term(A.at(delta, 0), Tt, A.at(q_ramp, 0), v.at(0), L_, lam, rho.at(0), kap)
            r = T.ite(T.eq(i, 0), r - m, r)
        if drop:
            d = M.lanedrop_term(A.at(phi, 0), Tt, A.at(lanes_drop, 0), rho.at(last), v.at(last), L_, lam, A.at(rho_crit, 0))
            r = T.ite(T.eq(i, last), r - d, r)
        return r

    ops = (v, v_up, rho, rho_down, Veq)
    kind = A._result_kind(c.dialect, ops)
    return A._mk(c.dialect, kind, n, elem, ops)


def links_Veq(c, rho, v_free, rho_crit, a):
    n = c.bl("Veq", rho, v_free, rho_crit, a)
    c.dom_forall("a non-zero", n, lambda i: T.ne(A.at_b(a, i, n), 0))
    c.dom_forall("rho_crit non-zero", n, lambda i: T.ne(A.at_b(rho_crit, i, n), 0))
    c.dom_forall("(rho/rho_crit)^a in its domain", n,
                 lambda i: A.dom_pow(T.div(A.at_b(rho, i, n), A.at_b(rho_crit, i, n)), A.at_b(a, i, n)))
    return c.map("Veq", M.veq, rho, v_free, rho_crit, a, n=n)


def links_controlled_Veq(c, rho, v_ctrl, vsl, alpha, v_free, rho_crit, a):
    c.need_vec("rho", rho)
    for nm, x in (("alpha", alpha), ("v_free", v_free), ("rho_crit", rho_crit), ("a", a)):
        c.need_scalar(nm, x)
    n = rho.n
    al, vf, rc, a_ = (A.at(x, 0) for x in (alpha, v_free, rho_crit, a))
    c.dom("a non-zero", T.ne(a_, 0))
    c.dom("rho_crit non-zero", T.ne(rc, 0))
    c.dom_forall("(rho/rho_crit)^a in its domain", n, lambda i: A.dom_pow(T.div(rho.at(i), rc), a_))
    if isinstance(vsl, A.SIntList):
        K = vsl.n
        c.req("vsl indices lie inside the link", T.le(vsl.bound, n))
        lv = A.length(v_ctrl)
        c.req("one speed limit per equipped segment", T.or_(T.eq(lv, K), T.eq(lv, 1)))

        def elem(i):
            p = vsl.pos(i)
            V = M.veq(rho.at(i), vf, rc, a_)
            return T.ite(T.le(0, p), T.smin(V, (1 + al) * A.at_b(v_ctrl, p, K)), V)

    elif isinstance(vsl, (list, tuple)):
        K = len(vsl)
        lv = A.length(v_ctrl)
        c.req("one speed limit per equipped segment", T.or_(T.eq(lv, K), T.eq(lv, 1)))
        for j in vsl:
            c.req("vsl index inside the link", T.and_(T.le(0, j), T.lt(j, n)))

        def elem(i):
            V = M.veq(rho.at(i), vf, rc, a_)
            r = V
            for k, j in enumerate(vsl):
                r = T.ite(T.eq(i, j), T.smin(V, (1 + al) * A.at_b(v_ctrl, T.const(k, T.INT), T.const(K, T.INT))), r)
            return r

    else:
        raise Unsupported("vsl of unexpected type")
    return A._mk(c.dialect, A._result_kind(c.dialect, (rho,)), n, elem, (rho,))


def origins_step_queue(c, w, d, q, T_):
    return c.map("step_queue", M.queue_next, w, d, q, T_)


def _all_scalar(c, **named):
    for nm, x in named.items():
        c.need_scalar(nm, x)


def origins_get_mainstream_flow(c, d, w, v_ctrl, v_first, rho_crit, a, v_free, lanes, T_):
    _all_scalar(c, d=d, w=w, v_ctrl=v_ctrl, v_first=v_first, rho_crit=rho_crit, a=a, v_free=v_free, lanes=lanes, T=T_)
    a_, rc, vf, Tt = (A.at(x, 0) for x in (a, rho_crit, v_free, T_))
    c.dom("a, rho_crit, v_free, T non-zero", T.and_(T.ne(a_, 0), T.ne(rc, 0), T.ne(vf, 0), T.ne(Tt, 0)))
    c.dom("a positive (the exponent 1/a and (rho/rho_crit)^a)", T.lt(0, a_))
    c.dom("rho_crit / rho_crit > 0", T.lt(0, T.div(rc, rc)))
    return c.map("get_mainstream_flow", M.mainstream_flow_guarded, d, w, v_ctrl, v_first, rho_crit, a, v_free, lanes, T_)


def _type_is(t, s):
    if isinstance(t, str):
        return t == s
    if isinstance(t, SEnum):
        return t.pyvc_eq(s)
    raise Unsupported("flow_eq_type of unexpected type")


def origins_get_ramp_flow(c, d, w, C, r, rho_max, rho_first, rho_crit, T_, type="out"):
    _all_scalar(c, d=d, w=w, C=C, r=r, rho_max=rho_max, rho_first=rho_first, rho_crit=rho_crit, T=T_)
    c.dom("T non-zero", T.ne(A.at(T_, 0), 0))
    c.dom("rho_max differs from rho_crit", T.ne(T.sub(A.at(rho_max, 0), A.at(rho_crit, 0)), 0))
    is_in = _type_is(type, "in")
    ops = (d, w, C, r, rho_max, rho_first, rho_crit, T_)
    if is_in is True:
        return c.map("get_ramp_flow", M.ramp_flow_in, *ops)
    if is_in is False:
        return c.map("get_ramp_flow", M.ramp_flow_out, *ops)
    return c.map("get_ramp_flow", lambda *xs: T.ite(is_in, M.ramp_flow_in(*xs), M.ramp_flow_out(*xs)), *ops)


def origins_get_simplifiedramp_flow(c, qdes, d=None, w=None, C=None, rho_max=None, rho_first=None,
                                    rho_crit=None, T_=None, type="limited"):
    unl = _type_is(type, "unlimited")
    if unl is True:
        c.alias_of = qdes
        return qdes
    _all_scalar(c, qdes=qdes, d=d, w=w, C=C, rho_max=rho_max, rho_first=rho_first, rho_crit=rho_crit, T=T_)
    c.dom("T non-zero", T.ne(A.at(T_, 0), 0))
    c.dom("rho_max differs from rho_crit", T.ne(T.sub(A.at(rho_max, 0), A.at(rho_crit, 0)), 0))
    ops = (qdes, d, w, C, rho_max, rho_first, rho_crit, T_)
    if unl is False:
        return c.map("get_simplifiedramp_flow", M.simplified_ramp_flow, *ops)
    # symbolic variant (element layer): the unlimited case hands back qdes itself - the value may
    # alias the caller's action array, so it is never promised to be fresh
    r = c.map("get_simplifiedramp_flow", lambda q, *xs: T.ite(unl, q, M.simplified_ramp_flow(q, *xs)), *ops)
    r.buf.owner = ("maybe-alias", "qdes")
    return r


def dest_free(c, rho_last, rho_crit):
    return c.map("get_congestion_free_downstream_density", M.dest_free, rho_last, rho_crit)


def dest_congested(c, rho_last, rho_destination, rho_crit):
    return c.map("get_congested_downstream_density", M.dest_congested, rho_last, rho_destination, rho_crit)


def engine_max(c, array1, array2):
    return c.map("max", lambda x, y: T.smax(x, y), array1, array2)


def engine_vcat(c, *arrays):
    from pyvc.interp import _SymStar

    kind = {"np": "a1", "cs": "m", "abs": "vec"}[c.dialect]
    if len(arrays) == 1 and isinstance(arrays[0], _SymStar):
        seq = arrays[0].seq
        probe = seq.elem(cur().fresh_index(seq.n, "vcp"))
        if isinstance(probe, Arr) and not probe.is_scalar and not (T.is_const(probe.n) and T.cval(probe.n) == 1):
            # a stack of a symbolic number of vectors of symbolic lengths: nothing is modelled but that
            # it is some vector (over-approximation: anything proved about it holds for the real one;
            # an equation that needs its entries is refuted, without a concrete input)
            L = T.fresh("n_stacked", T.INT)
            cur().axiom(T.le(0, L))
            f = T.uf(f"stacked!{L.uid}", [T.INT], T.REAL)
            from pyvc.values import mk_vec

            return mk_vec(c.dialect, kind, L, lambda k: f(k), "fresh")
        return A.concat(c.dialect, seq, kind)
    for x in arrays:
        if not (isinstance(x, Arr) or A.is_num(x)):
            c.req("vcat arguments are numeric", False)
    return A.concat(c.dialect, list(arrays), kind)


_var_counter = [0]


def engine_var(c, name, n=1, *args, **kwargs):
    _var_counter[0] += 1
    nn = T.lift(n, T.INT)
    c.req("variable length non-negative", T.le(0, nn))
    f = T.uf(f"var!{_var_counter[0]}", [T.INT], T.REAL)
    kind = {"np": "a1", "cs": "m", "abs": "vec"}[c.dialect]
    if c.dialect == "abs" and T.is_const(nn) and T.cval(nn) == 1:
        # the engine's own length-1 variable: scalar-like, of the length-1 shape class
        a = mk_scalar("abs", "sc", f(ZERO))
        a.buf.sct = ONE
        a.buf.is_var = True
    else:
        a = mk_vec(c.dialect, kind, nn, lambda i: f(i), "fresh")
        a.buf.is_var = True
    cur().events.append({"what": "var", "arr": A.freeze(a), "name": name, "n": nn})
    return a


PRIMS = {
    "nodes.get_upstream_flow": nodes_get_upstream_flow,
    "nodes.get_upstream_speed": nodes_get_upstream_speed,
    "nodes.get_downstream_density": nodes_get_downstream_density,
    "links.get_flow": links_get_flow,
    "links.step_density": links_step_density,
    "links.step_speed": links_step_speed,
    "links.Veq": links_Veq,
    "links.controlled_Veq": links_controlled_Veq,
    "origins.step_queue": origins_step_queue,
    "origins.get_mainstream_flow": origins_get_mainstream_flow,
    "origins.get_ramp_flow": origins_get_ramp_flow,
    "origins.get_simplifiedramp_flow": origins_get_simplifiedramp_flow,
    "destinations.get_congestion_free_downstream_density": dest_free,
    "destinations.get_congested_downstream_density": dest_congested,
    "max": engine_max,
    "vcat": engine_vcat,
    "var": engine_var,
}

# parameter names of the abstract methods (engines/core.py); T is spelled T_ in the specs
PARAM_ALIASES = {"T": "T_"}


def call_spec(prim, c, args, kwargs):
    f = PRIMS[prim]
    kw = {PARAM_ALIASES.get(k, k): v for k, v in kwargs.items()}
    return f(c, *args, **kw)


class PrimitiveContract:
    """contract object registered for the concrete implementations (numpy.py / casadi.py), used
    when one primitive calls another (LinksEngine.Veq inside controlled_Veq / get_mainstream_flow)"""

    def __init__(self, prim, dialect):
        self.prim, self.dialect = prim, dialect

    def apply(self, interp, fn, args, kwargs):
        c = SpecCtx(self.dialect, "apply", where=f"{self.prim}")
        if self.dialect == "np":
            args = [A.np_wrap_scalar(a) if A.is_num(a) and self.prim != "var" else a for a in args]
        return call_spec(self.prim, c, args, kwargs)


class AbsNamespace:
    """engine.nodes / engine.links / ... of the abstract engine"""

    def __init__(self, group):
        self.group = group

    def pyvc_getattr(self, interp, name):
        prim = f"{self.group}.{name}"
        if prim not in PRIMS:
            from pyvc.interp import PyRaise
            from pyvc.values import ExcValue

            raise PyRaise(ExcValue("AttributeError", (prim,)))
        return AbsMethod(prim)


class AbsMethod:
    def __init__(self, prim):
        self.prim = prim

    def pyvc_call(self, interp, args, kwargs):
        c = SpecCtx("abs", "apply", where=f"EngineSpec.{self.prim}")
        cur().effects.append(("engine-call", self.prim))
        return call_spec(self.prim, c, args, kwargs)


class AbsEngine:
    """the abstract engine object the element layer is verified against: an arbitrary
    implementation of EngineBase satisfying EngineSpec"""

    def __init__(self, tag="E"):
        self.tag = tag

    def pyvc_getattr(self, interp, name):
        if name in ("nodes", "links", "origins", "destinations"):
            return AbsNamespace(name)
        if name in ("var", "vcat", "max"):
            return AbsMethod(name)
        from pyvc.interp import PyRaise
        from pyvc.values import ExcValue

        raise PyRaise(ExcValue("AttributeError", (name,)))

    def pyvc_is_none(self):
        return False

    def __repr__(self):
        return f"<AbsEngine {self.tag}>"
