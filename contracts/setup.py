"""Builds the interpreter over /repo's current working tree with the library models and the
contract table."""
from __future__ import annotations

import os

from pyvc.interp import Interp, _TypingThing
from pyvc.libmodels import casadi_model, numpy_model, stdlib_model
from pyvc.values import ModuleValue

REPO = os.environ.get("VERIF_REPO", "/repo")
SRC = os.path.join(REPO, "src")

NP_PRIMS = {
    "NodesEngine": "nodes",
    "LinksEngine": "links",
    "OriginsEngine": "origins",
    "DestinationsEngine": "destinations",
}


def make_interp(with_contracts=True):
    it = Interp(SRC)
    it.ext_modules["numpy"] = numpy_model.make_module()
    it.ext_modules["casadi"] = casadi_model.make_module()
    for k, v in stdlib_model.make_modules().items():
        it.ext_modules[k] = v
    try:
        from pyvc.libmodels import nx_model

        it.ext_modules["networkx"] = nx_model.make_module(it)
    except ImportError:
        it.ext_modules["networkx"] = ModuleValue("networkx")
    imp = ModuleValue("importlib")
    it.ext_modules["importlib"] = imp
    if with_contracts:
        register_contracts(it)
    return it


def register_contracts(it):
    from contracts import engine_spec as ES

    for mod, dialect in (("numpy", "np"), ("casadi", "cs")):
        for cls, group in NP_PRIMS.items():
            for prim in ES.PRIMS:
                if prim.startswith(group + "."):
                    name = prim.split(".", 1)[1]
                    q = f"sym_metanet.engines.{mod}:{cls}.{name}"
                    it.contracts[q] = ES.PrimitiveContract(prim, dialect)
        for name in ("var", "vcat", "max"):
            it.contracts[f"sym_metanet.engines.{mod}:Engine.{name}"] = ES.PrimitiveContract(name, dialect)
    try:
        from contracts import blocks_contracts

        blocks_contracts.register(it)
    except ImportError:
        pass
