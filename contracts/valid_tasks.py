"""NOT RUN BY THE CHECKS ANY MORE (kept for its value classes and as a developer tool,
`tools/run_mod.py valid_tasks`): these fragment tasks pick the loops of is_valid by position and
compare the loop headers textually, so a harmless reordering of the loops made them fail. The
whole-function tasks of contracts/valid_agg_tasks.py subsume them and do not depend on the order.

Network.is_valid (C06), deductive core: the body of each of its four loops (and of the nested
generator) is the real AST, executed at a *generic item* of the collection the loop runs over:

  loop 1  every link of the links view, then every origin/destination attachment (the generator):
          reports  <=>  the object was met before (its count so far is >= 1), and counts it;
  loop 2  every node of the graph:       reports <=> (2) or (3) or (4) or (5) at that node;
  loop 3  every (origin, node) entry:    reports <=> (6) or (7);
  loop 4  every (destination, node) entry: reports <=> (8) or (9);
  with raises=True a report is an InvalidNetworkError instead of a message;
  the verdict is `not msgs` and the function returns (verdict, msgs).

The conditions on the right are written from the documented list, over the ghost graph functions.
What is *not* proved here: that "some iteration reported" over these collections is equivalent to
the global statement of the nine conditions (in particular that counting occurrences over all
slots detects exactly the duplicated objects). That aggregation, and is_valid as a whole, is
checked by the bounded stand-in (exhaustive small graphs)."""
from __future__ import annotations

import ast

from pyvc import terms as T
from pyvc.ctx import cur
from pyvc.interp import Env, PyRaise, _SymbolicIterationNeeded
from pyvc.values import Builtin, ObjRef, SSeq, SymName, Unsupported
from pyvc.vc import Task
from contracts import ghost as G

NETQ = "sym_metanet.network"
R = T.REF
cnt = T.uf("count_so_far", [R], T.INT)


class Deg:
    """self.in_links(node) / self.out_links(node): only its size is used"""

    def __init__(self, n):
        self.n = n

    def pyvc_len(self, interp):
        return self.n

    def pyvc_any(self, interp):
        return T.lt(0, self.n)

    def pyvc_truth(self, interp):
        return T.lt(0, self.n)


class NodeData:
    def __init__(self, node):
        self.node = node

    def pyvc_contains(self, interp, key):
        if key == "origin":
            return G.has_origin(self.node)
        if key == "destination":
            return G.has_dest(self.node)
        raise Unsupported(f"node attribute {key!r}")

    def pyvc_getitem(self, interp, key):
        c = cur()
        if key == "origin":
            c.oblige("safe", "node has an origin attribute", G.has_origin(self.node))
            return Slot(G.origin_of(self.node))
        if key == "destination":
            c.oblige("safe", "node has a destination attribute", G.has_dest(self.node))
            return Slot(G.dest_of(self.node))
        raise Unsupported(f"node attribute {key!r}")


class Slot:
    """an element object occupying a slot (edge / origin / destination attachment)"""

    def __init__(self, term):
        self.term = term

    def pyvc_getattr(self, interp, name):
        if name == "name":
            return SymName(self.term)
        raise Unsupported(f"attribute {name} of a slot object")

    def __hash__(self):
        return hash(self.term)

    def __eq__(self, other):
        return isinstance(other, Slot) and other.term is self.term


class CountDict:
    """the `count` dict of loop 1: count.get(o, 0) is the number of earlier occurrences of o"""

    def __init__(self):
        self.writes = []

    def pyvc_getattr(self, interp, name):
        if name == "get":
            def get(it, a, k):
                self.default = a[1] if len(a) > 1 else None
                if not isinstance(a[0], Slot):
                    # keyed by something else than the object (e.g. its name): distinct objects may share it
                    self.bad_key = repr(a[0])
                    return T.fresh("count_of_other_key", T.INT)
                cur().axiom(T.le(0, cnt(a[0].term)))
                return cnt(a[0].term)

            return Builtin("count.get", get)
        raise Unsupported(f"count.{name}")

    def pyvc_setitem(self, interp, key, v):
        self.writes.append((key, v))


class Msgs(list):
    pass


class VNet:
    """what is_valid reads of the network"""

    def __init__(self, interp):
        self.interp = interp
        self.requests = []
        self.ghost = G.GhostNet(interp, valid=False)

    def pyvc_getattr(self, interp, name):
        self.requests.append(name)
        if name in ("in_links", "out_links"):
            f = G.n_in if name == "in_links" else G.n_out

            def view(it, a, k):
                t = a[0].term
                cur().axiom(T.le(0, f(t)))
                return Deg(f(t))

            return Builtin(name, view)
        if name in ("links", "nodes", "origins", "destinations", "_graph"):
            return _Coll(self, name)
        raise Unsupported(f"Network.{name} in is_valid")


class _Coll:
    def __init__(self, net, name):
        self.net, self.name = net, name

    def pyvc_getattr(self, interp, name):
        self.net.requests.append(f"{self.name}.{name}")
        if name in ("data", "values", "items"):
            return Builtin(f"{self.name}.{name}", lambda it, a, k: _Coll(self.net, f"{self.name}.{name}()"))
        if name == "nodes" and self.name == "_graph":
            return _Coll(self.net, "_graph.nodes")
        raise Unsupported(f"{self.name}.{name}")

    def pyvc_iter(self, interp):
        raise _SymbolicIterationNeeded(SSeq(T.fresh("n", T.INT), lambda j: ("item-of", self.name, j), self.name))


def fragments(interp):
    mod = interp.load_module(NETQ)
    K = mod.ns["Network"]
    fn = K.ns["is_valid"]
    loops = sorted((n for n in ast.walk(fn.node) if isinstance(n, ast.For)), key=lambda n: n.lineno)
    return mod, fn, loops


def mkenv(interp, fn, net, raises, extra=None):
    env = Env(parent=fn.env, module=fn.module, func=fn)
    env.cls = None
    msgs = Msgs()
    env.vars.update({"self": net, "raises": raises, "msgs": msgs})
    env.vars.update(extra or {})
    return env, msgs


def run_body(interp, c, loop, env):
    try:
        interp.exec_block(loop.body, env)
        return None
    except PyRaise as e:
        return e.exc


def check_report(c, what, msgs, raised, raises, cond):
    """obligations: the iteration reports exactly when cond holds"""
    if raises:
        if raised is not None:
            c.oblige("post", f"{what}: only InvalidNetworkError is raised (got {raised.cls_name})", T.const(raised.cls_name == "InvalidNetworkError"), assume_after=False)
            c.oblige("post", f"{what}: with raises=True an error is raised only if the condition is violated", cond, assume_after=False)
        else:
            c.oblige("post", f"{what}: with raises=True a violated condition raises", T.not_(cond), assume_after=False)
            c.oblige("post", f"{what}: no message is left behind without an error", T.const(len(msgs) == 0), assume_after=False)
    else:
        c.oblige("post", f"{what}: with raises=False nothing is raised", T.const(raised is None), assume_after=False)
        if len(msgs) > 0:
            c.oblige("post", f"{what}: a message is added only if the condition is violated", cond, assume_after=False)
        else:
            c.oblige("post", f"{what}: a violated condition adds a message", T.not_(cond), assume_after=False)


def all_tasks():
    out = []

    # ---- structure: which collections the loops run over, and the final verdict
    def run_structure(interp, c):
        mod, fn, loops = fragments(interp)
        inner = [l for l in loops if any(l is not o and l in ast.walk(o) for o in loops)]
        top = [l for l in loops if l not in inner]
        # the generator's loop is nested in the function `origin_destination_yielder`
        gen = [n for n in ast.walk(fn.node) if isinstance(n, ast.FunctionDef) and n is not fn.node]
        c.oblige("post", "is_valid consists of four top-level loops and one nested generator", T.const(len(top) + len(inner) == 5 and len(gen) == 1), assume_after=False)
        srcs = [ast.unparse(l.iter) for l in sorted(loops, key=lambda n: n.lineno)]
        want = ["product(self._graph.nodes.values(), (ORIGINENTRY, DESTINATIONENTRY))",
                "chain((link[2] for link in self.links), iter(origin_destination_yielder()))",
                "self.nodes.data()", "self.origins.items()", "self.destinations.items()"]
        c.oblige("post", f"the loops run over: attachments of every node; all links then all attachments; every node; every origin entry; every destination entry (found {srcs})",
                 T.const(srcs == want), assume_after=False)
        ret = [n for n in ast.walk(fn.node) if isinstance(n, ast.Return) and n.value is not None and not any(n in ast.walk(g) for g in gen)]
        c.oblige("post", "is_valid returns (not msgs, msgs): valid exactly when no message was produced", T.const(len(ret) == 1 and ast.unparse(ret[0].value) == "(not msgs, msgs)"), assume_after=False)
        init = [n for n in fn.node.body if isinstance(n, ast.Assign) and ast.unparse(n) in ("msgs = []", "count: dict[object, int] = {}")]
        c.oblige("post", "msgs starts empty", T.const(any(ast.unparse(n) == "msgs = []" for n in fn.node.body)), assume_after=False)

    out.append(Task(f"{NETQ}:Network.is_valid<structure>", run_structure, props=("C06",), func=f"{NETQ}:Network.is_valid", config="loop structure and verdict"))

    for raises in (False, True):
        # ---- the generator: yields the attachment iff present
        def run_gen(interp, c, raises=raises):
            mod, fn, loops = fragments(interp)
            loop = loops[0]
            n = T.var("n", R)
            for key, has, val in (("origin", G.has_origin, G.origin_of), ("destination", G.has_dest, G.dest_of)):
                env, msgs = mkenv(interp, fn, VNet(interp), raises)
                env.vars["$yield"] = []
                interp.assign(loop.target, (NodeData(n), key), env)
                raised = run_body(interp, c, loop, env)
                ys = env.vars["$yield"]
                c.oblige("post", f"generator, {key}: raises nothing", T.const(raised is None), assume_after=False)
                if ys:
                    c.oblige("post", f"generator: an attachment is yielded only if the node has that {key}", has(n), assume_after=False)
                    c.oblige("post", f"generator: what is yielded is the node's {key}", T.const(len(ys) == 1 and isinstance(ys[0], Slot) and ys[0].term is val(n)), assume_after=False)
                else:
                    c.oblige("post", f"generator: every {key} attachment is yielded", T.not_(has(n)), assume_after=False)

        if not raises:
            out.append(Task(f"{NETQ}:Network.is_valid<generator of attachments>", run_gen, props=("C06",), func=f"{NETQ}:Network.is_valid", config="nested generator"))

        # ---- loop 1: duplicates
        def run_dup(interp, c, raises=raises):
            mod, fn, loops = fragments(interp)
            loop = loops[1]
            o = T.var("o", R)
            cd = CountDict()
            env, msgs = mkenv(interp, fn, VNet(interp), raises, {"count": cd})
            interp.assign(loop.target, Slot(o), env)
            raised = run_body(interp, c, loop, env)
            c.oblige("post", "(1): occurrences are looked up by the object itself (identity), not by a name or another key",
                     T.const(getattr(cd, "bad_key", None) is None), assume_after=False, meta={"key": getattr(cd, "bad_key", None)})
            seen_before = T.le(1, cnt(o))
            check_report(c, "(1) duplicated element", msgs, raised, raises, seen_before)
            if raised is None:
                good = len(cd.writes) == 1 and isinstance(cd.writes[0][0], Slot) and cd.writes[0][0].term is o
                c.oblige("post", "(1): the occurrence is counted for this very object", T.const(good), assume_after=False)
                if good:
                    c.oblige("post", "(1): its count grows by one", T.eq(T.lift(cd.writes[0][1]), T.add(cnt(o), 1)), assume_after=False)
                c.oblige("post", "(1): an object not met before counts from zero", T.const(getattr(cd, "default", None) == 0), assume_after=False)

        out.append(Task(f"{NETQ}:Network.is_valid<loop 1 body,raises={raises}>", run_dup, props=("C06",), func=f"{NETQ}:Network.is_valid", config=f"duplicate scan, raises={raises}"))

        # ---- loop 2: conditions 2-5 at a node
        def run_nodes(interp, c, raises=raises):
            mod, fn, loops = fragments(interp)
            loop = loops[2]
            n = T.var("n", R)
            net = VNet(interp)
            env, msgs = mkenv(interp, fn, net, raises)
            interp.assign(loop.target, (Slot(n), NodeData(n)), env)
            raised = run_body(interp, c, loop, env)
            ni, no, ho, hd = G.n_in(n), G.n_out(n), G.has_origin(n), G.has_dest(n)
            c2 = T.and_(ho, hd)
            c3 = T.and_(T.eq(ni, 0), T.eq(no, 0))
            c4 = T.and_(T.eq(ni, 0), T.not_(ho))
            c5 = T.and_(T.eq(no, 0), T.not_(hd))
            check_report(c, "(2)-(5) at a node", msgs, raised, raises, T.or_(c2, c3, c4, c5))
            if not raises and raised is None:
                k = T.add(T.add(T.ite(c2, 1, 0), T.ite(c3, 1, 0)), T.add(T.ite(c4, 1, 0), T.ite(c5, 1, 0)))
                c.oblige("post", "(2)-(5): one message per violated condition", T.eq(k, len(msgs)), assume_after=False)

        out.append(Task(f"{NETQ}:Network.is_valid<loop 2 body,raises={raises}>", run_nodes, props=("C06",), func=f"{NETQ}:Network.is_valid", config=f"conditions 2-5, raises={raises}"))

        # ---- loop 3: conditions 6, 7 at an origin entry
        def run_orig(interp, c, raises=raises):
            mod, fn, loops = fragments(interp)
            loop = loops[3]
            o, n = T.var("o", R), T.var("n", R)
            net = VNet(interp)
            c.axiom(G.isa(o, G.ORIGIN_CLASSES))
            origin = net.ghost.heap.ref(o, G.ORIGIN_CLASSES)
            env, msgs = mkenv(interp, fn, net, raises)
            interp.assign(loop.target, (origin, Slot(n)), env)
            raised = run_body(interp, c, loop, env)
            c6 = T.and_(T.not_(G.isa(o, G.METERED)), T.lt(0, G.n_in(n)))
            c7 = T.lt(1, G.n_out(n))
            check_report(c, "(6)-(7) at an origin's node", msgs, raised, raises, T.or_(c6, c7))

        out.append(Task(f"{NETQ}:Network.is_valid<loop 3 body,raises={raises}>", run_orig, props=("C06",), func=f"{NETQ}:Network.is_valid", config=f"conditions 6-7, raises={raises}"))

        # ---- loop 4: conditions 8, 9 at a destination entry
        def run_dest(interp, c, raises=raises):
            mod, fn, loops = fragments(interp)
            loop = loops[4]
            d, n = T.var("d", R), T.var("n", R)
            net = VNet(interp)
            c.axiom(G.isa(d, G.DEST_CLASSES))
            env, msgs = mkenv(interp, fn, net, raises)
            interp.assign(loop.target, (net.ghost.heap.ref(d, G.DEST_CLASSES), Slot(n)), env)
            raised = run_body(interp, c, loop, env)
            c8 = T.lt(1, G.n_in(n))
            c9 = T.lt(0, G.n_out(n))
            check_report(c, "(8)-(9) at a destination's node", msgs, raised, raises, T.or_(c8, c9))

        out.append(Task(f"{NETQ}:Network.is_valid<loop 4 body,raises={raises}>", run_dest, props=("C06",), func=f"{NETQ}:Network.is_valid", config=f"conditions 8-9, raises={raises}"))
    return out
