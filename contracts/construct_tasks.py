"""Stratum C, part 1: construction calls (C09) and cache coherence (C08) of Network.

C08 is a representation invariant:  for every cached property p,
      p in net.__dict__   ==>   net.__dict__[p] = F_p(graph)            (Inv)
established by the constructor (empty cache) and preserved by every mutator; reads only fill the
cache with F_p(graph). So it holds after *every* interleaving of mutators and reads (no bound on
the history).  Preservation is proved per (mutator m, property p): executing the real decorated
method (the wrapper built by the real `invalidate_cache` is interpreted, not trusted) either
drops p from the cache, or p's value does not depend on any graph region m writes:
      deps(F_p) /\\ writes(m) = {}
where deps(F_p) are the graph regions read when p's own body is executed on the abstract graph
(transitively through other cached properties) and writes(m) the regions m's body writes.

C09: the graph calls made by each mutator are exactly the described ones (node/edge/attribute,
direction, attribute key); add_path is checked for every path shape up to a length bound
(labelled bounded)."""
from __future__ import annotations

import itertools

from pyvc import terms as T
from pyvc.ctx import cur
from pyvc.interp import PyRaise, Env
from pyvc.libmodels import nx_graph as NG
from pyvc.values import BoundMethod, FuncValue, LocalObj, PropertyValue, SSeq, SymName, Unsupported
from pyvc.vc import Task

NETQ = "sym_metanet.network"
CACHED = ["nodes_by_name", "links", "in_links", "links_by_name", "nodes_by_link", "origins", "origins_by_name", "origins_by_node",
          "destinations", "destinations_by_name", "destinations_by_node"]
MUTATORS = ["add_node", "add_nodes", "add_link", "add_links", "add_origin", "add_destination"]


def new_network(interp):
    mod = interp.load_module(NETQ)
    K = mod.ns["Network"]
    net = interp.call(K, [], {"name": "net"})
    return net, K


def mk(interp, module, cls, tag):
    k = interp.load_module(module).ns[cls]
    o = LocalObj(k)
    o.attrs["name"] = SymName(("obj", tag))
    return o


def node(interp, tag):
    return mk(interp, "sym_metanet.blocks.nodes", "Node", tag)


def link(interp, tag):
    return mk(interp, "sym_metanet.blocks.links", "Link", tag)


def origin(interp, tag):
    return mk(interp, "sym_metanet.blocks.origins", "MeteredOnRamp", tag)


def dest(interp, tag):
    return mk(interp, "sym_metanet.blocks.destinations", "Destination", tag)


def cached_props(K):
    return {n: v for n, v in K.ns.items() if isinstance(v, PropertyValue) and v.cached}


def deps_of(interp, K, name):
    """regions read when the body of cached property `name` runs on a network with an empty cache"""
    c = cur()
    net, _ = new_network(interp)
    mark = len(c.effects)
    interp.getattr(net, name)
    deps = {e[1] for e in c.effects[mark:] if e[0] == "g-read"}
    cached_reads = {e[1] for e in c.effects[mark:] if e[0] == "cache-fill"}
    return deps, cached_reads


class OneShot:
    """an argument documented as `Iterable`: it can be iterated once (an iterator such as zip or a
    generator); a second iteration finds nothing.  `.n` / `.elem` give the items of that one pass."""

    def __init__(self, seq):
        self.seq, self.used = seq, False
        self.n, self.elem, self.desc = seq.n, seq.elem, seq.desc

    def pyvc_iter(self, interp):
        from pyvc.interp import _SymbolicIterationNeeded

        if self.used:
            return iter([])
        self.used = True
        raise _SymbolicIterationNeeded(self.seq)


class Token:
    """the value a cached property held before the mutator ran"""

    def __init__(self, name):
        self.name = name

    def __repr__(self):
        return f"<cached {self.name}>"

    def pyvc_truth(self, interp):
        # a cached lookup is a dict (or a view): it may be empty - its truth value is unknown
        if not hasattr(self, "_nonempty"):
            self._nonempty = T.fresh(f"cached_{self.name}_is_nonempty", T.BOOL)
        return self._nonempty


def args_for(interp, m):
    n1, n2 = node(interp, "n1"), node(interp, "n2")
    l1 = link(interp, "l1")
    if m == "add_node":
        return [n1], {}
    if m == "add_nodes":
        seq = SSeq(T.var("len.nodes", T.INT), lambda j: NG.AItem("given-node", j), "nodes argument")
        return [seq], {}
    if m == "add_link":
        return [n1, l1, n2], {}
    if m == "add_links":
        seq = SSeq(T.var("len.links", T.INT), lambda j: (NG.AItem("given-up", j), NG.AItem("given-link", j), NG.AItem("given-down", j)), "links argument")
        # the parameter is documented as an Iterable: it may be a one-shot iterator (zip, generator)
        return [OneShot(seq)], {}
    if m == "add_origin":
        return [origin(interp, "o1"), n1], {}
    if m == "add_destination":
        return [dest(interp, "d1"), n1], {}
    raise ValueError(m)


def mutator_task(m, present, failing=False):
    """failing: the networkx call inside the mutator raises after it has changed the graph (a malformed
    item in a batch, a None node ...): the exception propagates, and the lookups must still be coherent"""
    label = f"cached={'+'.join(present) or 'nothing'}" + (",networkx raises after writing" if failing else "")

    def run(interp, c):
        net, K = new_network(interp)
        props = cached_props(K)  # whatever cached lookups the class has now (eleven on the pinned tree)
        missing = [p for p in present if p not in props]
        c.oblige("post", f"the lookups {missing} are still offered (as cached properties)", T.const(not missing), assume_after=False)
        deps = {p: deps_of(interp, K, p)[0] for p in props}
        for p_, d_ in deps.items():
            ext = sorted(x for x in d_ if x.startswith("element-attr:"))
            c.oblige("post", f"the cached lookup {p_} is computed from the graph only, not from attributes of the elements that can change without any construction call (reads {ext})",
                     T.const(not ext), assume_after=False)
        graph = net.attrs["_graph"]
        held = [p for p in present if p in props]
        if set(present) >= set(CACHED):  # "everything cached": includes lookups added since
            held += [p for p in props if p not in held]
        for p in held:
            net.attrs[props[p].attrname] = Token(p)
        fn, _ = K.lookup(m)
        inner = fn.wrapped if isinstance(fn, FuncValue) and fn.wrapped is not None else fn
        interp.inline_only.add(inner.qualname)
        args, kwargs = args_for(interp, m)
        mark = len(c.effects)
        graph.fail_after_write = failing
        try:
            r = interp.call(BoundMethod(fn, net), args, kwargs)
            if failing:
                called = any(e[0] == "g-call" for e in c.effects[mark:])
                c.oblige("post", f"{m} lets the error of networkx through", T.const(not called), assume_after=False)
                return
        except PyRaise as e:
            if not failing:
                c.oblige("safe", f"{m} raises nothing ({e.exc.cls_name}: {e.exc.args})", T.FALSE, assume_after=False)
                return
            r = net
        finally:
            graph.fail_after_write = False
        eff = c.effects[mark:]
        c.oblige("post", f"{m} returns the network itself", T.const(r is net), assume_after=False)
        c.oblige("frame", "the graph object of the network is never replaced", T.const(net.attrs.get("_graph") is graph), assume_after=False)
        writes = {e[1] for e in eff if e[0] == "g-write"}
        # ---- C08: Inv preserved
        for p in props:
            attr = props[p].attrname
            v = net.attrs.get(attr, None)
            if not isinstance(v, Token):
                # dropped (will be recomputed from the graph on the next read) or recomputed after the last write
                if attr in net.attrs:
                    last_write = max([i for i, e in enumerate(eff) if e[0] == "g-write"], default=-1)
                    fills = [i for i, e in enumerate(eff) if e[0] == "cache-fill" and e[1] == attr]
                    ok = bool(fills) and min(fills) > last_write
                    c.oblige("frame", f"{m}: a value of {p} computed inside the call is computed after the last graph write", T.const(ok), assume_after=False)
                continue
            clash = sorted(deps[p] & writes)
            c.oblige("frame", f"{m} keeps cached {p} only if it cannot change: regions read by {p} {sorted(deps[p])} vs written by {m} {sorted(writes)}",
                     T.const(not clash), assume_after=False, meta={"clash": clash})
        if failing:
            return
        # ---- C09: the graph calls
        calls = [e for e in eff if e[0] == "g-call"]
        sets = [e[2] for e in eff if e[0] == "g-write" and e[2] and e[2][0] == "set-node-attr"]
        if m == "add_node":
            good = len(calls) == 1 and calls[0][1] == "add_node" and calls[0][2] == (args[0],) and not calls[0][3] and not sets
            c.oblige("post", "add_node adds exactly the given node, without attributes", T.const(good), assume_after=False)
        elif m == "add_nodes":
            good = len(calls) == 1 and calls[0][1] == "add_nodes_from" and calls[0][2] == (args[0],) and not calls[0][3] and not sets
            c.oblige("post", "add_nodes adds exactly the given nodes", T.const(good), assume_after=False)
        elif m == "add_link":
            n1, l1, n2 = args
            good = len(calls) == 1 and calls[0][1] == "add_edge" and calls[0][2] == (n1, n2) and calls[0][3] == {"link": l1} and not sets
            c.oblige("post", "add_link adds the edge (upstream, downstream) carrying the link under 'link'", T.const(good), assume_after=False)
        elif m == "add_links":
            good = len(calls) == 1 and calls[0][1] == "add_edges_from" and len(calls[0][2]) == 1 and not calls[0][3] and not sets
            c.oblige("post", "add_links makes one bulk edge insertion", T.const(good), assume_after=False)
            if good:
                it = calls[0][2][0]
                okk = isinstance(it, SSeq) and it.n is args[0].n
                c.oblige("post", "add_links inserts one edge per given triple", T.const(okk), assume_after=False)
                if okk:
                    j = T.fresh("j", T.INT)
                    src = args[0].elem(j)
                    e = it.elem(j)
                    shape = isinstance(e, tuple) and len(e) == 3 and isinstance(e[2], dict)
                    c.oblige("post", "each inserted edge is (upstream, downstream, {'link': link}) of its triple (upstream, link, downstream)",
                             T.const(shape and e[0].kind == "given-up" and e[1].kind == "given-down" and list(e[2].keys()) == ["link"] and e[2]["link"].kind == "given-link"
                                     and e[0].idx is j and e[1].idx is j and e[2]["link"].idx is j), assume_after=False)
        elif m in ("add_origin", "add_destination"):
            x, n1 = args
            key = "origin" if m == "add_origin" else "destination"
            member = graph.membership.get(("in-graph", id(n1)))
            asked = member is not None
            in_graph = asked and any(h is member for h in c.hyps)
            # the effect wanted: afterwards the node is in the graph with attribute key = the given element,
            # nothing else changed.  networkx offers two ways: add_node(n, key=x) (creates the node or
            # updates the attributes of an existing one) and nodes[n][key] = x (only for an existing node)
            by_add = len(calls) == 1 and calls[0][1] == "add_node" and calls[0][2] == (n1,) and calls[0][3] == {key: x} and not sets
            if not by_add and len(calls) == 1 and calls[0][1] == "add_node" and calls[0][2] == (n1,) and not sets:
                # add_node(n, **attrs) where attrs also carries the node's existing attributes (a marker key,
                # see ADataDict.pyvc_update_into): writing them back changes nothing; what matters is
                # whether the given element is written after them (wins) or before (an existing attachment wins)
                ks = list(calls[0][3].keys())
                marks = [k_ for k_ in ks if isinstance(k_, tuple) and k_ and k_[0] == "$existing-attributes"]
                if len(marks) == 1 and sorted(map(str, ks)) == sorted(map(str, [marks[0], key])) and calls[0][3][key] is x:
                    if ks.index(key) > ks.index(marks[0]):
                        by_add = True
                    else:
                        had = T.fresh(f"node_had_{key}", T.BOOL)
                        c.oblige("post", f"{m}: the given element replaces an attachment the node already has (here the existing attribute is written back over it)",
                                 T.not_(had), assume_after=False)
                        by_add = True
            by_set = not calls and len(sets) == 1 and sets[0][1] is n1 and sets[0][2] == key and sets[0][3] is x
            if in_graph:
                c.oblige("post", f"{m} on an existing node replaces its attribute {key!r} by the given element and nothing else", T.const(by_add or by_set), assume_after=False)
            else:
                c.oblige("post", f"{m} on a node that may be new adds it with attribute {key!r} = the given element (writing into the attribute dict of a missing node is not possible)",
                         T.const(by_add), assume_after=False)

    return Task(f"{NETQ}:Network.{m}<{label}>", run, props=("C08", "C09", "C02", "C04", "C06", "C07", "C19") + (("C14", "C01") if not present else ()), func=f"{NETQ}:Network.{m}", config=label)


def lists_of_wrappers(interp):
    return {}


def property_tasks():
    """each cached property evaluated on the abstract graph: what it depends on"""
    expected = {
        "nodes_by_name": {"nodes"}, "links": set(), "in_links": set(), "links_by_name": {"edges"}, "nodes_by_link": {"edges"},
        "origins": {"attr:origin"}, "origins_by_name": {"attr:origin"}, "origins_by_node": {"attr:origin"},
        "destinations": {"attr:destination"}, "destinations_by_name": {"attr:destination"}, "destinations_by_node": {"attr:destination"},
    }

    def run(interp, c):
        net, K = new_network(interp)
        for p in CACHED:
            d, _ = deps_of(interp, K, p)
            c.oblige("post", f"{p} is computed from the documented part of the graph only ({sorted(expected[p])}); it reads {sorted(d)}", T.const(d == expected[p]), assume_after=False)
        # live views and plain properties
        net2, _ = new_network(interp)
        for nm in ("G", "graph", "asgraph"):
            c.oblige("post", f"Network.{nm} is the graph itself", T.const(interp.getattr(net2, nm) is net2.attrs["_graph"]), assume_after=False)
        c.oblige("post", "out_links is the links view", T.const(interp.getattr(net2, "out_links") is interp.getattr(net2, "links")), assume_after=False)

    return [Task(f"{NETQ}:Network.<cached properties>", run, props=("C08", "C09"), func=f"{NETQ}:Network cached properties")]


def views_tasks():
    """views.py: the per-node call forwards nbunch, data (='link') and default by keyword; items are
    the 'link' attribute; iteration yields (u, v, link)"""

    def run(interp, c):
        net, K = new_network(interp)
        n1 = node(interp, "n1")
        for view_name, cls in (("links", "OutLinkViewWrapper"), ("in_links", "InLinkViewWrapper")):
            view = interp.getattr(net, view_name)
            good = isinstance(view, LocalObj) and view.cls.name == cls and view.attrs.get("_graph") is net.attrs["_graph"]
            c.oblige("post", f"Network.{view_name} is a {cls} over the network's graph", T.const(good), assume_after=False)
            if not good:
                continue
            for k in view.cls.ns.values():
                if isinstance(k, FuncValue):
                    interp.inline_only.add(k.qualname)
            mark = len(c.effects)
            try:
                q = interp.call(view, [n1], {})
            except PyRaise as e:
                c.oblige("safe", f"{view_name}(node) raises nothing ({e.exc.cls_name}: {str(e.exc.args)[:100]})", T.FALSE, assume_after=False)
                continue
            calls = [e for e in c.effects[mark:] if e[0] == "g-call" and e[1] == "edge-view-call"]
            good = len(calls) == 1 and calls[0][2][1] is n1 and calls[0][2][2] == "link" and calls[0][3].get("default") is None
            c.oblige("post", f"{view_name}(node) asks networkx for the edges at that node with data='link'", T.const(good), assume_after=False)
            # iteration: (u, v, link attribute)
            try:
                items = interp.iterate(view)
                c.oblige("post", f"iterating {view_name} is symbolic", T.FALSE, assume_after=False)
            except Exception as e:
                from pyvc.interp import _SymbolicIterationNeeded

                if isinstance(e, _SymbolicIterationNeeded):
                    it = e.seq.elem(T.fresh("j", T.INT))
                    good = isinstance(it, tuple) and len(it) == 3 and getattr(it[0], "kind", "") == "node" and getattr(it[1], "kind", "") == "node" \
                        and getattr(it[2], "kind", "") == "edge-attr:link" and it[0].idx[0] == "u" and it[1].idx[0] == "nbr"
                    c.oblige("post", f"iterating {view_name} yields (node, neighbour, link attribute of that edge)", T.const(good), assume_after=False)
                else:
                    raise
            try:
                d = interp.getitem(view, (n1, n1))
                c.oblige("post", f"{view_name}[(u, v)] is the 'link' attribute of that edge", T.const(getattr(d, "kind", "") == "edge-attr:link"), assume_after=False)
            except PyRaise as e:
                c.oblige("safe", f"{view_name}[(u, v)] raises nothing ({e.exc.cls_name})", T.FALSE, assume_after=False)

    return [Task("sym_metanet.views:LinkViewWrappers", run, props=("C01", "C06", "C07", "C08", "C09", "C14"), func="sym_metanet.views:OutLinkViewWrapper/InLinkViewWrapper")]


# ---- add_path: every path shape up to a length bound (bounded) --------------------------------------
PATH_BOUND = 5


class PathEvents:
    family = None

    def __init__(self, what, log):
        self.what, self.log = what, log

    def apply(self, interp, fn, args, kwargs):
        self.log.append((self.what, tuple(args[1:]), dict(kwargs)))
        return args[0]


def add_path_task(shape, with_origin, with_dest):
    label = f"path={''.join(shape) or 'empty'},origin={with_origin},destination={with_dest}"

    def run(interp, c):
        net, K = new_network(interp)
        fn, _ = K.lookup("add_path")
        interp.inline_only.add(fn.qualname)
        log = []
        for m in ("add_node", "add_link", "add_origin", "add_destination", "add_nodes", "add_links"):
            interp.contracts[f"{NETQ}:Network.{m}"] = PathEvents(m, log)
        other = mk(interp, "sym_metanet.blocks.origins", "Origin", "x")
        items = []
        for k, ch in enumerate(shape):
            items.append(node(interp, f"n{k}") if ch == "N" else link(interp, f"l{k}") if ch == "L" else other)
        o = origin(interp, "o") if with_origin else None
        d = dest(interp, "d") if with_dest else None
        mark = len(c.effects)
        try:
            r = interp.call(BoundMethod(fn, net), [_Iterable(items)], dict(origin=o, destination=d))
            raised = None
        except PyRaise as e:
            raised, r = e.exc, None
        wellformed = len(shape) >= 3 and len(shape) % 2 == 1 and all(ch == ("N" if k % 2 == 0 else "L") for k, ch in enumerate(shape))
        direct = [e for e in c.effects[mark:] if e[0] in ("g-write", "g-call")]
        c.oblige("frame", "add_path touches the graph only through add_node / add_link / add_origin / add_destination", T.const(not direct), assume_after=False)
        nodeish = lambda x: isinstance(x, LocalObj) and x.cls.name == "Node"
        for what, a, kw in log:
            if what == "add_node":
                c.oblige("post", "only Node objects are added as nodes", T.const(nodeish(a[0])), assume_after=False)
            elif what == "add_origin" or what == "add_destination":
                c.oblige("post", f"{what} is attached to a Node object", T.const(nodeish(a[1])), assume_after=False)
            elif what == "add_link":
                c.oblige("post", "links are added between Node objects and carry a Link", T.const(len(a) == 3 and nodeish(a[0]) and nodeish(a[2]) and isinstance(a[1], LocalObj) and a[1].cls.name == "Link"), assume_after=False)
        if not wellformed:
            c.oblige("post", f"a malformed path ({''.join(shape) or 'empty'}) is rejected with an error", T.const(raised is not None), assume_after=False)
            return
        c.oblige("post", "a well-formed path is accepted", T.const(raised is None), assume_after=False)
        if raised is not None:
            return
        c.oblige("post", "add_path returns the network itself", T.const(r is net), assume_after=False)
        exp = [("add_node", (items[0],))]
        if o is not None:
            exp.append(("add_origin", (o, items[0])))
        for k in range(1, len(items), 2):
            exp.append(("add_node", (items[k + 1],)))
            exp.append(("add_link", (items[k - 1], items[k], items[k + 1])))
        if d is not None:
            exp.append(("add_destination", (d, items[-1])))
        got = [(w, a) for w, a, kw in log if not kw]
        # nodes may be added in any order relative to their links as long as each link joins its neighbours
        same = sorted(map(repr, got)) == sorted(map(repr, exp)) and len(got) == len(log)
        c.oblige("post", "add_path adds every node, every link between its two neighbours (in path direction), the origin at the first and the destination at the last node, and nothing else",
                 T.const(same), assume_after=False)

    return Task(f"{NETQ}:Network.add_path<{label}>", run, props=("C08", "C09", "C02", "C04", "C06", "C07", "C19"), func=f"{NETQ}:Network.add_path", config=label,
                bounded=f"concrete path shapes up to length {PATH_BOUND}")


class _Iterable:
    """an arbitrary iterable (not a list): add_path must work through iter()/next()"""

    def __init__(self, items):
        self.items = items

    def pyvc_iter(self, interp):
        return iter(list(self.items))

    def pyvc_iter_obj(self, interp):
        from pyvc.interp import _Iter

        return _Iter(self.items)


# ---- add_path for paths of any length: loop invariant -----------------------------------------------
pkind = T.uf("path.kind", [T.INT], T.INT)  # 0: a Node, 1: a Link, 2: anything else
half = T.uf("path.half", [T.INT], T.INT)
KIND = {"Node": 0, "Link": 1}


class PItem:
    """the j-th item of a path of symbolic length and content"""

    def __init__(self, j):
        self.j = T.lift(j, T.INT)

    def pyvc_isinstance(self, interp, cls):
        nm = getattr(cls, "name", None)
        if nm in KIND:
            return T.eq(pkind(self.j), KIND[nm])
        raise Unsupported(f"isinstance of a path item against {cls!r}")

    def pyvc_getattr(self, interp, name):
        if name == "name":
            return SymName(("path-item", self.j))
        raise Unsupported(f"attribute {name} of a path item")

    def __repr__(self):
        return f"<item {self.j!r}>"


def alternates(j):
    """item j has the kind its position demands: Node at even, Link at odd positions"""
    j = T.lift(j, T.INT)
    cur().axiom(T.or_(T.eq(j, 2 * half(j)), T.eq(j, 2 * half(j) + 1)))  # every integer is even or odd
    return T.or_(T.and_(T.eq(j, 2 * half(j)), T.eq(pkind(j), 0)), T.and_(T.eq(j, 2 * half(j) + 1), T.eq(pkind(j), 1)))


class UItem(PItem):
    """placeholder item of a fixed kind at a placeholder position: used to discover the loop-carried state"""

    def __init__(self, j, kind):
        super().__init__(j)
        self.kind = kind

    def pyvc_isinstance(self, interp, cls):
        nm = getattr(cls, "name", None)
        if nm in KIND:
            return KIND[nm] == self.kind
        raise Unsupported(f"isinstance of a path item against {cls!r}")


def _copy(v):
    if isinstance(v, list):
        return [_copy(x) for x in v]
    if isinstance(v, tuple):
        return tuple(_copy(x) for x in v)
    if isinstance(v, dict):
        return {k: _copy(x) for k, x in v.items()}
    return v


def _gen(v, mp):
    """instance of a discovered state: placeholder positions replaced by position terms"""
    if isinstance(v, UItem):
        return PItem(T.substitute(v.j, mp))
    if isinstance(v, T.Term):
        return T.substitute(v, mp)
    if isinstance(v, list):
        return [_gen(x, mp) for x in v]
    if isinstance(v, tuple):
        return tuple(_gen(x, mp) for x in v)
    if isinstance(v, dict):
        return {k: _gen(x, mp) for k, x in v.items()}
    return v


def _same(a, b, eqs):
    """structural comparison of two states; positions / integer terms are collected as equations"""
    if isinstance(a, PItem) and isinstance(b, PItem):
        eqs.append(T.eq(a.j, b.j))
        return True
    ta, tb = isinstance(a, T.Term), isinstance(b, T.Term)
    if ta or tb:
        if (ta or (isinstance(a, int) and not isinstance(a, bool))) and (tb or (isinstance(b, int) and not isinstance(b, bool))):
            x, y = T.lift(a, T.INT) if not ta else a, T.lift(b, T.INT) if not tb else b
            if x.sort != y.sort:
                return False
            eqs.append(T.eq(x, y))
            return True
        return False
    if isinstance(a, (list, tuple)):
        return type(a) is type(b) and len(a) == len(b) and all(_same(x, y, eqs) for x, y in zip(a, b))
    if isinstance(a, dict):
        return isinstance(b, dict) and list(a) == list(b) and all(_same(a[k], b[k], eqs) for k in a)
    if a is b:
        return True
    return type(a) is type(b) and isinstance(a, (bool, int, str, float)) and a == b


def add_path_invariant_task(with_origin, with_dest):
    label = f"any length,origin={with_origin},destination={with_dest}"

    def run(interp, c):
        from pyvc.interp import _SymIter
        from pyvc.loops import _child_env
        from pyvc.ctx import Infeasible

        net, K = new_network(interp)
        fn, _ = K.lookup("add_path")
        interp.inline_only.add(fn.qualname)
        log = []
        for m_ in ("add_node", "add_link", "add_origin", "add_destination", "add_nodes", "add_links"):
            interp.contracts[f"{NETQ}:Network.{m_}"] = PathEvents(m_, log)
        n = T.var("len.path", T.INT)
        c.axiom(T.le(0, n))
        seq = SSeq(n, lambda j: PItem(j), "path")
        o = origin(interp, "o") if with_origin else None
        d = dest(interp, "d") if with_dest else None
        mode = {}

        def rule(it, node, lseq, env):
            """the loop of add_path.  The loop-carried state (whatever local variables the code keeps it in)
            is *inferred*: the body is run four times from the real initial state on placeholder items
            a1..a4 of the right kinds, and the states after the third and fourth iteration, with the
            placeholders read as k-2, k-1, k, are the candidate invariant at a generic odd / even position
            k.  The candidate is then checked to be inductive (one generic iteration of either parity, and
            the three first iterations from the real initial state) together with what the iteration does
            to the graph; a candidate that is not inductive is a failure of this inference - undecided -
            not of the code.  After that the loop is replaced by its summary."""
            from pyvc.interp import ContinueEx, BreakEx

            m = lseq.n  # = n - 1 items remain after the first
            probe = lseq.elem(T.const(0, T.INT))
            pit = [x for x in (probe if isinstance(probe, tuple) else (probe,)) if isinstance(x, PItem)]
            if len(pit) != 1 or not T.is_const(pit[0].j):
                raise Unsupported("the loop of add_path does not run over the remaining path items")
            j0 = T.cval(pit[0].j)  # items consumed before the loop
            if j0 != 1:
                raise Unsupported("add_path consumes other than one item before its loop")

            def elem_at(pos, item):
                pr = lseq.elem(T.sub(T.lift(pos, T.INT), j0))
                if isinstance(pr, tuple):
                    return tuple(item if isinstance(x, PItem) else x for x in pr)
                return item

            def snapshot(e):
                return {k_: _copy(v) for k_, v in e.vars.items()}

            def run_body(state, pos, item):
                e2 = _child_env(it, env)
                e2.vars.update(_copy(state))
                it.assign(node.target, elem_at(pos, item), e2)
                try:
                    it.exec_block(node.body, e2)
                except ContinueEx:
                    pass
                return snapshot(e2)

            # ---- inference of the loop-carried state on placeholder items --------------------------------
            a = [None] + [T.fresh(f"a{i_}", T.INT) for i_ in range(1, 5)]
            states = [snapshot(env)]
            mark0 = len(log)
            try:
                for p_ in range(1, 5):
                    states.append(run_body(states[-1], a[p_], UItem(a[p_], p_ % 2)))
            except (PyRaise, BreakEx):
                raise Unsupported("the loop of add_path stops on a well-formed path: its state cannot be inferred")
            finally:
                del log[mark0:]
            const = lambda q: T.const(q, T.INT)  # noqa: E731
            early = lambda q: _gen(states[q], {a[j_]: const(j_) for j_ in range(1, 5)})  # noqa: E731
            t_odd = lambda k_: _gen(states[3], {a[3]: k_, a[2]: T.sub(k_, 1), a[1]: T.sub(k_, 2), a[4]: const(4)})  # noqa: E731
            t_even = lambda k_: _gen(states[4], {a[4]: k_, a[3]: T.sub(k_, 1), a[2]: T.sub(k_, 2), a[1]: const(1)})  # noqa: E731

            step = T.fresh("verify_generic_iteration", T.BOOL)
            if c.decide(step, "add_path loop: verify one iteration (else: use the loop summary)"):
                mode["kind"] = "step"
                case = T.fresh("which_iteration", T.INT)
                c.assume(T.and_(T.le(0, case), T.le(case, 4)))
                which = next(q for q in range(5) if q == 4 or c.decide(T.eq(case, q), f"iteration case {q}"))
                if which <= 2:  # the first three iterations, from the real initial state
                    k = const(which)
                    c.assume(T.lt(k, T.sub(n, 1)))
                    for j_ in range(1, which + 1):
                        c.assume(alternates(const(j_)))
                    before, expected = early(which), early(which + 1)
                    nxt_even = (which + 1) % 2 == 0
                else:
                    k = T.fresh("k", T.INT)  # position of the last item consumed so far
                    c.assume(T.and_(T.le(which, k), T.lt(k, T.sub(n, 1))))
                    for j_ in (k, T.sub(k, 1), T.sub(k, 2)):
                        c.assume(alternates(j_))  # the loop did not raise so far
                    if which == 3:
                        c.assume(T.eq(k, 2 * half(k) + 1))
                        before, expected, nxt_even = t_odd(k), t_even(T.add(k, 1)), True
                    else:
                        c.assume(T.eq(k, 2 * half(k)))
                        before, expected, nxt_even = t_even(k), t_odd(T.add(k, 1)), False
                nxt = T.add(k, 1)
                alternates(nxt)
                mark = len(log)
                raised = None
                try:
                    after = run_body(before, nxt, PItem(nxt))
                except PyRaise as e:
                    raised = e.exc
                except BreakEx:
                    raise Unsupported("the loop of add_path is left by break")
                mode["done"] = True
                if raised is not None:
                    c.oblige("inv", f"step: the loop raises only TypeError (got {raised.cls_name})", T.const(raised.cls_name == "TypeError"), assume_after=False)
                    c.oblige("inv", "step: it raises only at an item whose kind breaks the node-link alternation", T.not_(alternates(nxt)), assume_after=False)
                    c.oblige("inv", "step: nothing is added to the graph by an iteration that raises", T.const(len(log) == mark), assume_after=False)
                else:
                    c.oblige("inv", "step: an iteration that does not raise consumed an item of the right kind", alternates(nxt), assume_after=False)
                    eqs = []
                    if not _same(after, expected, eqs):
                        raise Unsupported("the loop of add_path: the inferred loop-carried state is not re-established by an iteration (limit of the inference)")
                    c.oblige("inv", "step: the loop-carried state after the iteration is the inferred state of the next position", T.and_(*eqs) if eqs else T.TRUE, assume_after=False)
                    ev = log[mark:]
                    names = [w for w, a_, kw in ev]
                    expect_events = ["add_node", "add_link"] if nxt_even else []
                    c.oblige("inv", f"step: the iteration adds {expect_events or 'nothing'} to the graph", T.const(names == expect_events), assume_after=False)
                    if names == ["add_node", "add_link"]:
                        an, al = ev[0][1], ev[1][1]
                        good = len(an) == 1 and isinstance(an[0], PItem)
                        c.oblige("inv", "step: the node added is the item just consumed (a Node)", T.eq(an[0].j, nxt) if good else T.FALSE, assume_after=False)
                        good = len(al) == 3 and all(isinstance(x, PItem) for x in al)
                        c.oblige("inv", "step: the link added is the previous item, between its two neighbours in path order",
                                 T.and_(T.eq(al[1].j, k), T.eq(al[2].j, nxt), T.eq(al[0].j, T.sub(k, 1))) if good else T.FALSE, assume_after=False)
                raise Infeasible()  # a verification-only path ends here
            # ---- summary (justified by the step obligations): the loop raises TypeError at the first item
            # breaking the alternation, otherwise consumes everything and leaves the inferred state of the last position
            mode["kind"] = "summary"
            bad = T.fresh("some_item_breaks_alternation", T.BOOL)
            w = T.fresh("w", T.INT)
            c.axiom(T.implies(bad, T.and_(T.le(1, w), T.lt(w, n), T.not_(alternates(w)))))
            if c.decide(bad, "some item breaks the alternation"):
                from pyvc.values import ExcValue

                mode["w"] = w
                raise PyRaise(ExcValue("TypeError", ("alternation",)))
            c.assume_forall(n, lambda j: T.implies(T.le(1, j), alternates(j)))
            if c.decide(T.lt(0, m), "the path has more than one item"):
                lastj = T.sub(n, 1)
                c.axiom(T.implies(T.le(1, lastj), alternates(lastj)))
                if c.decide(T.eq(lastj, 1), "two items"):
                    final = early(1)
                elif c.decide(T.eq(lastj, 2), "three items"):
                    final = early(2)
                elif c.decide(T.eq(lastj, 2 * half(lastj)), "last position even"):
                    final = t_even(lastj)
                else:
                    final = t_odd(lastj)
                env.vars.update(final)

        interp.loop_rules = {(fn.qualname, 0): rule}
        raised = None
        try:
            r = interp.call(BoundMethod(fn, net), [_PathIterable(seq)], dict(origin=o, destination=d))
        except PyRaise as e:
            raised, r = e.exc, None
        if mode.get("kind") == "step":
            return
        # ---- postcondition on the summary paths
        wf = T.and_(T.le(3, n), T.eq(T.sub(n, 1), 2 * half(T.sub(n, 1))))  # odd length >= 3 ...
        j = c.fresh_index(n, "j")
        if raised is not None:
            # rejected: then the path is malformed: too short, even length, or some item of the wrong kind
            w_ = mode.get("w")
            c.oblige("post", "a path is rejected only if it is malformed: shorter than 3 items, first or last item not a Node, or an item whose kind breaks the node-link alternation",
                     T.or_(T.lt(n, 3), T.ne(pkind(0), 0), T.ne(pkind(T.sub(n, 1)), 0), T.not_(alternates(w_)) if w_ is not None else T.FALSE), assume_after=False)
            c.oblige("post", f"a rejected path raises an error ({raised.cls_name})", T.const(raised.cls_name in ("TypeError", "ValueError", "StopIteration")), assume_after=False)
            for what, a_, kw in log:
                if what in ("add_origin", "add_destination"):
                    c.oblige("post", f"{what} is only ever attached to a Node item", T.eq(pkind(a_[1].j), 0) if isinstance(a_[1], PItem) else T.FALSE, assume_after=False)
                if what == "add_node":
                    c.oblige("post", "only Node items are added as nodes", T.eq(pkind(a_[0].j), 0) if isinstance(a_[0], PItem) else T.FALSE, assume_after=False)
            return
        c.oblige("post", "an accepted path has at least three items", T.le(3, n), assume_after=False)
        c.oblige("post", "an accepted path starts with a Node", T.eq(pkind(0), 0), assume_after=False)
        c.oblige("post", "an accepted path ends with a Node", T.eq(pkind(T.sub(n, 1)), 0), assume_after=False)
        c.oblige("post", "every item of an accepted path has the kind its position demands", T.implies(T.le(1, j), alternates(j)), assume_after=False)
        c.oblige("post", "add_path returns the network itself", T.const(r is net), assume_after=False)
        names = [w_ for w_, a, kw in log]
        exp = ["add_node"] + (["add_origin"] if o is not None else []) + (["add_destination"] if d is not None else [])
        c.oblige("post", "outside the loop add_path adds the first node, then the origin at it, and finally the destination", T.const(names == exp), assume_after=False)
        if names == exp:
            a0 = log[0][1]
            c.oblige("post", "the first node added is the first item", T.const(len(a0) == 1 and isinstance(a0[0], PItem) and a0[0].j is T.const(0, T.INT)), assume_after=False)
            if o is not None:
                ao = log[1][1]
                c.oblige("post", "the origin is attached to the first item", T.const(ao[0] is o and isinstance(ao[1], PItem) and ao[1].j is T.const(0, T.INT)), assume_after=False)
            if d is not None:
                ad = log[-1][1]
                good = ad[0] is d and isinstance(ad[1], PItem)
                c.oblige("post", "the destination is attached to a path item", T.const(good), assume_after=False)
                if good:
                    c.oblige("post", "... namely the last item", T.eq(ad[1].j, T.sub(n, 1)), assume_after=False)

    return Task(f"{NETQ}:Network.add_path<{label}>", run, props=("C09",), func=f"{NETQ}:Network.add_path", config=label)


class _PathIterable:
    def __init__(self, seq):
        self.seq = seq

    def pyvc_iter_obj(self, interp):
        from pyvc.interp import _SymIter

        return _SymIter(self.seq)

    def pyvc_iter(self, interp):
        from pyvc.interp import _SymbolicIterationNeeded

        raise _SymbolicIterationNeeded(self.seq)


def add_path_tasks():
    out = []
    for n in range(0, PATH_BOUND + 1):
        for shape in itertools.product("NLX", repeat=n):
            if shape.count("X") > 1:
                continue
            for wo, wd in ((False, False), (True, True)) if n != 3 else ((False, False), (True, False), (False, True), (True, True)):
                out.append(add_path_task(shape, wo, wd))
    return out


def all_tasks():
    out = property_tasks() + views_tasks()
    out += [add_path_invariant_task(a, b) for a in (False, True) for b in (False, True)]
    for m in MUTATORS:
        out.append(mutator_task(m, ()))
        out.append(mutator_task(m, tuple(CACHED)))
        out.append(mutator_task(m, tuple(CACHED), failing=True))
        for p in CACHED:
            if p not in ("links", "in_links"):
                out.append(mutator_task(m, (p,)))
    out += add_path_tasks()
    return out
