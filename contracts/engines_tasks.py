"""Stratum A: every primitive of the NumPy and of the CasADi engine refines EngineSpec.

For each primitive and each input configuration (shapes the element layer produces: 0-d,
length-1, length-N with N symbolic; python numbers or 1x1 symbols for parameters) the real
function is executed symbolically and must (i) raise nothing, (ii) keep every partial operation
inside its domain under the admissible precondition, (iii) return a value of the specified
shape equal, at a generic index, to the spec value, (iv) return a fresh value and leave its
inputs untouched.
"""
from __future__ import annotations

import itertools

from pyvc import arrays as A
from pyvc import terms as T
from pyvc.ctx import cur
from pyvc.interp import PyRaise, _SymStar
from pyvc.values import Arr, Buf, SSeq, mk_scalar, mk_vec, StaticMethod, BoundMethod
from pyvc.vc import Task
from contracts import engine_spec as ES

CLS = {"nodes": "NodesEngine", "links": "LinksEngine", "origins": "OriginsEngine", "destinations": "DestinationsEngine"}

# ----------------------------------------------------------------------------------
# symbolic inputs


class Inputs:
    """builds the same symbolic inputs twice (implementation copy / spec copy) so that an
    in-place write by the implementation cannot leak into the spec value"""

    def __init__(self, dialect):
        self.dialect = dialect
        self.lens = {}
        self.facts = []

    def length(self, name):
        if name not in self.lens:
            n = T.var(f"len.{name}", T.INT)
            self.lens[name] = n
            self.facts.append(T.le(1, n))
        return self.lens[name]

    def make(self, pname, kind):
        d = self.dialect
        if kind == "N":
            return None
        if kind.startswith("str:"):
            return kind[4:]
        if kind == "P":
            return T.var(f"in.{pname}", T.REAL)
        f = T.uf(f"in.{pname}", [T.INT], T.REAL)
        owner = ("in", pname)
        if kind.startswith("V:"):
            n = self.length(kind[2:])
            k = {"np": "a1", "cs": "m", "abs": "vec"}[d]
            return mk_vec(d, k, n, lambda i: f(i), owner, symtype="SX" if d == "cs" else None)
        if kind == "V1":
            k = {"np": "a1", "cs": "m", "abs": "vec"}[d]
            return mk_vec(d, k, 1, lambda i: f(0), owner, symtype="SX" if d == "cs" else None)
        if kind == "S":
            if d == "cs":
                return mk_vec(d, "m", 1, lambda i: f(0), owner, symtype="SX")
            return mk_scalar(d, "npscalar" if d == "np" else "sc", f(0), owner)
        if kind == "A0":
            assert d == "np"
            return mk_scalar("np", "a0", f(0), owner)
        if kind.startswith("IL:"):
            _, K, n = kind.split(":")
            lst = A.SIntList(f"in.{pname}", self.length_ge0(K), self.length(n))
            return lst
        raise ValueError(kind)

    def length_ge0(self, name):
        if name not in self.lens:
            n = T.var(f"len.{name}", T.INT)
            self.lens[name] = n
            self.facts.append(T.le(0, n))
        return self.lens[name]


def compare_values(R, S, what, alias=None):
    """obligations: the implementation result R equals the spec value S"""
    c = cur()
    if alias is not None:
        same = isinstance(R, Arr) and isinstance(alias, Arr) and R.buf is alias.buf or R is alias
        c.oblige("refines", f"{what}: returns the very object it was given", T.const(bool(same)), assume_after=False)
        return
    if not isinstance(S, Arr):
        if isinstance(R, Arr):
            c.oblige("refines", f"{what}: result is a plain number", T.FALSE, assume_after=False)
            return
        c.oblige("refines", f"{what}: value", T.eq(T.to_real(T.lift(R)), T.to_real(T.lift(S))), assume_after=False)
        return
    if not isinstance(R, Arr):
        # python numbers in, python number out: only the value matters
        if A.is_num(R) and (S.is_scalar or T.is_const(S.n) and T.cval(S.n) == 1):
            c.oblige("refines", f"{what}: value", T.eq(T.to_real(T.lift(R)), S.at(0)), assume_after=False)
            return
        c.oblige("refines", f"{what}: result is an array value", T.FALSE, assume_after=False)
        return
    c.oblige("shape", f"{what}: result is {'scalar-like' if S.is_scalar else 'a vector'}", T.const(R.is_scalar == S.is_scalar), assume_after=False)
    if R.is_scalar != S.is_scalar:
        return
    if not S.is_scalar:
        c.oblige("shape", f"{what}: result length", T.eq(R.n, S.n))
        i = c.fresh_index(S.n, "k")
    else:
        i = A.ZERO
    c.oblige("refines", f"{what}: value at a generic index", T.eq(R.at(i), S.at(i)), assume_after=False)
    c.oblige("fresh", f"{what}: result is a new value", T.const(R.buf.owner == "fresh"), assume_after=False,
             meta={"owner": repr(R.buf.owner)})


def lookup_prim(interp, module, prim):
    mod = interp.load_module(f"sym_metanet.engines.{module}")
    if "." in prim:
        group, name = prim.split(".")
        cls = mod.ns[CLS[group]]
        f = cls.ns[name]
        if isinstance(f, StaticMethod):
            f = f.func
        return f, None
    cls = mod.ns["Engine"]
    return cls.ns[prim], cls


def prim_task(module, dialect, prim, config, label, props, engine_ctor=None):
    """config: ordered dict param -> kind"""
    name = f"sym_metanet.engines.{module}:{prim}<{label}>"

    def run(interp, c):
        fn, ecls = lookup_prim(interp, module, prim)
        interp.inline_only.add(fn.qualname)
        ins1, ins2 = Inputs(dialect), Inputs(dialect)
        a1 = {p: ins1.make(p, k) for p, k in config.items()}
        a2 = {p: ins2.make(p, k) for p, k in config.items()}
        for f in ins1.facts:
            c.axiom(f)
        # the spec value and the assumed (admissible) precondition
        sc = ES.SpecCtx(dialect, "assume", where=prim)
        pos2 = list(a2.values())
        if prim == "vcat":
            S = ES.call_spec(prim, sc, pos2, {})
        else:
            S = ES.call_spec(prim, sc, [], dict(a2))
        # run the real implementation
        pos1 = list(a1.values())
        elems_before = {p: (v.buf, v.buf.elem) for p, v in a1.items() if isinstance(v, Arr)}
        try:
            if ecls is not None:
                eng = interp.call(ecls, *(engine_ctor or ([], {})))
                bm = BoundMethod(fn, eng)
                R = interp.call(bm, pos1, {}) if prim == "vcat" else interp.call(bm, [], dict(a1))
            else:
                R = interp.call(fn, [], dict(a1))
        except PyRaise as e:
            c.oblige("safe", f"no exception ({e.exc.cls_name}: {e.exc.args})", T.FALSE, assume_after=False)
            return
        alias = None
        if sc.alias_of is not None:
            # the spec returns one of its inputs: the implementation must return the same input
            for p, v in a2.items():
                if v is sc.alias_of:
                    alias = a1[p]
        compare_values(R, S, prim, alias)
        for p, (buf, el) in elems_before.items():
            if buf.elem is not el:
                c.oblige("frame", f"input {p} is not modified", T.FALSE, assume_after=False)

    return Task(name, run, props=props, check_defined=True, func=f"sym_metanet.engines.{module}:{prim}", config=label)


# ----------------------------------------------------------------------------------
# configurations


def _cfg(**kw):
    return dict(kw)


def scalar_kinds(dialect):
    return ["S", "V1", "A0", "P"] if dialect == "np" else ["S", "P"]


def configs(dialect):
    """(prim, label, config) for one dialect"""
    out = []
    P = "P"
    sk = scalar_kinds(dialect)
    # ---- nodes
    for qo in ["N", "S", "V1"] + (["P"] if dialect == "cs" else []):
        out.append(("nodes.get_upstream_flow", f"q_orig={qo}", _cfg(q_lasts="V:n", beta=P, betas="V:k", q_orig=qo)))
    if dialect == "cs":
        out.append(("nodes.get_upstream_flow", "beta=S", _cfg(q_lasts="V:n", beta="S", betas="V:k", q_orig="S")))
    out.append(("nodes.get_upstream_speed", "vec", _cfg(q_lasts="V:n", v_lasts="V:n")))
    out.append(("nodes.get_downstream_density", "vec", _cfg(rho_firsts="V:n")))
    # ---- links
    par = [P] if dialect == "np" else [P, "S"]
    for pk in par:
        out.append(("links.get_flow", f"par={pk}", _cfg(rho="V:n", v="V:n", lanes=pk)))
        out.append(("links.step_density", f"vec,par={pk}", _cfg(rho="V:n", q="V:n", q_up="V:n", lanes=pk, L=pk, T=pk)))
        for s in ["S", "V1"]:
            out.append(("links.step_density", f"N=1,q_up={s},par={pk}", _cfg(rho="V1", q="V1", q_up=s, lanes=pk, L=pk, T=pk)))
        out.append(("links.Veq", f"vec,par={pk}", _cfg(rho="V:n", v_free=pk, rho_crit=pk, a=pk)))
        out.append(("links.controlled_Veq", f"vec,par={pk}", _cfg(rho="V:n", v_ctrl="V:K", vsl="IL:K:n", alpha=pk, v_free=pk, rho_crit=pk, a=pk)))
    out.append(("links.Veq", "scalar", _cfg(rho="S", v_free=P, rho_crit=P, a=P)))
    out.append(("links.Veq", "py", _cfg(rho=P, v_free=P, rho_crit=P, a=P)))
    # step_speed: all combinations of optional terms the element layer can produce
    qr_kinds = ["N", "S", "V1"]
    for shape in ("vec", "N=1"):
        for qr, de, ld, ph in itertools.product(qr_kinds, ["N", P], ["N", P], ["N", P]):
            for pk in par:
                if pk == "S" and (shape != "vec" or qr == "V1"):
                    continue
                base = dict(v="V:n", v_up="V:n", rho="V:n", rho_down="V:n", Veq="V:n") if shape == "vec" else \
                    dict(v="V1", v_up="S", rho="V1", rho_down="S", Veq="V1")
                cfg = _cfg(**base, lanes=pk, L=pk, tau=pk, eta=pk, kappa=pk, T=pk, q_ramp=qr,
                           delta=(pk if de != "N" else "N"), lanes_drop=ld, phi=(pk if ph != "N" else "N"), rho_crit=pk)
                out.append(("links.step_speed", f"{shape},q_ramp={qr},delta={de},drop={ld},phi={ph},par={pk}", cfg))
    # ---- origins: queue/demand/control of one (uniform) scalar kind, first-segment values 0-d
    for k in sk:
        out.append(("origins.step_queue", f"kind={k}", _cfg(w=k, d=k, q=k, T=P)))
        out.append(("origins.get_mainstream_flow", f"kind={k}", _cfg(d=k, w=k, v_ctrl=k, v_first="S", rho_crit=P, a=P, v_free=P, lanes=P, T=P)))
        for ty in ("in", "out"):
            out.append(("origins.get_ramp_flow", f"kind={k},type={ty}", _cfg(d=k, w=k, C=P, r=k, rho_max=P, rho_first="S", rho_crit=P, T=P, type=f"str:{ty}")))
        for ty in ("limited", "unlimited"):
            out.append(("origins.get_simplifiedramp_flow", f"kind={k},type={ty}", _cfg(qdes=k, d=k, w=k, C=P, rho_max=P, rho_first="S", rho_crit=P, T=P, type=f"str:{ty}")))
        out.append(("destinations.get_congested_downstream_density", f"kind={k}", _cfg(rho_last="S", rho_destination=k, rho_crit=P)))
    out.append(("origins.step_queue", "mixed", _cfg(w="V1", d="V1", q="S", T=P)))
    if dialect == "cs":
        out.append(("origins.get_mainstream_flow", "par=S", _cfg(d="S", w="S", v_ctrl="S", v_first="S", rho_crit="S", a="S", v_free="S", lanes="S", T="S")))
        out.append(("origins.get_ramp_flow", "par=S,in", _cfg(d="S", w="S", C="S", r="S", rho_max="S", rho_first="S", rho_crit="S", T="S", type="str:in")))
        out.append(("origins.get_ramp_flow", "par=S,out", _cfg(d="S", w="S", C="S", r="S", rho_max="S", rho_first="S", rho_crit="S", T="S", type="str:out")))
        out.append(("origins.get_simplifiedramp_flow", "par=S", _cfg(qdes="S", d="S", w="S", C="S", rho_max="S", rho_first="S", rho_crit="S", T="S", type="str:limited")))
    out.append(("destinations.get_congestion_free_downstream_density", "scalar", _cfg(rho_last="S", rho_crit=P)))
    if dialect == "cs":
        out.append(("destinations.get_congestion_free_downstream_density", "par=S", _cfg(rho_last="S", rho_crit="S")))
    # ---- engine
    out.append(("max", "vec", _cfg(array1=P, array2="V:n")))
    for k in sk:
        out.append(("max", f"kind={k}", _cfg(array1=P, array2=k)))
    out.append(("vcat", "scalar+vec", _cfg(a="S", b="V:n")))
    out.append(("vcat", "vec+scalar", _cfg(a="V:n", b="S")))
    out.append(("vcat", "one scalar", _cfg(a="S")))
    out.append(("vcat", "py+vec", _cfg(a=P, b="V:n")))
    return out


PROPS_A = ("C15", "C01", "C03", "C07", "C10", "C12", "C13")


def special_tasks(module, dialect):
    """vcat of a symbolic number of scalars; var"""
    out = []

    def run_vcat_star(kind):
        def run(interp, c):
            fn, ecls = lookup_prim(interp, module, "vcat")
            interp.inline_only.add(fn.qualname)
            n = T.var("len.n", T.INT)
            c.axiom(T.le(1, n))
            f = T.uf("in.items", [T.INT], T.REAL)
            if kind == "py":
                seq = SSeq(n, lambda i: f(i), "items")
            elif dialect == "np":
                seq = SSeq(n, lambda i: mk_scalar("np", "npscalar", f(i), ("in", "items")), "items")
            else:
                seq = SSeq(n, lambda i: mk_vec("cs", "m", 1, lambda j: f(i), ("in", "items"), symtype="SX"), "items")
            eng = interp.call(ecls, [], {})
            try:
                R = interp.call(BoundMethod(fn, eng), [_SymStar(seq)], {})
            except PyRaise as e:
                c.oblige("safe", f"no exception ({e.exc.cls_name})", T.FALSE, assume_after=False)
                return
            S = ES.call_spec("vcat", ES.SpecCtx(dialect, "assume", "vcat"), [_SymStar(seq)], {})
            compare_values(R, S, "vcat")

        return run

    for kind in ("py", "scalar"):
        out.append(Task(f"sym_metanet.engines.{module}:vcat<*{kind} items>", run_vcat_star(kind), props=PROPS_A + ("C14",),
                        check_defined=True, func=f"sym_metanet.engines.{module}:vcat", config=f"*{kind}"))

    ctor_opts = [("default", ([], {}))]
    if module == "numpy":
        ctor_opts = [("empty", (["empty"], {})), ("rand", (["rand"], {})), ("randn", (["randn"], {})), ("fill", ([T.var("in.fill", T.REAL)], {}))]
    else:
        ctor_opts = [("SX", (["SX"], {})), ("MX", (["MX"], {}))]

    def run_var(ctor, n_kind):
        def run(interp, c):
            fn, ecls = lookup_prim(interp, module, "var")
            interp.inline_only.add(fn.qualname)
            eng = interp.call(ecls, *ctor)
            kwargs = {}
            if n_kind == "n":
                n = T.var("len.n", T.INT)
                c.axiom(T.le(0, n))
                kwargs["n"] = n
            else:
                n = A.ONE
            try:
                R = interp.call(BoundMethod(fn, eng), ["some_name"], kwargs)
            except PyRaise as e:
                c.oblige("safe", f"no exception ({e.exc.cls_name})", T.FALSE, assume_after=False)
                return
            ok = isinstance(R, Arr) and not R.is_scalar
            c.oblige("shape", "var returns a 1-D value", T.const(ok), assume_after=False)
            if ok:
                c.oblige("shape", "var returns n entries", T.eq(R.n, n), assume_after=False)
                c.oblige("fresh", "var returns a new value", T.const(R.buf.owner == "fresh"), assume_after=False)

        return run

    for lab, ctor in ctor_opts:
        for nk in ("1", "n"):
            out.append(Task(f"sym_metanet.engines.{module}:var<{lab},n={nk}>", run_var(ctor, nk), props=PROPS_A,
                            check_defined=True, func=f"sym_metanet.engines.{module}:var", config=f"{lab},n={nk}"))
    return out


def all_tasks():
    tasks = []
    for module, dialect in (("numpy", "np"), ("casadi", "cs")):
        for prim, label, cfg in configs(dialect):
            props = PROPS_A
            if prim.startswith("origins.get_"):
                props = props + ("C17", "C18")
            if "Veq" in prim or "step_speed" in prim:
                props = props + ("C18",)
            if prim.startswith("nodes.") or prim == "links.step_density" or prim == "origins.step_queue":
                props = props + ("C02", "C14")
            ctor = None
            if "." not in prim:
                ctor = ([], {})
            tasks.append(prim_task(module, dialect, prim, cfg, label, props, ctor))
        tasks.extend(special_tasks(module, dialect))
    return tasks
