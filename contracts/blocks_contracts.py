"""Contracts of the element layer (sym_metanet.blocks.*), used at call sites: a caller is
checked against these, never against the callee's body (DESIGN.md 2.5, App. B).

Each contract binds the actual arguments with the real function's signature (so arity and
keyword errors surface as exceptions of the caller), records its preconditions as `pre`
obligations of the caller and returns the specified value over the ghost view.
"""
from __future__ import annotations

from pyvc import arrays as A
from pyvc import terms as T
from pyvc.ctx import cur, Infeasible
from pyvc.interp import Env, PyRaise, StarPack
from pyvc.values import Arr, ExcValue, LocalObj, ObjRef, Unsupported, mk_scalar, mk_vec
from contracts import ghost as G
from contracts import view_spec as V
from contracts.engine_spec import AbsEngine

ZERO = A.ZERO


class EngineCfg:
    """which engine must do all the work on this path (C13)"""

    def __init__(self, explicit, current):
        self.explicit = explicit  # AbsEngine passed by the caller, or None
        self.current = current  # the selected engine (sym_metanet.engine)

    @property
    def expected(self):
        return self.explicit if self.explicit is not None else self.current


def engine_cfg():
    return getattr(cur(), "engine_cfg", None)


def check_engine(where, engine):
    """obligation: the callee is handed the engine the caller works with"""
    cfg = engine_cfg()
    if cfg is None:
        return
    eff = cfg.current if engine is None else engine
    cur().oblige("pre", f"{where}: computes with the engine of the caller (engine forwarded)", T.const(eff is cfg.expected), assume_after=False)


def sc(val, sct=ZERO, owner="fresh"):
    a = mk_scalar("abs", "sc", val, owner)
    a.buf.sct = sct
    return a


def term_of(x, what):
    if isinstance(x, ObjRef):
        return x.term
    if isinstance(x, LocalObj) and x.ref is not None:
        return x.ref
    raise Unsupported(f"{what}: expected an element, got {x!r}")


def net_of(net, what):
    if not isinstance(net, G.GhostNet):
        raise Unsupported(f"{what}: net argument is not the network view")
    return net


def req(where, label, cond):
    if isinstance(cond, bool):
        cond = T.const(cond)
    cur().oblige("pre", f"{where}: {label}", cond)


class FnContract:
    def __init__(self, qualname, spec, family=None):
        self.qualname, self.spec, self.family = qualname, spec, family

    def apply(self, interp, fn, args, kwargs):
        env = Env(parent=fn.env, module=fn.module, func=fn)
        interp.bind_args(fn, args, kwargs, env)
        cur().effects.append(("call", self.qualname))
        params = dict(env.vars)
        a = fn.node.args
        if a.kwarg is not None:
            params["kwargs"] = params.get(a.kwarg.arg, {})
        if a.vararg is not None:
            params["varargs"] = params.get(a.vararg.arg, ())
        return self.spec(interp, self.qualname.split(":")[1], params)


# ---- specs -----------------------------------------------------------------------------------


def c_get_current_engine(interp, where, p):
    c = cur()
    cfg = engine_cfg()
    c.effects.append(("global-read", "sym_metanet.engine"))
    if cfg is None:
        if any(w.startswith("sym_metanet.engines.") and not w.startswith("sym_metanet.engines.core") for w in c.where):
            # inside a primitive of an engine: that engine is the one in use (it was passed explicitly or
            # was the selected one when the call started); the selection may be another engine by now
            c.oblige("noglobal", "an engine's primitive does not consult the selected engine (the engine it belongs to is the one in use)", T.FALSE, assume_after=False)
        raise Unsupported("get_current_engine() outside an engine configuration")
    if cfg.explicit is not None:
        c.oblige("noglobal", "the selected engine is not consulted when an engine was passed", T.FALSE, assume_after=False)
    return cfg.current


def c_link_get_flow(interp, where, p):
    check_engine(where, p.get("engine"))
    l = term_of(p["self"], where)
    cur().axiom(T.le(1, G.f_N(l)))
    return mk_vec("abs", "vec", G.f_N(l), lambda i: V.link_flow_at(l, i), "fresh")


def c_link_veq(interp, where, p):
    l = term_of(p["self"], where)
    rho = p["rho"]
    if not (isinstance(rho, Arr) and not rho.is_scalar):
        req(where, "rho is a vector", False)
        raise Infeasible()
    eng = p["engine"]
    check_engine(where, eng)
    f = V.fld
    from specs import metanet as M

    cls = p["self"].classes if isinstance(p["self"], ObjRef) else None
    vsl = cls is not None and all(k.name == "LinkWithVsl" for k in cls)
    if cls is not None and not vsl and any(k.name == "LinkWithVsl" for k in cls):
        raise Unsupported("equilibrium speed of a link of unresolved class")
    rho = A.freeze(rho)
    if not vsl:
        return mk_vec("abs", "vec", rho.n, lambda i: M.veq(rho.at(i), f("v_free", l), f("rho_crit", l), f("a", l)), "fresh")
    lst = G.vsl_of(l)
    req(where, "rho has one entry per segment", T.eq(rho.n, G.f_N(l)))

    def elem(i):
        Vi = M.veq(rho.at(i), f("v_free", l), f("rho_crit", l), f("a", l))
        pp = lst.pos(i)
        return T.ite(T.le(0, pp), T.smin(Vi, (1 + f("alpha", l)) * G.act_vsl(l, pp)), Vi)

    return mk_vec("abs", "vec", rho.n, elem, "fresh")


def c_node_upstream(interp, where, p):
    net = net_of(p["net"], where)
    check_engine(where, p.get("engine"))
    n = term_of(p["self"], where)
    l = term_of(p["link"], where)
    net.node_facts(n)
    net.link_facts(l)
    req(where, "the link leaves this node", T.and_(G.link_in_net(l), T.eq(G.up(l), n)))
    kw = p.get("kwargs", {})
    if isinstance(kw, StarPack):
        raise Unsupported("opaque kwargs")
    T_ = kw.get("T")
    if T_ is None:
        req(where, "T is passed on when the node's origin has a queue",
            T.implies(G.has_origin(n), T.eq(G.cls_tag(G.origin_of(n)), G.TAGS["Origin"])))
    v = sc(V.upstream_speed(n))
    q = sc(V.upstream_flow(n, l, T_), T.ite(G.has_origin(n), V.origin_flow_sct(G.origin_of(n)), ZERO))
    return (v, q)


def c_node_downstream(interp, where, p):
    net = net_of(p["net"], where)
    check_engine(where, p.get("engine"))
    n = term_of(p["self"], where)
    net.node_facts(n)
    return sc(V.downstream_density(n))


def _origin(where, p):
    net = net_of(p["net"], where)
    o = term_of(p["self"], where)
    net.origin_facts(o)
    req(where, "the origin belongs to the network", G.origin_in_net(o))
    return net, o


def c_origin_speed(interp, where, p):
    net, o = _origin(where, p)
    return sc(V.origin_speed(o))


def c_origin_flow(variant):
    def spec(interp, where, p):
        net, o = _origin(where, p)
        check_engine(where, p.get("engine"))
        T_ = p.get("T")
        if variant == "ideal":
            kw = p.get("kwargs", {})
            T_ = kw.get("T") if isinstance(kw, dict) else None
        may_simpl = variant == "simplified" or (isinstance(p["self"], ObjRef) and any(k.name == "SimplifiedMeteredOnRamp" for k in p["self"].classes) and variant != "ideal")
        owner = ("maybe-alias", "actions['q']") if may_simpl else "fresh"
        return sc(V.origin_flow(o, T_), V.origin_flow_sct(o), owner)

    return spec


def c_origin_exiting_link(interp, where, p):
    net, o = _origin(where, p)
    n = G.node_of_origin(o)
    req(where, "exactly one link leaves the origin's node", T.eq(G.n_out(n), 1))
    net.out_edge_facts(n, ZERO)
    return net.link(G.out_link(n, ZERO))


def _dest(where, p):
    net = net_of(p["net"], where)
    d = term_of(p["self"], where)
    net.dest_facts(d)
    req(where, "the destination belongs to the network", G.dest_in_net(d))
    return net, d


def c_dest_density(interp, where, p):
    net, d = _dest(where, p)
    check_engine(where, p.get("engine"))
    return sc(V.dest_density(d))


def c_dest_entering_link(interp, where, p):
    net, d = _dest(where, p)
    n = G.node_of_dest(d)
    req(where, "exactly one link enters the destination's node", T.eq(G.n_in(n), 1))
    net.in_edge_facts(n, ZERO)
    return net.link(G.in_link(n, ZERO))


CONTRACTS = {
    "sym_metanet.engines.core:get_current_engine": c_get_current_engine,
    "sym_metanet.blocks.links:Link.get_flow": c_link_get_flow,
    "sym_metanet.blocks.links:Link._get_equilibrium_speed": c_link_veq,
    "sym_metanet.blocks.links:LinkWithVsl._get_equilibrium_speed": c_link_veq,
    "sym_metanet.blocks.nodes:Node.get_upstream_speed_and_flow": c_node_upstream,
    "sym_metanet.blocks.nodes:Node.get_downstream_density": c_node_downstream,
    "sym_metanet.blocks.origins:Origin.get_speed": c_origin_speed,
    "sym_metanet.blocks.origins:Origin.get_flow": c_origin_flow("ideal"),
    "sym_metanet.blocks.origins:MainstreamOrigin.get_flow": c_origin_flow("mainstream"),
    "sym_metanet.blocks.origins:MeteredOnRamp.get_flow": c_origin_flow("metered"),
    "sym_metanet.blocks.origins:SimplifiedMeteredOnRamp.get_flow": c_origin_flow("simplified"),
    "sym_metanet.blocks.origins:Origin._get_exiting_link": c_origin_exiting_link,
    "sym_metanet.blocks.destinations:Destination.get_density": c_dest_density,
    "sym_metanet.blocks.destinations:CongestedDestination.get_density": c_dest_density,
    "sym_metanet.blocks.destinations:Destination._get_entering_link": c_dest_entering_link,
}


# implementations that are interchangeable at a call site: same parameters, same specified value
FAMILIES = {
    "sym_metanet.blocks.origins:MainstreamOrigin.get_flow": "queue-origin get_flow",
    "sym_metanet.blocks.origins:MeteredOnRamp.get_flow": "queue-origin get_flow",
    "sym_metanet.blocks.origins:SimplifiedMeteredOnRamp.get_flow": "queue-origin get_flow",
    "sym_metanet.blocks.destinations:Destination.get_density": "destination get_density",
    "sym_metanet.blocks.destinations:CongestedDestination.get_density": "destination get_density",
    "sym_metanet.blocks.links:Link._get_equilibrium_speed": None,
}


def register(it):
    for q, spec in CONTRACTS.items():
        it.contracts[q] = FnContract(q, spec, FAMILIES.get(q))
