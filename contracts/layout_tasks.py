"""Layout of the compiled function for a network with a *symbolic number* of links, origins and
destinations of symbolic class (C03 C04 C05 C16 C19) - the unbounded counterpart of the spines of
contracts/compile_tasks.py.

engines/casadi.py: Engine.to_function, _filter_vars, _gather_inputs, _gather_outputs,
_add_parameters_to_inputs, _add_flows_to_outputs and network.py: Network.elements / states /
actions / disturbances / next_states are executed as they are.  The network is

    links:        n_L edges, the j-th carrying an element of class Link or LinkWithVsl,
    origins:      n_O entries of class Origin / MainstreamOrigin / MeteredOnRamp / Simplified...,
    destinations: n_D entries of class Destination / CongestedDestination,

every element initialised and stepped (the readiness scan is verified separately, unbounded, in
compile_tasks.scan_task), elements pairwise distinct.  The element at an index is built lazily:
reading it forks on its class *locally* (pyvc/summary.py) and yields an object of that class whose
variables are symbols cached per (element, group, key).  No loop over elements is unrolled: lists
and dicts filled by such loops are abstract collections (pyvc/abscoll.py).

What is proved, per compactness level, at a generic element of every class (spec written from the
property statement and the class declarations `_states/_actions/_disturbances`, not from the code):

  compact <= 0   the arguments are, in this order: for states, then actions, then disturbances:
                 for every link (edge order), then every origin, then every destination: its
                 variables of that group in declared order, named `<key>_<element name>`, each bound
                 to the element's own symbol; then the declared parameters.  The results are the
                 next states in the same element and key order, named `<key>_<name>+` (so result k
                 is the successor of state argument k); with more_out one flow per link
                 `q_<name>` then one per origin `q_o_<name>`, each the value of the element's
                 get_flow called with this engine (and, for origins, this network and all parameters);
  compact == 1   one argument per variable name and group: the stack, over the elements carrying that
                 name in enumeration order, of their symbols; results likewise with `+`; the names
                 and their values are listed from the same dicts, states names before action names
                 before disturbance names, then `p`; the result groups are in one-to-one
                 correspondence with the state groups (same names, same carriers, same sizes);
  compact  > 1   x, u, d (and p) are the stacks of the compact-1 arguments of each group, x+ that
                 of the results, q the stack of link flows then origin flows.

Key order of the per-name groups (order of first occurrence) is not modelled symbolically; it is
checked exactly on the bounded spines.  `casadi.Function` is captured (assumed contract)."""
from __future__ import annotations

import itertools

from pyvc import arrays as A
from pyvc import terms as T
from pyvc.abscoll import ADict, AList, KeysRef, MSeq, Seg, Seg3, VCat, ValuesRef, _KeyView
from pyvc.ctx import cur
from pyvc.interp import BoundMethod, PyRaise
from pyvc.libmodels import casadi_model as CM
from pyvc.values import Arr, Builtin, LocalObj, OpaqueStr, PropertyValue, SymName, Unsupported, mk_vec
from pyvc.vc import Task
from contracts import ghost as G
from contracts.compile_tasks import CSQ, P_D, norm_name
from contracts.writers_tasks import DECLARED, MODULE_OF

R, I = T.REF, T.INT
CATS = {"link": ("Link", "LinkWithVsl"), "origin": G.ORIGIN_CLASSES, "dest": G.DEST_CLASSES}
CAT_ORDER = ("link", "origin", "dest")
GROUPS = ("states", "actions", "disturbances")
LAYOUT_FUNCS = ("to_function", "_gather_inputs", "_gather_outputs", "_add_parameters_to_inputs", "_add_flows_to_outputs")
REF_OF = {cat: T.uf(f"lay.{cat}", [I], R) for cat in CATS}
K_OF = T.uf("lay.K", [R], I)


class Keyed:
    """Network.origins / Network.destinations: iterating yields the elements (the keys)"""

    def __init__(self, mseq):
        self.mseq = mseq

    def as_mseq(self):
        return self.mseq

    def pyvc_for(self, interp, node, env):
        return self.mseq.pyvc_for(interp, node, env)

    def pyvc_comp(self, interp, node, env, kind):
        return self.mseq.pyvc_comp(interp, node, env, kind)


class LNet:
    def __init__(self, interp, symtype, derived):
        c = cur()
        self.interp, self.symtype, self.derived = interp, symtype, derived
        self.n = {cat: T.var(f"n_{cat}s", I) for cat in CATS}
        for v in self.n.values():
            c.axiom(T.le(0, v))
        self.K = interp.load_module("sym_metanet.network").ns["Network"]
        self.objs = {}
        self.flows = {}

    # ---- elements ---------------------------------------------------------------------------
    def ref(self, cat, i):
        return REF_OF[cat](T.lift(i, I))

    def elem(self, cat, i):
        """the element at index i of its category: forks (locally) on its class"""
        c = cur()
        ref = self.ref(cat, i)
        classes = CATS[cat]
        c.axiom(G.isa(ref, classes))
        chosen = classes[-1]
        for cls in classes[:-1]:
            if c.decide(T.eq(G.cls_tag(ref), G.TAGS[cls]), f"class of the {cat}"):
                chosen = cls
                break
        return self.obj(cat, ref, chosen)

    def obj(self, cat, ref, cls_name):
        key = (ref.uid, cls_name)
        if key in self.objs:
            return self.objs[key]
        interp = self.interp
        k = interp.load_module(MODULE_OF[cls_name]).ns[cls_name]
        o = LocalObj(k, ref=ref)
        a = o.attrs
        a["name"] = SymName(ref)
        for g in ("states", "next_states", "actions", "disturbances"):
            a[g] = None
        c = cur()
        if cat == "link":
            a["N"] = G.f_N(ref)
            c.axiom(T.le(1, a["N"]))
            if cls_name == "LinkWithVsl":
                Kt = K_OF(ref)
                c.axiom(T.le(0, Kt))
                a["vsl"] = A.SIntList(f"vsl[{ref!r}]", Kt, a["N"])
        o.symbols = {}
        for g, key_, kind, _ in DECLARED[cls_name]:
            n = a["N"] if kind == "vecN" else (a["vsl"].n if kind == "vecK" else 1)
            sym = CM.new_symbol(self.symtype, f"{key_}@{ref!r}", n)
            val = sym
            if self.derived and g == "states":
                val = A.elementwise("max", CM._m(0), sym, "fmax")
            if a[g] is None:
                a[g] = {}
            a[g][key_] = val
            o.symbols[(g, key_)] = sym
        if a["states"] is not None:
            a["next_states"] = {}
            for key_, v in a["states"].items():
                f = T.uf(f"next.{key_}.{ref.uid}.{cls_name}", [I], T.REAL)
                nv = mk_vec("cs", "m", v.n, lambda idx, f=f: f(idx), "fresh", symtype=self.symtype)
                nv.buf.prov = tuple(s.buf.symid for s in o.symbols.values())
                a["next_states"][key_] = nv
        self.objs[key] = o
        return o

    def seq(self, cat):
        return Seg3(self.n[cat], (lambda i: True), (lambda i, cat=cat: self.elem(cat, i)), cat)

    def pyvc_getattr(self, interp, name):
        if name in ("links", "out_links"):
            s = self.seq("link")
            return MSeq([Seg3(s.n, s.guard, (lambda j: (("up", j), ("down", j), self.elem("link", j))), "link")], "links")
        if name == "origins":
            return Keyed(MSeq([self.seq("origin")], "origins"))
        if name == "destinations":
            return Keyed(MSeq([self.seq("dest")], "destinations"))
        prop, _ = self.K.lookup(name)
        if isinstance(prop, PropertyValue):
            # any other lookup of Network: its real body, run on this network
            interp.inline_only.add(prop.fget.qualname)
            return interp.call(prop.fget, [self], {})
        raise Unsupported(f"Network.{name} on a layout network")

    def pyvc_is_none(self):
        return False


class Captured:
    def __init__(self, name, ins, outs, names_in, names_out, opts):
        self.name, self.ins, self.outs, self.names_in, self.names_out, self.opts = name, ins, outs, names_in, names_out, opts


class FlowContract:
    """Link.get_flow / <origin>.get_flow inside _add_flows_to_outputs: the value is the element's flow
    (one vector per element, cached); the call must pass this engine (and, for origins, this network
    and every declared and extra parameter)"""

    family = None

    def __init__(self, lnet, what, eng, params, others):
        self.lnet, self.what, self.eng, self.params, self.others = lnet, what, eng, params, others

    def apply(self, interp, fn, args, kwargs):
        c = cur()
        recv = args[0]
        rest = list(args[1:])
        if self.what == "link":
            ok = rest == [self.eng] or (not rest and kwargs.get("engine") is self.eng)
            c.oblige("post", "link flows are computed with this engine", T.const(ok), assume_after=False)
        else:
            ok = rest[:1] == [self.lnet] and kwargs.get("engine") is self.eng and all(kwargs.get(k) is v for k, v in self.others.items()) \
                and all(kwargs.get(k) is v for k, v in (self.params or {}).items())
            c.oblige("post", "origin flows are computed on this network with this engine, the declared parameters and the caller's parameters (as the queue update does)", T.const(ok), assume_after=False)
        key = (self.what, recv.ref.uid, recv.cls.name)
        if key not in self.lnet.flows:
            f = T.uf(f"flowof.{recv.ref.uid}.{recv.cls.name}", [I], T.REAL)
            n = recv.attrs["N"] if "N" in recv.attrs else 1
            self.lnet.flows[key] = mk_vec("cs", "m", n, lambda i: f(i), "fresh", symtype=self.lnet.symtype)
        return self.lnet.flows[key]


def install(interp, lnet):
    """hooks: abstract list/dict displays inside the layout functions; chain/product/vcat/vertcat/
    Function on abstract collections"""
    mod = interp.load_module(CSQ)
    netmod = interp.load_module("sym_metanet.network")
    quals = set()
    K = mod.ns["Engine"]
    quals.add(K.ns["to_function"].qualname)
    for f in LAYOUT_FUNCS[1:]:
        quals.add(mod.ns[f].qualname)

    def display_hook(it, kind, value, env):
        e = env
        while e is not None and e.func is None:
            e = e.parent
        if e is None:
            return None
        q = e.func.alias or e.func.qualname
        # the layout functions, and any helper of the same module they are split into
        if q not in quals and not (e.module is mod and e.func.name != "_filter_vars" and e.func.cls is None):
            return None
        return AList(value) if kind == "list" else ADict(value)

    interp.display_hook = display_hook

    def to_mseq(x):
        if isinstance(x, MSeq):
            return x
        if hasattr(x, "as_mseq"):
            return x.as_mseq()
        return None

    old_chain_net = netmod.ns.get("chain")

    def chain_net(it, a, k):
        ms = [to_mseq(x) for x in a]
        if all(m is not None for m in ms):
            return MSeq([s for m in ms for s in m.segments], "chain")
        if old_chain_net is None:
            raise Unsupported("itertools.chain is not imported in network.py")
        return it.call(old_chain_net, a, k)

    netmod.ns["chain"] = Builtin("itertools.chain", chain_net)
    old_chain = mod.ns.get("chain")

    def chain_cs(it, a, k):
        if any(isinstance(x, (_KeyView, AList, ADict)) for x in a):
            out = AList()
            for x in a:
                if isinstance(x, ADict):  # iterating a dict is iterating its keys
                    x = _KeyView(x, "keys")
                if isinstance(x, _KeyView):
                    out.parts.append(x.ref())
                elif isinstance(x, AList):
                    out.parts.extend(x.parts)
                else:
                    out.parts.extend(list(it.iterate(x)))
            return out
        if old_chain is None:
            raise Unsupported("itertools.chain is not imported in engines/casadi.py")
        return it.call(old_chain, a, k)

    mod.ns["chain"] = Builtin("itertools.chain", chain_cs)

    class _Ready:
        def pyvc_for(self, it, node, env):
            return None  # precondition of these tasks: every element is initialised and stepped (scan_task)

    def product(it, a, k):
        if len(a) == 2 and to_mseq(a[0]) is not None:
            return _Ready()
        raise Unsupported("product of something else than (elements, groups)")

    mod.ns["product"] = Builtin("itertools.product", product)
    cs = mod.ns["cs"]
    old_vcat, old_vertcat = cs.ns["vcat"], cs.ns["vertcat"]

    def vcat(it, a, k):
        x = a[0]
        if isinstance(x, AList):
            if x.concrete() and not any(isinstance(p, VCat) for p in x.parts):
                return old_vcat.fn(it, [list(x.parts)], k)
            return VCat(x.parts)
        if isinstance(x, _KeyView):
            if x.what != "values":
                raise Unsupported("vcat of dict keys")
            if not x.d.maybe_absent and not any(isinstance(v, VCat) for _, v in x.d.entries):
                return old_vcat.fn(it, [[v for _, v in x.d.entries]], k)
            return VCat([x.ref()])
        return old_vcat.fn(it, a, k)

    def vertcat(it, a, k):
        if any(isinstance(x, VCat) for x in a):
            return VCat(list(a))
        return old_vertcat.fn(it, a, k)

    class _Function:
        def pyvc_call(self, it, args, kwargs):
            if len(args) < 5:
                raise Unsupported("cs.Function without names")
            return Captured(*args[:5], args[5] if len(args) > 5 else None)

    # the casadi module object is shared by every importer: patch a copy for this interpreter
    from pyvc.values import ModuleValue

    cs2 = ModuleValue("casadi")
    cs2.ns.update(cs.ns)
    cs2.ns["vcat"] = Builtin("cs.vcat", vcat)
    cs2.ns["vertcat"] = Builtin("cs.vertcat", vertcat)
    cs2.ns["Function"] = _Function()
    mod.ns["cs"] = cs2


# ---- comparison of abstract structures with the specification ---------------------------------------
def same_name(got, parts):
    try:
        return norm_name(got) == norm_name(OpaqueStr(list(parts)))
    except Exception:  # noqa: BLE001
        return False


def same_value(c, label, cond, got, want):
    """obligations (under cond): got is the CasADi value want"""
    if got is want:
        c.oblige("post", label, T.TRUE, assume_after=False)
        return
    if not (isinstance(got, Arr) and isinstance(want, Arr)):
        c.oblige("post", label + ": is a CasADi value", T.implies(cond, T.FALSE), assume_after=False)
        return
    c.oblige("post", label + ": length", T.implies(cond, T.eq(got.n, want.n)), assume_after=False)
    i = c.fresh_index(want.n, "k")
    c.oblige("post", label + ": entries", T.implies(T.and_(cond, T.eq(got.n, want.n)), T.eq(got.at(i), want.at(i))), assume_after=False)


def check_seg(c, label, seg, i, want_names, want_vals, names_seg=None):
    """the items a loop contributed at index i are exactly `want` (on every path of its body)"""
    cases = seg.cases(i)
    if not cases:
        c.oblige("post", f"{label}: the loop has a path for this element", T.FALSE, assume_after=False)
    if cases:
        c.reachable(label, T.or_(*[cond for cond, _ in cases]))
    for cond, items in cases:
        okn = len(items) == len(want_vals)
        c.oblige("post", f"{label}: contributes {len(want_vals)} item(s) for this element (found {len(items)})", T.implies(cond, T.const(okn)), assume_after=False)
        if not okn:
            continue
        for k, (it_, w) in enumerate(zip(items, want_vals)):
            if want_names is not None:
                c.oblige("post", f"{label}: item {k} is named {''.join(map(str, want_names[k]))}", T.implies(cond, T.const(same_name(it_, want_names[k]))), assume_after=False)
            else:
                same_value(c, f"{label}: item {k}", cond, it_, w)


def declared(cls_name, group):
    return [key for g, key, _, _ in DECLARED[cls_name] if g == group]


def possible_names(group):
    out = []
    for cat in CAT_ORDER:
        for cls in CATS[cat]:
            for k in declared(cls, group):
                if k not in out:
                    out.append(k)
    return out


def cats_with(group, key):
    return [cat for cat in CAT_ORDER if any(key in declared(cls, group) for cls in CATS[cat])]


def layout_task(compact, more_out, with_params, symtype, derived):
    label = f"any number of elements,compact={compact},more_out={more_out},parameters={with_params},{symtype},positive_init={derived}"

    def run(interp, c):
        mod = interp.load_module(CSQ)
        K = mod.ns["Engine"]
        fn = K.ns["to_function"]
        interp.inline_only.add(fn.qualname)
        for f in ("_filter_vars",) + LAYOUT_FUNCS[1:]:
            interp.inline_only.add(mod.ns[f].qualname)
        eng = interp.call(K, [symtype], {})
        net = LNet(interp, symtype, derived)
        install(interp, net)
        params = None
        if with_params:
            params = {"rho_crit_L1": CM.new_symbol(symtype, "rho_crit", 1), "a_L1": CM.new_symbol(symtype, "a", 1),
                      "rho_crit_L2": CM.new_symbol(symtype, "rho_crit", 1), "a_L2": CM.new_symbol(symtype, "a", 1)}
        others = {"T": T.var("T", T.REAL), "tau": T.var("tau", T.REAL)}
        interp.contracts["sym_metanet.blocks.links:Link.get_flow"] = FlowContract(net, "link", eng, params, others)
        for k_ in G.ORIGIN_CLASSES:
            interp.contracts[f"sym_metanet.blocks.origins:{k_}.get_flow"] = FlowContract(net, "origin", eng, params, others)
        try:
            F = interp.call(BoundMethod(fn, eng), [net], dict(compact=compact, more_out=more_out, parameters=params, **others))
        except PyRaise as e:
            c.oblige("safe", f"compiling an initialised and stepped network raises nothing ({e.exc.cls_name}: {str(e.exc.args)[:120]})", T.FALSE, assume_after=False)
            return
        c.oblige("post", "to_function returns the casadi.Function it builds", T.const(isinstance(F, Captured)), assume_after=False)
        if not isinstance(F, Captured):
            return
        for attr in ("ins", "outs", "names_in", "names_out"):
            x = getattr(F, attr)
            if isinstance(x, (list, tuple)):
                setattr(F, attr, AList(list(x)))
            elif not isinstance(x, AList):
                raise Unsupported(f"the {attr} of casadi.Function are given as a {type(x).__name__}: outside the modelled ways of building them")
        if compact <= 0:
            check_compact0(c, net, F, params, more_out)
        else:
            check_compact12(c, net, F, params, more_out, compact)

    return Task(f"{CSQ}:Engine.to_function<{label}>", run, props=P_D + ("C07",), func=f"{CSQ}:Engine.to_function (+ helpers, Network.elements/states/...)", config=label)


def per_class(c, net, check):
    """run check(cat, j, el) for a generic element of every category and class; the fork on the class
    is explored locally (pyvc/summary.py), its obligations are recorded under the class condition"""
    from pyvc.summary import summarise

    for cat in CAT_ORDER:
        j = c.fresh_index(net.n[cat], f"{cat}_")

        def run_once(cat=cat, j=j):
            el = net.elem(cat, j)
            check(cat, j, el)

        paths = summarise(run_once)
        c.oblige("post", f"the layout checks cover every class of {cat} ({len(paths)} of {len(CATS[cat])})", T.const(len(paths) >= len(CATS[cat]) and all(p.kind == "ok" for p in paths)), assume_after=False)


def split_parts(parts):
    segs = [p for p in parts if isinstance(p, Seg)]
    return segs


def check_compact0(c, net, F, params, more_out):
    # ---- arguments: 3 groups x 3 categories of segments, then the parameters
    nparams = len(params) if params else 0
    nin, vin = F.names_in.parts, F.ins.parts
    ok_in = len(nin) == 9 + nparams and len(vin) == 9 + nparams and all(isinstance(p, Seg) for p in nin[:9] + vin[:9])
    c.oblige("post", f"arguments: for each of states/actions/disturbances one run over links, origins, destinations; then {nparams} parameter(s) (found {len(nin)} name parts, {len(vin)} value parts)",
             T.const(ok_in), assume_after=False)
    if ok_in and params:
        c.oblige("post", "the declared parameters follow, by name, in declaration order", T.const(nin[9:] == list(params.keys()) and all(a is b for a, b in zip(vin[9:], params.values()))), assume_after=False)
    nout, vout = F.names_out.parts, F.outs.parts
    want = 3 + (2 if more_out else 0)
    ok_out = len(nout) == want and len(vout) == want and all(isinstance(p, Seg) for p in nout + vout)
    c.oblige("post", f"results: one run over links, origins, destinations{' then link flows, then origin flows' if more_out else ''} (found {len(nout)} name parts, {len(vout)} value parts)", T.const(ok_out), assume_after=False)

    def check(cat, j, el):
        cc = cur()
        ci = CAT_ORDER.index(cat)
        if ok_in:
            for gi, g in enumerate(GROUPS):
                k = 3 * gi + ci
                keys = declared(el.cls.name, g)
                cc.oblige("post", f"arguments, {g} of the {cat}s: run over all of them in enumeration order", T.const(nin[k].n is net.n[cat] and vin[k].n is net.n[cat]), assume_after=False)
                check_seg(cc, f"argument names, {g} of a {cat} ({el.cls.name})", nin[k], j, [(key, "_", el.attrs["name"]) for key in keys], keys)
                check_seg(cc, f"arguments, {g} of a {cat} ({el.cls.name})", vin[k], j, None, [el.symbols[(g, key)] for key in keys])
        if ok_out:
            keys = declared(el.cls.name, "states")
            cc.oblige("post", f"results of the {cat}s: run over all of them in enumeration order", T.const(nout[ci].n is net.n[cat] and vout[ci].n is net.n[cat]), assume_after=False)
            check_seg(cc, f"result names of a {cat} ({el.cls.name})", nout[ci], j, [(key, "_", el.attrs["name"], "+") for key in keys], keys)
            check_seg(cc, f"results of a {cat} ({el.cls.name}): successors of its state arguments, same order", vout[ci], j, None, [el.attrs["next_states"][key] for key in keys])
            if more_out and cat in ("link", "origin"):
                k = 3 + ("link", "origin").index(cat)
                pre = "q_" if cat == "link" else "q_o_"
                cc.oblige("post", f"{cat} flows: one per {cat} in enumeration order", T.const(nout[k].n is net.n[cat] and vout[k].n is net.n[cat]), assume_after=False)
                check_seg(cc, f"flow name of a {cat}", nout[k], j, [(pre, el.attrs["name"])], [None])
                vout[k].cases(j)  # (the flow of this element is computed when the loop body runs at it)
                fl = net.flows.get((cat, el.ref.uid, el.cls.name))
                if fl is None:
                    cc.oblige("post", f"the flow of every {cat} is computed by its get_flow", T.FALSE, assume_after=False)
                else:
                    check_seg(cc, f"flow of a {cat} ({el.cls.name}) is the value of its get_flow", vout[k], j, None, [fl])

    per_class(c, net, check)


def group_dict_of(part):
    return part.d if isinstance(part, (KeysRef, ValuesRef)) else None


def check_groups(c, net, d, group, suffix, label, value_of, todo):
    """the per-name dict d of one group: one entry per variable name, its value the stack (VCat) over
    links, origins, destinations of the carriers' values.  Class-dependent checks are queued in todo."""
    names = possible_names(group)
    got = [k for k, _ in d.entries]
    c.oblige("post", f"{label}: one entry per variable name {[n + suffix for n in names]} (found {got})", T.const(sorted(got) == sorted(n + suffix for n in names)), assume_after=False)
    for key in names:
        e = d._find(key + suffix)
        if e is None:
            continue
        v = e[1]
        cats = cats_with(group, key)
        ok = isinstance(v, VCat) and len(v.parts) == len(cats) and all(isinstance(p, Seg) for p in v.parts)
        c.oblige("post", f"{label} {key + suffix!r}: the stack of one run over each of {cats}", T.const(ok), assume_after=False)
        if not ok:
            continue
        for cat, seg in zip(cats, v.parts):
            c.oblige("post", f"{label} {key + suffix!r}: run over all {cat}s in enumeration order", T.const(seg.n is net.n[cat]), assume_after=False)

            def chk(j, el, seg=seg, key=key, cat=cat):
                has = key in declared(el.cls.name, group)
                check_seg(cur(), f"{label} {key + suffix!r}, a {cat} ({el.cls.name}) {'contributes its own variable' if has else 'contributes nothing'}", seg, j, None,
                          [value_of(el, key)] if has else [])

            todo.setdefault(cat, []).append(chk)


def check_compact12(c, net, F, params, more_out, compact):
    todo = {}
    try:
        _check_compact12(c, net, F, params, more_out, compact, todo)
    finally:
        per_class(c, net, lambda cat, j, el: [f(j, el) for f in todo.get(cat, [])])


def _check_compact12(c, net, F, params, more_out, compact, todo):
    nin, vin = F.names_in.parts, F.ins.parts
    nparams = 1 if params else 0
    for part in list(nin) + list(vin) + list(F.names_out.parts) + list(F.outs.parts):
        if isinstance(part, (ADict, _KeyView, dict, list, tuple, MSeq)):
            # a whole collection where its entries should be listed: a form of building the lists that the
            # abstract collections do not flatten - a limit of this check, not a wrong layout
            raise Unsupported(f"layout: {type(part).__name__} as one entry of an argument / result list")
    if compact == 1:
        ok = len(nin) == 3 + nparams and len(vin) == 3 + nparams and all(isinstance(p, KeysRef) for p in nin[:3]) and all(isinstance(p, ValuesRef) for p in vin[:3]) \
            and all(a.d is b.d for a, b in zip(nin[:3], vin[:3]))
        c.oblige("post", "arguments: the names and the values of the state groups, then of the action groups, then of the disturbance groups - each pair listed from one dict", T.const(ok), assume_after=False)
        if not ok:
            return
        dicts = [p.d for p in vin[:3]]
    else:
        ok = len(nin) == 3 + nparams and nin[:3] == ["x", "u", "d"] and len(vin) == 3 + nparams and all(isinstance(p, VCat) and len(p.parts) == 1 and isinstance(p.parts[0], ValuesRef) for p in vin[:3])
        c.oblige("post", "arguments x, u, d: each the stack of the per-name groups of states / actions / disturbances", T.const(ok), assume_after=False)
        if not ok:
            return
        dicts = [p.parts[0].d for p in vin[:3]]
    c.oblige("post", "the three groups are three different dicts", T.const(len({id(d) for d in dicts}) == 3), assume_after=False)
    for d, g in zip(dicts, GROUPS):
        check_groups(c, net, d, g, "", f"argument group ({g})", lambda el, key, g=g: el.symbols[(g, key)], todo)
    if params:
        okp = nin[3] == "p" and isinstance(vin[3], Arr)
        c.oblige("post", "the declared parameters follow as one argument p", T.const(okp), assume_after=False)
        if okp:
            want = A.concat("cs", [A.freeze(p) for p in params.values()], "m")
            same_value(c, "p is the stack of the declared parameters in declaration order", T.TRUE, vin[3], want)
    # ---- results
    nout, vout = F.names_out.parts, F.outs.parts
    if compact == 1:
        want_n = 1 + (2 if more_out else 0)
        ok = len(nout) == want_n and len(vout) == want_n and isinstance(nout[0], KeysRef) and isinstance(vout[0], ValuesRef) and nout[0].d is vout[0].d
        c.oblige("post", "results: names and values of the next-state groups, listed from one dict" + (" then q, q_o" if more_out else ""), T.const(ok), assume_after=False)
        if not ok:
            return
        dn = vout[0].d
    else:
        want_n = 1 + (1 if more_out else 0)
        ok = len(nout) == want_n and nout[0] == "x+" and len(vout) == want_n and isinstance(vout[0], VCat) and len(vout[0].parts) == 1 and isinstance(vout[0].parts[0], ValuesRef)
        c.oblige("post", "result x+: the stack of the per-name groups of next states" + (" then q" if more_out else ""), T.const(ok), assume_after=False)
        if not ok:
            return
        dn = vout[0].parts[0].d
    check_groups(c, net, dn, "states", "+", "result group", lambda el, key: el.attrs["next_states"][key], todo)
    # one-to-one with the state groups: same names in the same (abstract) order
    c.oblige("post", "the result groups correspond one to one, in order, to the state argument groups (name + '+')",
             T.const([k + "+" for k, _ in dicts[0].entries] == [k for k, _ in dn.entries]), assume_after=False)
    # sizes: a next state has the size of its state (so stacked offsets coincide)
    for cat in CAT_ORDER:
        def sizes(j, el, cat=cat):
            for key in declared(el.cls.name, "states"):
                cur().oblige("post", f"the next state {key!r} of a {cat} has the size of its state", T.eq(el.attrs["next_states"][key].n, el.symbols[("states", key)].n), assume_after=False)

        todo.setdefault(cat, []).append(sizes)
    if more_out:
        flows = []
        if compact == 1:
            okf = nout[1:] == ["q", "q_o"] and all(isinstance(v, VCat) and len(v.parts) == 1 and isinstance(v.parts[0], Seg) for v in vout[1:])
            c.oblige("post", "q is the stack of the link flows, q_o of the origin flows", T.const(okf), assume_after=False)
            if okf:
                flows = [("link", vout[1].parts[0]), ("origin", vout[2].parts[0])]
        else:
            v = vout[1] if len(vout) > 1 else None
            okf = nout[1:] == ["q"] and isinstance(v, VCat) and len(v.parts) == 2 and all(isinstance(p, VCat) and len(p.parts) == 1 and isinstance(p.parts[0], Seg) for p in v.parts)
            c.oblige("post", "q is the stack of the link flows followed by the origin flows", T.const(okf), assume_after=False)
            if okf:
                flows = [("link", v.parts[0].parts[0]), ("origin", v.parts[1].parts[0])]
        for cat, seg in flows:
            c.oblige("post", f"{cat} flows: one per {cat} in enumeration order", T.const(seg.n is net.n[cat]), assume_after=False)

            def flow(j, el, cat=cat, seg=seg):
                cc = cur()
                seg.cases(j)  # (the flow of this element is computed when the loop body runs at it)
                fl = net.flows.get((cat, el.ref.uid, el.cls.name))
                if fl is None:
                    cc.oblige("post", f"the flow of every {cat} is computed by its get_flow", T.FALSE, assume_after=False)
                else:
                    check_seg(cc, f"flow of a {cat} ({el.cls.name}) is the value of its get_flow", seg, j, None, [fl])

            todo.setdefault(cat, []).append(flow)


def all_tasks():
    out = []
    for compact, more_out, wp in itertools.product((0, 1, 2), (False, True), (False, True)):
        for symtype, derived in (("SX", False), ("MX", False), ("SX", True), ("MX", True)):
            if derived and (more_out or wp) and compact != 1:
                continue
            out.append(layout_task(compact, more_out, wp, symtype, derived))
    return out
