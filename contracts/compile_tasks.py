"""Stratum D: engines/casadi.py to_function and its helpers (C03 C04 C05 C16 C19).

 * the readiness scan of to_function is verified for a network with a symbolic number of
   elements of symbolic class and initialisation status (unbounded): it raises RuntimeError
   exactly when some element misses a declared variable group or has states but no next states;
 * the layout functions (_filter_vars, _gather_inputs, _gather_outputs,
   _add_parameters_to_inputs, _add_flows_to_outputs, and to_function itself) are executed on
   networks with a *fixed list of elements* (the spines below: bounded in the number of
   elements, symbolic in segment counts, symbols and values) against the layout written from the
   property statement; this part is labelled bounded in the evidence.
casadi.Function is the assumed contract of pyvc/libmodels/casadi_model.py."""
from __future__ import annotations

import itertools

from pyvc import arrays as A
from pyvc import terms as T
from pyvc.ctx import cur, Infeasible
from pyvc.interp import PyRaise, Env
from pyvc.libmodels import casadi_model as CM
from pyvc.values import Arr, BoundMethod, Builtin, LocalObj, ObjRef, OpaqueStr, SymName, Unsupported, SSeq, mk_vec
from pyvc.vc import Task
from contracts import ghost as G
from contracts.writers_tasks import DECLARED, MODULE_OF

CSQ = "sym_metanet.engines.casadi"
P_D = ("C03", "C04", "C05", "C16", "C19")


# ---- unbounded: the readiness scan ---------------------------------------------------------------
inited = {g: T.uf(f"has.{g}", [T.REF], T.BOOL) for g in ("states", "actions", "disturbances", "next_states")}


class ScanHeap(G.Heap):
    """elements of unknown initialisation status: has_<group>(el) are symbolic"""

    def getattr(self, interp, obj, name):
        if name in ("_states", "_actions", "_disturbances"):
            return _ClassAttr(self, obj, name)
        if name in ("states", "actions", "disturbances", "next_states"):
            return _MaybeNone(inited[name](obj.term))
        return super().getattr(interp, obj, name)


class _ClassAttr:
    """the class attribute _states/_actions/_disturbances of an element of symbolic class: only its
    emptiness is used (any(...)); a term over the class tag, no path fork"""

    def __init__(self, heap, obj, name):
        self.heap, self.obj, self.name = heap, obj, name

    def pyvc_any(self, interp):
        alts = []
        for k in self.obj.classes:
            v, _ = k.lookup(self.name)
            if v:
                alts.append(T.eq(G.cls_tag(self.obj.term), G.TAGS[k.name]))
        return T.or_(*alts) if alts else False


class _MaybeNone:
    def __init__(self, present):
        self.present = present

    def pyvc_is_none(self):
        return T.not_(self.present)


class _ScanDone(Exception):
    pass


class ScanNet(G.GhostNet):
    def __init__(self, interp):
        super().__init__(interp)
        self.heap = ScanHeap(interp, self)

    def pyvc_getattr(self, interp, name):
        if name in ("states", "actions", "disturbances", "next_states"):
            raise _ScanDone()
        if name == "elements":
            # Network.elements is an itertools.chain: a fresh one-shot iterator on every access
            from contracts.construct_tasks import OneShot

            return OneShot(super().pyvc_getattr(interp, name))
        return super().pyvc_getattr(interp, name)


class _SymProduct:
    def __init__(self, seq, lst):
        self.seq, self.lst = seq, list(lst)
        self.pyvc_symbolic_iter = True
        self.n = seq.n
        self.desc = f"product({seq.desc}, {self.lst})"

    def pyvc_for(self, interp, node, env):
        # wherever the scan loop lives (to_function itself or a helper it calls)
        return readiness_rule(interp, node, self, env)


def declared_groups(cls_name):
    return {g for g, *_ in DECLARED[cls_name]}


def class_declares(interp, heap, cls_name, group):
    """read from the real class attribute _states/_actions/_disturbances"""
    v, _ = heap.classes[cls_name].lookup("_" + group)
    return bool(v)


def readiness_rule(interp, node, prod, env):
    """`for el, group in product(net.elements, [...]): if ...: raise` over a symbolic number of elements"""
    c = cur()
    seq, groups = prod.seq, prod.lst
    from pyvc.loops import _child_env

    ifs = [st for st in node.body if True]
    snapshot = dict(env.vars)

    def run_body(i, collect):
        """execute the loop body for element i and every group; with collect, returns the disjunction
        of the raising conditions instead of raising"""
        conds = []
        for g in groups:
            e2 = _child_env(interp, env)
            e2.vars.update(snapshot)
            interp.assign(node.target, (seq.elem(i), g), e2)
            for st in node.body:
                import ast

                if not (isinstance(st, ast.If) and not st.orelse and isinstance(st.body[-1], ast.Raise)):
                    raise Unsupported("readiness scan body is not a sequence of `if ...: raise`")
                t = interp.truth_term(interp.eval(st.test, e2))
                if collect:
                    conds.append(T.lift(t))
                else:
                    if interp.truth(t, why=f"scan@{st.lineno}"):
                        interp.exec_block(st.body, e2)
        return T.or_(*conds) if conds else T.FALSE

    some = T.fresh("some_element_not_ready", T.BOOL)
    w = T.fresh("w", T.INT)
    c.axiom(T.implies(some, T.and_(T.le(0, w), T.lt(w, seq.n))))
    c.scan = {"witness": w, "some": some, "seq": seq}
    if c.decide(some, "some element makes the scan raise"):
        c.assume(run_body(w, True))
        run_body(w, False)
        raise Infeasible()  # the assumed disjunction guarantees one of the ifs fires
    c.assume_forall(seq.n, lambda i: T.not_(run_body(i, True)))


def ready_spec(net, el_ref):
    """readiness of one element, from the class declarations (contracts/ghost.VARS): every declared
    variable group is initialised, and next states exist if it has states"""
    t = el_ref
    conj = []
    for cls_name, decl in G.VARS.items():
        if cls_name == "Node":
            continue
        is_k = T.eq(G.cls_tag(t), G.TAGS[cls_name])
        need = []
        # note: what a class *declares* is its _states/_actions/_disturbances attribute
        for g in ("states", "actions", "disturbances"):
            if g in decl:
                need.append(inited[g](t))
        if "states" in decl:
            need.append(inited["next_states"](t))
        conj.append(T.implies(is_k, T.and_(*need)))
    return T.and_(*conj)


def scan_task():
    def run(interp, c):
        mod = interp.load_module(CSQ)
        K = mod.ns["Engine"]
        fn = K.ns["to_function"]
        interp.inline_only.add(fn.qualname)
        eng = interp.call(K, ["SX"], {})
        net = ScanNet(interp)
        interp.loop_rules = {(fn.qualname, 0): readiness_rule}
        old_product = mod.ns.get("product")

        def product(it_, a, k):
            if len(a) == 2 and hasattr(a[0], "seq") and hasattr(a[0], "used") and not a[0].used:
                a[0].used = True  # product() consumes its arguments
                a = [a[0].seq, a[1]]
            if len(a) == 2 and isinstance(a[0], SSeq) and not T.is_const(a[0].n):
                return _SymProduct(a[0], it_.iterate(a[1]))
            if old_product is None:
                raise Unsupported("itertools.product is not imported here")
            return old_product.fn(it_, a, k)

        if old_product is not None:
            mod.ns["product"] = Builtin("itertools.product", product)
        # the real class declarations must be the ones the spec uses
        for cls_name, decl in (G.VARS.items() if not c.decisions else ()):
            if cls_name == "Node":
                continue
            for g in ("states", "actions", "disturbances"):
                c.oblige("post", f"{cls_name}._{g} declares variables iff the class owns {g}", T.const(class_declares(interp, net.heap, cls_name, g) == (g in decl)), assume_after=False)
        raised = None
        try:
            interp.call(BoundMethod(fn, eng), [net], {"T": T.var("T", T.REAL)})
            c.oblige("post", "to_function goes on to gather the variables after the scan", T.FALSE, assume_after=False)
        except _ScanDone:
            pass
        except PyRaise as e:
            raised = e.exc
        sc = getattr(c, "scan", None) or getattr(c, "last_search", None)
        if sc is None and raised is not None:
            raise Unsupported("to_function raises without a scan over the elements that the rules recognise")
        seq = sc["seq"] if sc is not None else net.elements_seq()
        if raised is not None:
            c.oblige("post", "a RuntimeError of the scan is about an element of the network", T.const(seq.desc.startswith("elements")), assume_after=False)
        if raised is not None:
            c.oblige("post", f"an unready network is refused with RuntimeError (got {raised.cls_name})", T.const(raised.cls_name == "RuntimeError"), assume_after=False)
            el = seq.elem(sc["witness"])
            c.oblige("post", "RuntimeError is raised only if some element is not ready (misses a declared variable group, or has states and no next states)",
                     T.not_(ready_spec(net, el.term)), assume_after=False)
        else:
            seq = G.GhostNet.pyvc_getattr(net, interp, "elements")  # every element of the network, whatever the scan iterated
            j = c.fresh_index(seq.n, "r")
            el = seq.elem(j)
            c.oblige("post", "past the scan every element of the network is initialised and, if it has states, stepped",
                     ready_spec(net, el.term), assume_after=False)

    return Task(f"{CSQ}:Engine.to_function<readiness scan>", run, props=("C19", "C07"), func=f"{CSQ}:Engine.to_function", config="readiness scan, symbolic number of elements")


# ---- bounded spines: layout --------------------------------------------------------------------------
SPINES = {
    "chain": (["Link"], ["MainstreamOrigin"], ["Destination"]),
    "ideal": (["Link", "Link"], ["Origin"], ["CongestedDestination"]),
    "ramp": (["Link", "LinkWithVsl"], ["MainstreamOrigin", "MeteredOnRamp"], ["Destination"]),
    "mixed": (["LinkWithVsl", "Link", "Link"], ["SimplifiedMeteredOnRamp", "Origin", "MeteredOnRamp"], ["CongestedDestination", "Destination"]),
    "ramps-first": (["Link"], ["MeteredOnRamp", "MainstreamOrigin", "SimplifiedMeteredOnRamp"], ["CongestedDestination", "CongestedDestination"]),
}


class LayoutNet:
    """a network given by its element lists; elements/states/actions/... are computed by the real
    property bodies of Network (network.py:128-174) run on this object"""

    def __init__(self, interp, links, origins, dests):
        self.interp = interp
        self.links_list, self.origins_list, self.dests_list = links, origins, dests
        self.K = interp.load_module("sym_metanet.network").ns["Network"]

    def pyvc_getattr(self, interp, name):
        if name in ("links", "out_links"):
            return [(("u", k), ("v", k), l) for k, l in enumerate(self.links_list)]
        if name == "in_links":
            # the in-edge enumeration visits the same edges in another order in general
            return [(("u", k), ("v", k), l) for k, l in reversed(list(enumerate(self.links_list)))]
        if name == "origins":
            return {o: ("node-of", k) for k, o in enumerate(self.origins_list)}
        if name == "destinations":
            return {d: ("node-of-d", k) for k, d in enumerate(self.dests_list)}
        if name in ("elements", "states", "next_states", "actions", "disturbances"):
            prop = self.K.ns[name]
            interp.inline_only.add(prop.fget.qualname)
            return interp.call(prop.fget, [self], {})
        raise Unsupported(f"Network.{name} on a layout network")

    def pyvc_is_none(self):
        return False


def sym_value(symtype, name, n, derived):
    s = CM.new_symbol(symtype, name, n)
    if not derived:
        return s, s
    v = A.elementwise("max", A.np_wrap_scalar(0) if False else CM._m(0), s, "fmax")
    return v, s


def build_spine(interp, spine, symtype, derived_states):
    from contracts.writers_tasks import make_element

    links, origins, dests = [], [], []
    k = 0
    allsyms = []
    for group, names in zip((links, origins, dests), SPINES[spine]):
        for cls_name in names:
            k += 1
            obj, _ = make_element(interp, cls_name, tag=f"e{k}")
            obj.symbols = {}
            for g, key, kind, _ in DECLARED[cls_name]:
                n = obj.attrs["N"] if kind == "vecN" else (obj.attrs["vsl"].n if kind == "vecK" else 1)
                val, sym = sym_value(symtype, f"{key}_e{k}", n, derived_states and g == "states")
                if obj.attrs.get(g) is None:
                    obj.attrs[g] = {}
                obj.attrs[g][key] = val
                obj.symbols[(g, key)] = sym
                allsyms.append(sym)
            group.append(obj)
    # next states: arbitrary expressions over all symbols of the network
    for obj in links + origins + dests:
        if obj.attrs.get("states") is not None:
            obj.attrs["next_states"] = {}
            for key, v in obj.attrs["states"].items():
                f = T.uf(f"next.{key}.{obj.ref!r}", [T.INT], T.REAL)
                nv = mk_vec("cs", "m", v.n, lambda i, f=f: f(i), "fresh", symtype=symtype)
                nv.buf.prov = tuple(s.buf.symid for s in allsyms)
                obj.attrs["next_states"][key] = nv
    return links, origins, dests


def norm_name(x):
    parts = x.parts if isinstance(x, OpaqueStr) else (x,)
    out = []
    for p in parts:
        if isinstance(p, OpaqueStr):
            p = norm_name(p)
            out.extend(p)
            continue
        if isinstance(p, str) and out and isinstance(out[-1], str):
            out[-1] += p
        else:
            out.append(p)
    return tuple(out)


def same_arr(c, label, got, parts):
    """obligations: got is the vertical stack of parts"""
    if not isinstance(got, Arr):
        c.oblige("post", f"{label}: is a CasADi value", T.FALSE, assume_after=False)
        return
    exp = A.concat("cs", [A.freeze(p) for p in parts], "m") if len(parts) != 1 else parts[0]
    c.oblige("post", f"{label}: length", T.eq(got.n, exp.n))
    i = c.fresh_index(exp.n, "k")
    c.oblige("post", f"{label}: entries", T.eq(got.at(i), exp.at(i)), assume_after=False)


def expected_groups(elements, group, use_symbols):
    """[(element, key, value)] for one of states/actions/disturbances in element and key order"""
    out = []
    for e in elements:
        d = e.attrs.get(group)
        if d is None:
            continue
        for key in d:
            out.append((e, key, e.symbols[(group, key)] if use_symbols else d[key]))
    return out


def by_name(triples, suffix=""):
    names, groups = [], {}
    for e, key, v in triples:
        nm = key + suffix
        if nm not in groups:
            groups[nm] = []
            names.append(nm)
        groups[nm].append(v)
    return names, groups


class FlowEvents:
    family = None

    def __init__(self, log, what):
        self.log, self.what = log, what

    def apply(self, interp, fn, args, kwargs):
        recv = args[0]
        f = T.uf(f"flowof.{recv.ref!r}", [T.INT], T.REAL)
        n = recv.attrs["N"] if "N" in recv.attrs else 1
        v = mk_vec("cs", "m", n, lambda i: f(i), "fresh", symtype="SX")
        self.log.append((self.what, recv, list(args[1:]), dict(kwargs), v))
        return v


def layout_task(spine, compact, more_out, with_params, symtype, derived):
    label = f"{spine},compact={compact},more_out={more_out},parameters={with_params},{symtype},positive_init={derived}"

    def run(interp, c):
        mod = interp.load_module(CSQ)
        K = mod.ns["Engine"]
        fn = K.ns["to_function"]
        for f in ("to_function",):
            interp.inline_only.add(K.ns[f].qualname)
        for f in ("_filter_vars", "_gather_inputs", "_gather_outputs", "_add_parameters_to_inputs", "_add_flows_to_outputs"):
            interp.inline_only.add(mod.ns[f].qualname)
        eng = interp.call(K, [symtype], {})
        links, origins, dests = build_spine(interp, spine, symtype, derived)
        net = LayoutNet(interp, links, origins, dests)
        log = []
        interp.contracts["sym_metanet.blocks.links:Link.get_flow"] = FlowEvents(log, "link")
        for k_ in ("Origin", "MainstreamOrigin", "MeteredOnRamp", "SimplifiedMeteredOnRamp"):
            interp.contracts[f"sym_metanet.blocks.origins:{k_}.get_flow"] = FlowEvents(log, "origin")
        params = None
        if with_params:
            # per-link symbols with the same display name, declared interleaved
            params = {"rho_crit_L1": CM.new_symbol(symtype, "rho_crit", 1), "a_L1": CM.new_symbol(symtype, "a", 1),
                      "rho_crit_L2": CM.new_symbol(symtype, "rho_crit", 1), "a_L2": CM.new_symbol(symtype, "a", 1)}
        others = {"T": T.var("T", T.REAL), "tau": T.var("tau", T.REAL)}
        kwargs = dict(compact=compact, more_out=more_out, parameters=params, **others)
        try:
            F = interp.call(BoundMethod(fn, eng), [net], kwargs)
        except PyRaise as e:
            c.oblige("safe", f"compiling an initialised and stepped network raises nothing ({e.exc.cls_name}: {str(e.exc.args)[:120]})", T.FALSE, assume_after=False)
            return
        good = isinstance(F, CM.FunctionModel)
        c.oblige("post", "to_function returns the casadi.Function it builds", T.const(good), assume_after=False)
        if not good:
            return
        elements = links + origins + dests
        # ---- inputs
        X, U, D = (expected_groups(elements, g, True) for g in ("states", "actions", "disturbances"))
        if compact <= 0:
            names = [(key, "_", e.attrs["name"]) for e, key, _ in X + U + D]
            parts = [[v] for _, _, v in X + U + D]
            if params:
                names += [(k_,) for k_ in params]
                parts += [[v] for v in params.values()]
        else:
            names, parts = [], []
            per = []
            for tr in (X, U, D):
                nm, gr = by_name(tr)
                per.append((nm, gr))
            if compact == 1:
                for nm, gr in per:
                    for n_ in nm:
                        names.append((n_,))
                        parts.append(gr[n_])
            else:
                for lab, (nm, gr) in zip("xud", per):
                    names.append((lab,))
                    parts.append([v for n_ in nm for v in gr[n_]])
            if params:
                names.append(("p",))
                parts.append(list(params.values()))
        c.oblige("post", f"number of arguments ({len(parts)})", T.const(len(F.ins) == len(parts) and len(F.names_in or []) == len(parts)), assume_after=False)
        if len(F.ins) != len(parts):
            return
        for k_, (nm, pt) in enumerate(zip(names, parts)):
            c.oblige("post", f"argument {k_} is named {''.join(map(str, nm))}", T.const(norm_name(F.names_in[k_]) == norm_name(OpaqueStr(list(nm)))), assume_after=False)
            same_arr(c, f"argument {k_} ({''.join(map(str, nm))})", F.ins[k_], pt)
        # ---- outputs
        XN = expected_groups(elements, "next_states", False) if False else [(e, key, e.attrs["next_states"][key]) for e in elements if e.attrs.get("next_states") is not None for key in e.attrs["next_states"]]
        if compact <= 0:
            onames = [(key, "_", e.attrs["name"], "+") for e, key, _ in XN]
            oparts = [[v] for _, _, v in XN]
        else:
            nm, gr = by_name(XN, "+")
            if compact == 1:
                onames, oparts = [(n_,) for n_ in nm], [gr[n_] for n_ in nm]
            else:
                onames, oparts = [("x+",)], [[v for n_ in nm for v in gr[n_]]]
        if more_out:
            lf = [e for e in log if e[0] == "link"]
            of = [e for e in log if e[0] == "origin"]
            c.oblige("post", "one flow per link (in link order) and one per origin (in origin order) is computed", T.const([e[1] for e in lf] == links and [e[1] for e in of] == origins), assume_after=False)
            for e in lf:
                c.oblige("post", "link flows are computed with this engine", T.const(e[2] == [eng] or e[3].get("engine") is eng), assume_after=False)
            for e in of:
                kw = e[3]
                okk = e[2][:1] == [net] and kw.get("engine") is eng and all(kw.get(k_) is v for k_, v in others.items()) and (not params or all(kw.get(k_) is v for k_, v in params.items()))
                c.oblige("post", "origin flows are computed on this network with this engine, the declared parameters and the caller's parameters (as the queue update does)", T.const(okk), assume_after=False)
            if [e[1] for e in lf] == links and [e[1] for e in of] == origins:
                if compact <= 0:
                    onames += [("q_", l.attrs["name"]) for l in links] + [("q_o_", o.attrs["name"]) for o in origins]
                    oparts += [[e[4]] for e in lf] + [[e[4]] for e in of]
                elif compact == 1:
                    onames += [("q",), ("q_o",)]
                    oparts += [[e[4] for e in lf], [e[4] for e in of]]
                else:
                    onames += [("q",)]
                    oparts += [[e[4] for e in lf] + [e[4] for e in of]]
        c.oblige("post", f"number of results ({len(oparts)})", T.const(len(F.outs) == len(oparts) and len(F.names_out or []) == len(oparts)), assume_after=False)
        if len(F.outs) != len(oparts):
            return
        for k_, (nm, pt) in enumerate(zip(onames, oparts)):
            c.oblige("post", f"result {k_} is named {''.join(map(str, nm))}", T.const(norm_name(F.names_out[k_]) == norm_name(OpaqueStr(list(nm)))), assume_after=False)
            same_arr(c, f"result {k_} ({''.join(map(str, nm))})", F.outs[k_], pt)
        # result k is the successor of state argument k (same element, key and position)
        if compact <= 0:
            okk = [(e, key) for e, key, _ in X] == [(e, key) for e, key, _ in XN]
            c.oblige("post", "each result is the successor of the state argument in the same position", T.const(okk), assume_after=False)

    return Task(f"{CSQ}:Engine.to_function<{label}>", run, props=P_D + ("C07",), func=f"{CSQ}:Engine.to_function (+ helpers, Network.elements/states/...)", config=label,
                bounded="five fixed element lists (spines) of 3 to 8 elements; segment counts, symbols and values symbolic")


def all_tasks():
    out = [scan_task()]
    for spine in SPINES:
        for compact, more_out, wp in itertools.product((0, 1, 2), (False, True), (False, True)):
            for symtype, derived in (("SX", False), ("MX", False), ("SX", True), ("MX", True)):
                if spine not in ("ramp", "mixed") and (symtype == "MX" and derived):
                    continue
                out.append(layout_task(spine, compact, more_out, wp, symtype, derived))
    return out
