"""engines/core.py: use / get_current_engine / get_available_engines (C13, first half)."""
from __future__ import annotations

from pyvc import terms as T
from pyvc.ctx import cur
from pyvc.interp import PyRaise
from pyvc.values import Builtin, ClassValue, LocalObj, ModuleValue
from pyvc.vc import Task

CORE = "sym_metanet.engines.core"


def _setup(interp):
    core = interp.load_module(CORE)
    pkg = interp.load_module("sym_metanet")
    imp = interp.ext_modules["importlib"]
    imp.ns["import_module"] = Builtin("importlib.import_module", lambda it, a, k: it.load_module(a[0]))
    for n in ("use", "get_current_engine", "get_available_engines"):
        interp.inline_only.add(core.ns[n].qualname)
    return core, pkg


def hidden_state_names(core):
    """module-level names of engines/core.py that some function rebinds (`global`): part of the
    selection state, so every history may have left any value there"""
    import ast

    names = set()
    for n in ast.walk(core.tree):
        if isinstance(n, ast.Global):
            names.update(n.names)
    return sorted(names)


def run_use(kind, prior="clean"):
    def run(interp, c):
        core, pkg = _setup(interp)
        old = LocalObj(interp.load_module("sym_metanet.engines.numpy").ns["Engine"])
        stale = LocalObj(interp.load_module("sym_metanet.engines.casadi").ns["Engine"])
        pkg.ns["engine"] = old
        hidden = hidden_state_names(core)
        if prior == "stale":
            if not hidden:
                c.oblige("post", "no hidden selection state besides sym_metanet.engine", T.TRUE, assume_after=False)
            for h in hidden:
                core.ns[h] = stale  # whatever an earlier selection may have left behind
        fn = core.ns["use"]
        if kind == "instance":
            for module in ("numpy", "casadi"):
                inst = LocalObj(interp.load_module(f"sym_metanet.engines.{module}").ns["Engine"])
                pkg.ns["engine"] = old
                try:
                    r = interp.call(fn, [inst], {})
                except PyRaise as e:
                    c.oblige("safe", f"use(instance) raises nothing ({e.exc.cls_name})", T.FALSE, assume_after=False)
                    continue
                c.oblige("post", f"use({module} engine instance) returns that instance", T.const(r is inst), assume_after=False)
                c.oblige("post", f"use({module} engine instance) makes it the current engine", T.const(pkg.ns["engine"] is inst), assume_after=False)
                cur_ = interp.call(core.ns["get_current_engine"], [], {})
                c.oblige("post", "get_current_engine returns the selected engine", T.const(cur_ is inst), assume_after=False)
        elif kind == "name":
            for name, module in (("numpy", "sym_metanet.engines.numpy"), ("casadi", "sym_metanet.engines.casadi")):
                pkg.ns["engine"] = old
                args = ["rand"] if name == "numpy" else ["MX"]
                try:
                    r = interp.call(fn, [name] + args, {})
                except PyRaise as e:
                    c.oblige("safe", f"use({name!r}) raises nothing ({e.exc.cls_name}: {e.exc.args})", T.FALSE, assume_after=False)
                    continue
                want = interp.load_module(module).ns["Engine"]
                good = isinstance(r, LocalObj) and r.cls is want and r is not old
                c.oblige("post", f"use({name!r}) returns a new instance of {module}.Engine", T.const(good), assume_after=False)
                c.oblige("post", f"use({name!r}) makes it the current engine", T.const(pkg.ns["engine"] is r), assume_after=False)
                cur_ = interp.call(core.ns["get_current_engine"], [], {})
                c.oblige("post", "get_current_engine returns the selected engine", T.const(cur_ is r), assume_after=False)
                if isinstance(r, LocalObj):
                    got = r.attrs.get("_var_type") if name == "numpy" else getattr(r.attrs.get("sym_type"), "name", None)
                    c.oblige("post", "the constructor arguments of use(name, *args) reach the engine", T.const(got == args[0]), assume_after=False)
        else:
            for bad in ("no-such-engine", "Numpy", ""):
                pkg.ns["engine"] = old
                try:
                    interp.call(fn, [bad], {})
                    c.oblige("post", f"use({bad!r}) is refused", T.FALSE, assume_after=False)
                except PyRaise as e:
                    c.oblige("post", f"use({bad!r}) raises EngineNotFoundError (got {e.exc.cls_name})", T.const(e.exc.cls_name == "EngineNotFoundError"), assume_after=False)
                c.oblige("post", f"use({bad!r}) leaves the selection unchanged", T.const(pkg.ns["engine"] is old), assume_after=False)
                before = old if prior == "clean" or not hidden else None
                if before is not None:
                    cur_ = interp.call(core.ns["get_current_engine"], [], {})
                    c.oblige("post", f"after the refused use({bad!r}) the current engine is still the previous one", T.const(cur_ is before), assume_after=False)
        avail = interp.call(core.ns["get_available_engines"], [], {})
        good = isinstance(avail, dict) and set(avail) == {"casadi", "numpy"} and all(
            avail[k].get("module") == f"sym_metanet.engines.{k}" and avail[k].get("class") == "Engine" for k in avail)
        c.oblige("post", "get_available_engines lists the numpy and casadi engines with their module and class", T.const(good), assume_after=False)

    return Task(f"{CORE}:use<{kind},history={prior}>", run, props=("C13",), func=f"{CORE}:use", config=f"{kind},{prior}")


def all_tasks():
    return [run_use(k, p) for k in ("instance", "name", "unknown") for p in ("clean", "stale")]
