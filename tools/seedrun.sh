#!/bin/sh
# development tool: every seeded change against its property's check (prover only, then full)
cd "$(dirname "$0")/.."
mkdir -p out
/venv/bin/python tools/seed_matrix.py --no-bounded > out/seed_matrix_prover.txt 2>&1
/venv/bin/python tools/seed_matrix.py > out/seed_matrix_full.txt 2>&1
