"""Replay of the verifier's own counterexample for a failed stratum-A obligation (an engine
primitive that does not refine EngineSpec): the solver's model of the failed query is turned
into concrete numpy / casadi.DM arguments, the real function is run natively under CPython and
compared with the spec value (EngineSpec evaluated on the same concrete arguments).

usage: replay_model.py <smt file of the failed query> <module> <prim> <config json> [--out file]
exit 1: the real function disagrees with the spec on the model's input (violation reproduced)
exit 0: it agrees (model not reproducible: reals vs floats, or a shape/safety obligation)
"""
import json
import math
import os
import re
import subprocess
import sys

HERE = os.path.dirname(os.path.dirname(os.path.abspath(__file__)))
sys.path.insert(0, HERE)
sys.setrecursionlimit(100000)

from pyvc import solver as S, terms as T, ctx as ctxmod  # noqa: E402
from pyvc.ctx import Ctx  # noqa: E402
from pyvc.values import Arr, mk_scalar, mk_vec  # noqa: E402


def query_values(smt_file, names):
    """values of the named terms in a model of the (satisfiable) query"""
    src = open(smt_file).read()
    src = src.replace("(check-sat)", "(check-sat)\n(get-value (" + " ".join(names) + "))")
    if "produce-models" not in src:
        src = "(set-option :produce-models true)\n" + src
    tmp = smt_file + ".replay.smt2"
    open(tmp, "w").write("(set-option :pp.decimal false)\n" + src)
    for solver in ("z3-4.8", "z3-5.1"):
        v, out, _ = S.run_solver(solver, tmp, 20)
        if v == "sat":
            vals = S.parse_get_value(out, len(names))
            if vals is not None:
                return dict(zip(names, vals))
    return None


def declared(smt_file):
    src = open(smt_file).read()
    consts = re.findall(r"\(declare-fun (\S+) \(\) (Real|Int)\)", src)
    funs = re.findall(r"\(declare-fun (\S+) \(Int\) Real\)", src)
    return consts, funs


def main():
    smt_file, module, prim, cfg_json = sys.argv[1:5]
    out_file = sys.argv[sys.argv.index("--out") + 1] if "--out" in sys.argv else None
    cfg = json.loads(cfg_json)
    dialect = {"numpy": "np", "casadi": "cs"}[module]
    consts, funs = declared(smt_file)
    lens = [c for c, s in consts if c.startswith("len.")]
    vals = query_values(smt_file, lens) if lens else {}
    if vals is None:
        print("no model")
        return 0
    n_of = {k[4:]: max(0, min(int(v), 6)) if v is not None else 1 for k, v in vals.items()}
    names = [c for c, s in consts if c.startswith("in.")]
    for f in funs:
        if f.startswith("in."):
            names += [f"({f} {i})" for i in range(7)]
    model = query_values(smt_file, names) if names else {}
    if model is None:
        print("no model")
        return 0
    import numpy as np
    import casadi as cs
    from tools import crosscheck as X
    from contracts import engine_spec as ES

    def num(x, default=1.0):
        try:
            return float(x)
        except Exception:  # noqa: BLE001
            return default

    native, conc = {}, {}
    for p, kind in cfg.items():
        scalar = num(model.get(f"in.{p}", model.get(f"(in.{p} 0)")))
        if kind == "N":
            native[p] = conc[p] = None
        elif kind.startswith("str:"):
            native[p] = conc[p] = kind[4:]
        elif kind == "P":
            native[p] = conc[p] = scalar
        elif kind.startswith("V:") or kind == "V1":
            n = n_of.get(kind[2:], 1) if kind.startswith("V:") else 1
            xs = [num(model.get(f"(in.{p} {i})")) for i in range(max(n, 1))][:max(n, 1)]
            k = {"np": "a1", "cs": "m"}[dialect]
            conc[p] = mk_vec(dialect, k, len(xs), lambda i, xs=xs: T.const(xs[T.cval(i)]) if T.is_const(i) and 0 <= T.cval(i) < len(xs) else T.const(0.0), ("in", p), symtype="DM" if dialect == "cs" else None)
            native[p] = np.array(xs) if dialect == "np" else cs.DM(xs)
        elif kind == "S":
            if dialect == "np":
                conc[p], native[p] = mk_scalar("np", "npscalar", scalar, ("in", p)), np.float64(scalar)
            else:
                conc[p], native[p] = mk_vec("cs", "m", 1, lambda i, x=scalar: T.const(x), ("in", p), symtype="DM"), cs.DM(scalar)
        elif kind == "A0":
            conc[p], native[p] = mk_scalar("np", "a0", scalar, ("in", p)), np.array(scalar)
        else:
            print("configuration kind not replayable:", kind)
            return 0
    rec = {"module": module, "primitive": prim, "configuration": cfg, "inputs": {k: (v if isinstance(v, (float, str, type(None))) else [float(x) for x in np.array(v).ravel()]) for k, v in native.items()}}
    try:
        got, _ = X.to_list(X.native_call(module, prim, dict(native)))
        rec["real_code_result"] = got
    except Exception as e:  # noqa: BLE001
        rec["real_code_raises"] = f"{type(e).__name__}: {e}"
        got = None
    # spec value on the same inputs
    c = Ctx([], lambda hyps, cond: bool(T.evaluate(cond, {})), name="replay")
    ctxmod.CUR = c
    c.where.append("replay:0")
    try:
        sv = ES.call_spec(prim, ES.SpecCtx(dialect, "assume", prim), [], dict(conc))
        if isinstance(sv, Arr):
            n = 1 if sv.is_scalar else T.cval(sv.n)
            exp = [float(T.evaluate(sv.at(T.const(i, T.INT)), {})) for i in range(n)]
        else:
            exp = [float(T.evaluate(T.lift(sv), {}))]
        rec["spec_value"] = exp
    except Exception as e:  # noqa: BLE001
        rec["spec_error"] = f"{type(e).__name__}: {e}"
        exp = None
    finally:
        ctxmod.CUR = None
    differs = got is None and exp is not None or (got is not None and exp is not None and (len(got) != len(exp) or any(
        not math.isclose(a, b, rel_tol=1e-9, abs_tol=1e-9) and not (math.isnan(a) and math.isnan(b)) for a, b in zip(got, exp))))
    rec["reproduced"] = bool(differs)
    if not differs:
        # the model may rely on the uninterpreted exp/log/pow symbols: search the configuration's
        # input space (boundary values first, then seeded random) for a concrete disagreement
        import random

        rng = random.Random(12345)
        pool = [0.0, 1.0, 0.01, 0.05, 2.5, 100.0]
        for trial in range(600):
            model2, native2 = X.concrete_inputs(cfg, dialect, rng)
            if trial < 200:  # boundary mixes
                for p_, kind in cfg.items():
                    if kind in ("P", "S", "A0", "V1") and rng.random() < 0.4:
                        x = rng.choice(pool)
                        if kind == "P":
                            model2[p_] = native2[p_] = x
                        elif kind == "S":
                            model2[p_], native2[p_] = (mk_scalar("np", "npscalar", x, ("in", p_)), np.float64(x)) if dialect == "np" else (mk_vec("cs", "m", 1, lambda i, x=x: T.const(x), ("in", p_), symtype="DM"), cs.DM(x))
                        elif kind == "V1":
                            model2[p_] = mk_vec(dialect, {"np": "a1", "cs": "m"}[dialect], 1, lambda i, x=x: T.const(x), ("in", p_), symtype="DM" if dialect == "cs" else None)
                            native2[p_] = np.array([x]) if dialect == "np" else cs.DM([x])
            try:
                import warnings

                with warnings.catch_warnings():
                    warnings.simplefilter("ignore")
                    g2, _ = X.to_list(X.native_call(module, prim, dict(native2)))
            except Exception as e:  # noqa: BLE001
                g2 = None
                g2err = f"{type(e).__name__}: {e}"
            c2 = Ctx([], lambda hyps, cond: bool(T.evaluate(cond, {})), name="replay")
            ctxmod.CUR = c2
            c2.where.append("replay:0")
            try:
                sv = ES.call_spec(prim, ES.SpecCtx(dialect, "assume", prim), [], dict(model2))
                if isinstance(sv, Arr):
                    n = 1 if sv.is_scalar else T.cval(sv.n)
                    e2 = [float(T.evaluate(sv.at(T.const(i, T.INT)), {})) for i in range(n)]
                else:
                    e2 = [float(T.evaluate(T.lift(sv), {}))]
            except Exception:  # noqa: BLE001
                continue  # outside the spec's domain (e.g. log of a non-positive number)
            finally:
                ctxmod.CUR = None
            bad = (g2 is None) or len(g2) != len(e2) or any(not math.isclose(a, b, rel_tol=1e-9, abs_tol=1e-9) for a, b in zip(g2, e2))
            if bad:
                rec["search"] = {"trial": trial, "inputs": {k: (v if isinstance(v, (float, int, str, type(None), list)) else [float(x) for x in np.array(v).ravel()]) for k, v in native2.items()},
                                 "real_code_result": g2 if g2 is not None else g2err, "spec_value": e2}
                rec["reproduced"] = True
                rec["reproduced_by"] = "seeded search over the configuration's inputs (the solver's model itself did not concretise)"
                differs = True
                break
    print(json.dumps(rec, indent=1, default=str))
    if out_file:
        json.dump(rec, open(out_file, "w"), indent=1, default=str)
    return 1 if differs else 0


if __name__ == "__main__":
    sys.exit(main())
