"""Differential cross-check of the verifier's own trusted base against the real libraries
(DESIGN.md 2.11 / 9): every engine primitive is run (a) by pyvc - the real source interpreted over
the assumed numpy / CasADi models - on *concrete* inputs, and (b) natively by CPython on real
numpy arrays / casadi.DM values; values, lengths and scalar-vs-vector shape class must agree.
This samples the assumed library contracts of pyvc/arrays.py and pyvc/libmodels and the
interpreter's model of Python on the code of stratum A.

usage: /venv/bin/python tools/crosscheck.py [--samples N] [--seed S]    exit 0 = no disagreement
"""
import argparse
import importlib
import math
import os
import random
import sys

HERE = os.path.dirname(os.path.dirname(os.path.abspath(__file__)))
sys.path.insert(0, HERE)
sys.setrecursionlimit(100000)

import numpy as np  # noqa: E402
import casadi as cs  # noqa: E402

from pyvc import arrays as A, terms as T, ctx as ctxmod  # noqa: E402
from pyvc.ctx import Ctx, Infeasible  # noqa: E402
from pyvc.interp import PyRaise  # noqa: E402
from pyvc.values import Arr, BoundMethod, Unsupported, mk_scalar, mk_vec  # noqa: E402
from contracts import engines_tasks as ET  # noqa: E402
from contracts.setup import make_interp  # noqa: E402


def concrete_inputs(cfg, dialect, rng):
    """(model values, native values) for one configuration"""
    lens = {}

    def ln(name):
        if name not in lens:
            lens[name] = rng.randint(1, 4)
        return lens[name]

    model, native = {}, {}
    for p, kind in cfg.items():
        val = lambda: round(rng.uniform(0.2, 3.0), 3)
        if kind == "N":
            model[p] = native[p] = None
        elif kind.startswith("str:"):
            model[p] = native[p] = kind[4:]
        elif kind == "P":
            x = val()
            model[p], native[p] = x, x
        elif kind.startswith("V:") or kind == "V1":
            n = ln(kind[2:]) if kind.startswith("V:") else 1
            xs = [val() for _ in range(n)]
            k = {"np": "a1", "cs": "m"}[dialect]
            model[p] = mk_vec(dialect, k, n, lambda i, xs=xs: T.const(xs[T.cval(i)]) if T.is_const(i) and 0 <= T.cval(i) < len(xs) else T.const(0.0), ("in", p),
                              symtype="DM" if dialect == "cs" else None)
            native[p] = np.array(xs) if dialect == "np" else cs.DM(xs)
        elif kind == "S":
            x = val()
            if dialect == "np":
                model[p] = mk_scalar("np", "npscalar", x, ("in", p))
                native[p] = np.float64(x)
            else:
                model[p] = mk_vec("cs", "m", 1, lambda i, x=x: T.const(x), ("in", p), symtype="DM")
                native[p] = cs.DM(x)
        elif kind == "A0":
            x = val()
            model[p] = mk_scalar("np", "a0", x, ("in", p))
            native[p] = np.array(x)
        elif kind.startswith("IL:"):
            _, K, n = kind.split(":")
            nn = ln(n)
            kk = rng.randint(0, nn)
            lens[K] = kk
            model[p] = native[p] = sorted(rng.sample(range(nn), kk))
        else:
            raise ValueError(kind)
    # lengths tied to an index list (v_ctrl of length K)
    for p, kind in cfg.items():
        if kind.startswith("V:") and kind[2:] in lens and isinstance(model[p], Arr) and T.cval(model[p].n) != lens[kind[2:]]:
            n = lens[kind[2:]]
            xs = [round(rng.uniform(0.2, 3.0), 3) for _ in range(n)]
            k = {"np": "a1", "cs": "m"}[dialect]
            model[p] = mk_vec(dialect, k, n, lambda i, xs=xs: T.const(xs[T.cval(i)]) if T.is_const(i) and 0 <= T.cval(i) < len(xs) else T.const(0.0), ("in", p),
                              symtype="DM" if dialect == "cs" else None)
            native[p] = np.array(xs) if dialect == "np" else cs.DM(xs)
    return model, native


def to_list(x):
    if isinstance(x, cs.DM):
        return [float(v) for v in np.array(x).ravel()], (x.shape[0] > 1)
    a = np.asarray(x, dtype=float)
    return [float(v) for v in a.ravel()], a.ndim >= 1


def native_call(module, prim, native):
    mod = importlib.import_module(f"sym_metanet.engines.{module}")
    if "." in prim:
        group, name = prim.split(".")
        f = getattr(getattr(mod, ET.CLS[group]), name)
        return f(**native)
    eng = mod.Engine()
    if prim == "vcat":
        return eng.vcat(*native.values())
    return getattr(eng, prim)(**native)


def model_call(module, dialect, prim, model):
    interp = make_interp()
    # conditions over transcendental constants (exp/log/pow of numbers) are decided by evaluation
    c = Ctx([], lambda hyps, cond: bool(T.evaluate(cond, {})), check_defined=False, name="crosscheck")
    ctxmod.CUR = c
    c.where.append("crosscheck:0")
    try:
        fn, ecls = ET.lookup_prim(interp, module, prim)
        interp.inline_only.add(fn.qualname)
        if ecls is not None:
            eng = interp.call(ecls, [], {})
            bm = BoundMethod(fn, eng)
            R = interp.call(bm, list(model.values()), {}) if prim == "vcat" else interp.call(bm, [], dict(model))
        else:
            R = interp.call(fn, [], dict(model))
        failed = [ob for ob in c.obligations if ob.goal is T.FALSE]
        if isinstance(R, Arr):
            n = T.cval(R.n) if not R.is_scalar else 1
            vals = [float(T.evaluate(R.at(T.const(i, T.INT)), {})) for i in range(n)]
            return vals, (not R.is_scalar and not (R.dialect == "cs" and n == 1)), failed
        return [float(T.evaluate(T.lift(R), {}))], False, failed
    finally:
        ctxmod.CUR = None


def main():
    ap = argparse.ArgumentParser()
    ap.add_argument("--samples", type=int, default=3)
    ap.add_argument("--seed", type=int, default=1)
    a = ap.parse_args()
    rng = random.Random(a.seed)
    n = bad = skipped = 0
    for module, dialect in (("numpy", "np"), ("casadi", "cs")):
        for prim, label, cfg in ET.configs(dialect):
            for _ in range(a.samples):
                model, native = concrete_inputs(cfg, dialect, rng)
                try:
                    mv, mvec, failed = model_call(module, dialect, prim, model)
                    merr = None
                except (PyRaise, Infeasible, Unsupported) as e:
                    mv, merr = None, f"{type(e).__name__}: {getattr(e, 'exc', e)}"
                try:
                    nv, nvec = to_list(native_call(module, prim, native))
                    nerr = None
                except Exception as e:  # noqa: BLE001
                    nv, nerr = None, f"{type(e).__name__}: {e}"
                n += 1
                if merr or nerr:
                    if bool(merr) != bool(nerr):
                        bad += 1
                        print(f"DISAGREE {module}:{prim}<{label}> model: {merr or 'ok'}  native: {nerr or 'ok'}")
                    else:
                        skipped += 1
                    continue
                ok = len(mv) == len(nv) and all(math.isclose(x, y, rel_tol=1e-9, abs_tol=1e-9) for x, y in zip(mv, nv))
                if dialect == "np" and mvec != nvec:
                    ok = False
                if not ok:
                    bad += 1
                    print(f"DISAGREE {module}:{prim}<{label}> model {mv} vec={mvec}  native {nv} vec={nvec}")
    print(f"crosscheck: {n} runs, {bad} disagreements, {skipped} runs where both sides raise")
    return 1 if bad else 0


if __name__ == "__main__":
    sys.exit(main())
