#!/bin/sh
# development tool: mutation campaign against the late, unbounded tasks alone
cd "$(dirname "$0")/.."
/venv/bin/python tools/mutation_campaign.py --max 60 --seed 21 --jobs 6 --files sym_metanet/engines/casadi.py \
  --no-ab --mods layout_tasks --only-funcs to_function,_filter_vars,_gather_inputs,_gather_outputs,_add_parameters_to_inputs,_add_flows_to_outputs --out out/mutation_campaign3.jsonl
/venv/bin/python tools/mutation_campaign.py --max 40 --seed 22 --jobs 6 --files sym_metanet/network.py \
  --no-ab --mods valid_agg_tasks --only-funcs is_valid --out out/mutation_campaign3.jsonl
/venv/bin/python tools/mutation_campaign.py --max 30 --seed 23 --jobs 6 --files sym_metanet/network.py \
  --no-ab --mods views_content_tasks,layout_tasks --only-funcs origins,origins_by_node,destinations,destinations_by_node,nodes_by_link,elements,states,next_states,actions,disturbances --out out/mutation_campaign3.jsonl
