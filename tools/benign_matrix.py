"""development tool: run every deductive task (strata A, B and all contract modules) on a scratch
copy of /repo with each behaviour-preserving refactoring applied; any `sat` is a false alarm of
the machinery, any undecided task a limit of the prover.
usage: benign_matrix.py <dir with */r*.diff> [filter]"""
import glob, json, os, shutil, subprocess, sys, tempfile, time
HERE = os.path.dirname(os.path.dirname(os.path.abspath(__file__)))
sys.path.insert(0, os.path.join(HERE, "tools"))
import mutation_campaign as MC
MC.MODS[:] = ["writers_tasks", "network_tasks", "core_tasks", "construct_tasks", "views_content_tasks", "valid_agg_tasks", "compile_tasks", "layout_tasks"]
src = sys.argv[1]
flt = sys.argv[2:] 
for diff in sorted(glob.glob(os.path.join(src, "*", "*.diff"))):
    name = os.path.basename(os.path.dirname(diff)) + "-" + os.path.basename(diff)[:-5]
    if flt and not any(f in name for f in flt):
        continue
    d = tempfile.mkdtemp(prefix="benign_")
    try:
        shutil.copytree("/repo/src", d + "/src")
        shutil.copytree("/repo/tests", d + "/tests")
        ap = subprocess.run(["patch", "-p1", "-s", "-i", diff], cwd=d, capture_output=True, text=True)
        if ap.returncode != 0:
            print(name, "| patch failed", ap.stdout[-200:], flush=True)
            continue
        t0 = time.time()
        res, bad = MC.run_checks(d + "/src", 12)
        sat = sum(v.get("sat", 0) for v in res.values() if isinstance(v, dict))
        und = sum(v.get("undecided_tasks", 0) + v.get("unknown", 0) + v.get("errors", 0) + (1 if "error" in v else 0) for v in res.values() if isinstance(v, dict))
        print(name, "|", "FALSE-ALARM" if sat else ("undecided" if und else "ok"), f"| sat={sat} undecided={und} | {time.time()-t0:.0f}s |", " ;; ".join(bad[:3])[:400], flush=True)
    finally:
        shutil.rmtree(d, ignore_errors=True)
