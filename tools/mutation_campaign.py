"""Mutation campaign against the prover (development tool, not a check): simple syntactic
mutants of the element layer / engines / Network.step are generated with `ast`, each is applied
to a scratch copy of /repo/src and the deductive tasks of strata A, B (+ writers, Network.step)
are run on it. A surviving mutant that changes behaviour points at a gap in the contracts.

usage: mutation_campaign.py [--max N] [--seed S] [--out file] [--files a.py,b.py]
"""
import argparse
import ast
import copy
import json
import os
import random
import shutil
import subprocess
import sys
import tempfile
import time

HERE = os.path.dirname(os.path.dirname(os.path.abspath(__file__)))
REPO_SRC = os.environ.get("MUT_SRC", "/repo/src")
FILES = ["sym_metanet/blocks/nodes.py", "sym_metanet/blocks/links.py", "sym_metanet/blocks/origins.py", "sym_metanet/blocks/destinations.py",
         "sym_metanet/blocks/base.py", "sym_metanet/engines/numpy.py", "sym_metanet/engines/casadi.py", "sym_metanet/network.py"]
SKIP_FUNCS = {"to_function", "_filter_vars", "_gather_inputs", "_gather_outputs", "_add_parameters_to_inputs", "_add_flows_to_outputs", "is_valid",
              "__str__", "__repr__", "add_path", "var_type"}


class Mutator(ast.NodeTransformer):
    """applies the k-th applicable mutation (counting in traversal order)"""

    def __init__(self, target):
        self.target, self.count, self.desc = target, 0, None
        self.func = []

    def hit(self, desc, lineno):
        self.count += 1
        if self.count - 1 == self.target:
            self.desc = f"line {lineno}: {desc}"
            return True
        return False

    only = None

    def visit_FunctionDef(self, node):
        if self.only is not None:
            if node.name not in self.only and not self.func:
                return node
        elif node.name in SKIP_FUNCS:
            return node
        self.func.append(node.name)
        r = self.generic_visit(node)
        self.func.pop()
        return r

    def visit_Subscript(self, node):
        self.generic_visit(node)
        if not self.func:
            return node
        s = node.slice
        if isinstance(s, ast.Constant) and s.value == 0 and self.hit("[0] -> [-1]", node.lineno):
            node.slice = ast.UnaryOp(op=ast.USub(), operand=ast.Constant(1))
        elif isinstance(s, ast.UnaryOp) and isinstance(s.op, ast.USub) and isinstance(s.operand, ast.Constant) and s.operand.value == 1 and self.hit("[-1] -> [0]", node.lineno):
            node.slice = ast.Constant(0)
        elif isinstance(s, ast.Slice):
            if s.lower is None and s.upper is not None and self.hit("[:-1] -> [1:]", node.lineno):
                node.slice = ast.Slice(lower=ast.Constant(1), upper=None, step=None)
            elif s.upper is None and s.lower is not None and self.hit("[1:] -> [:-1]", node.lineno):
                node.slice = ast.Slice(lower=None, upper=ast.UnaryOp(op=ast.USub(), operand=ast.Constant(1)), step=None)
        return node

    def visit_BinOp(self, node):
        self.generic_visit(node)
        if not self.func:
            return node
        swaps = {ast.Add: ast.Sub, ast.Sub: ast.Add, ast.Mult: ast.Div, ast.Div: ast.Mult}
        t = type(node.op)
        if t in swaps and self.hit(f"{t.__name__} -> {swaps[t].__name__}", node.lineno):
            node.op = swaps[t]()
        return node

    def visit_Compare(self, node):
        self.generic_visit(node)
        if not self.func or len(node.ops) != 1:
            return node
        swaps = {ast.Eq: ast.NotEq, ast.NotEq: ast.Eq, ast.Gt: ast.GtE, ast.GtE: ast.Gt, ast.Lt: ast.LtE, ast.LtE: ast.Lt, ast.Is: ast.IsNot, ast.IsNot: ast.Is, ast.In: ast.NotIn, ast.NotIn: ast.In}
        t = type(node.ops[0])
        if t in swaps and self.hit(f"{t.__name__} -> {swaps[t].__name__}", node.lineno):
            node.ops = [swaps[t]()]
        return node

    def visit_Call(self, node):
        self.generic_visit(node)
        if not self.func:
            return node
        # swap two adjacent positional arguments
        for k in range(len(node.args) - 1):
            if not isinstance(node.args[k], ast.Starred) and not isinstance(node.args[k + 1], ast.Starred):
                if self.hit(f"swap arguments {k} and {k + 1} of {ast.unparse(node.func)}", node.lineno):
                    node.args[k], node.args[k + 1] = node.args[k + 1], node.args[k]
                    return node
        # drop a keyword argument
        for k, kw in enumerate(node.keywords):
            if kw.arg is not None and self.hit(f"drop keyword {kw.arg} of {ast.unparse(node.func)}", node.lineno):
                del node.keywords[k]
                return node
        return node

    def visit_Attribute(self, node):
        self.generic_visit(node)
        if not self.func:
            return node
        fam = {"rho_crit": "rho_max", "rho_max": "rho_crit", "lam": "L", "L": "lam", "states": "actions", "v_free": "a"}
        if isinstance(node.ctx, ast.Load) and node.attr in fam and self.hit(f".{node.attr} -> .{fam[node.attr]}", node.lineno):
            node.attr = fam[node.attr]
        return node

    def visit_Constant(self, node):
        if not self.func:
            return node
        if isinstance(node.value, str) and node.value in ("rho", "v", "w", "d", "r", "q", "in", "out") and self.hit(f"'{node.value}' -> other key", node.lineno):
            alt = {"rho": "v", "v": "rho", "w": "d", "d": "w", "r": "q", "q": "r", "in": "out", "out": "in"}
            return ast.copy_location(ast.Constant(alt[node.value]), node)
        return node

    def visit_If(self, node):
        self.generic_visit(node)
        if self.func and self.hit("negate if condition", node.lineno):
            node.test = ast.UnaryOp(op=ast.Not(), operand=node.test)
        return node


def count_mutants(tree):
    m = Mutator(-1)
    m.visit(copy.deepcopy(tree))
    return m.count


MODS = ["writers_tasks", "network_tasks"]
RUN_AB = True


def run_checks(src_dir, jobs):
    scratch = tempfile.mkdtemp(prefix="mutout_")
    try:
        return _run_checks(src_dir, jobs, scratch)
    finally:
        shutil.rmtree(scratch, ignore_errors=True)


def _run_checks(src_dir, jobs, scratch):
    env = dict(os.environ, VERIF_REPO=os.path.dirname(src_dir), RUN_MOD_OUT=os.path.join(scratch, "mod"), RUN_MOD_JOBS=str(jobs))
    out = {}
    t0 = time.time()
    bad = []
    if RUN_AB:
        p = subprocess.run(["/venv/bin/python", os.path.join(HERE, "runner.py"), "--stratum", "AB", "--jobs", str(jobs), "--out", os.path.join(scratch, "ab")],
                           capture_output=True, text=True, env=env, cwd=HERE, timeout=1800)
        line = [l for l in p.stdout.splitlines() if l.startswith("{")]
        out["AB"] = json.loads(line[0].split("} ")[0] + "}") if line else {"error": p.stdout[-300:] + p.stderr[-300:]}
        bad = [l.strip()[:160] for l in p.stdout.splitlines() if l.strip().startswith(("sat", "unknown", "UNDECIDED"))][:3]
    for mod in MODS:
        q = subprocess.run(["/venv/bin/python", os.path.join(HERE, "tools", "run_mod.py"), mod], capture_output=True, text=True, env=env, cwd=HERE, timeout=1800)
        line = [l for l in q.stdout.splitlines() if l.startswith("{")]
        out[mod] = json.loads(line[0].split("} ")[0] + "}") if line else {"error": q.stdout[-300:]}
        bad += [l.strip()[:160] for l in q.stdout.splitlines() if l.strip().startswith(("sat", "unknown", "UNDECIDED"))][:2]
    out["wall"] = round(time.time() - t0)
    return out, bad


def verdict(res):
    sat = sum(v.get("sat", 0) for v in res.values() if isinstance(v, dict))
    und = sum(v.get("undecided_tasks", 0) + v.get("unknown", 0) + v.get("errors", 0) + (1 if "error" in v else 0) for v in res.values() if isinstance(v, dict))
    return "killed" if sat else ("undecided" if und else "SURVIVED")


def main():
    ap = argparse.ArgumentParser()
    ap.add_argument("--max", type=int, default=60)
    ap.add_argument("--seed", type=int, default=1)
    ap.add_argument("--jobs", type=int, default=8)
    ap.add_argument("--out", default=os.path.join(HERE, "out", "mutation_campaign.jsonl"))
    ap.add_argument("--files", default=",".join(FILES))
    ap.add_argument("--tests", action="store_true", help="also run the repository tests on each mutant")
    ap.add_argument("--mods", default=",".join(MODS), help="contracts modules whose tasks are run on each mutant")
    ap.add_argument("--no-ab", action="store_true", help="do not run strata A and B")
    ap.add_argument("--skip-funcs", default=None, help="replace the default list of functions that are not mutated")
    ap.add_argument("--only-funcs", default="", help="mutate only inside these functions (overrides the skip list)")
    a = ap.parse_args()
    MODS[:] = [m for m in a.mods.split(",") if m]
    globals()["RUN_AB"] = not a.no_ab
    if a.skip_funcs is not None:
        SKIP_FUNCS.clear()
        SKIP_FUNCS.update(x for x in a.skip_funcs.split(",") if x)
    if a.only_funcs:
        Mutator.only = set(a.only_funcs.split(","))
    rng = random.Random(a.seed)
    cands = []
    for f in a.files.split(","):
        tree = ast.parse(open(os.path.join(REPO_SRC, f)).read())
        for k in range(count_mutants(tree)):
            cands.append((f, k))
    rng.shuffle(cands)
    os.makedirs(os.path.dirname(a.out), exist_ok=True)
    with open(a.out, "a") as log:
        for f, k in cands[: a.max]:
            tree = ast.parse(open(os.path.join(REPO_SRC, f)).read())
            m = Mutator(k)
            new = m.visit(tree)
            ast.fix_missing_locations(new)
            d = tempfile.mkdtemp(prefix="mut_")
            try:
                shutil.copytree(REPO_SRC, d + "/src")
                open(os.path.join(d, "src", f), "w").write(ast.unparse(new))
                try:
                    compile(open(os.path.join(d, "src", f)).read(), f, "exec")
                except SyntaxError:
                    continue
                tests = None
                if a.tests:
                    t = subprocess.run(["/venv/bin/python", "-m", "pytest", "-q", "-x", "-p", "no:cacheprovider", "/repo/tests/test_blocks.py", "/repo/tests/test_engines.py", "/repo/tests/test_network.py"],
                                       capture_output=True, text=True, env=dict(os.environ, PYTHONPATH=d + "/src"), cwd="/repo", timeout=600)
                    tests = "pass" if t.returncode == 0 else "fail"
                res, bad = run_checks(d + "/src", a.jobs)
                rec = {"file": f, "mutation": m.desc, "verdict": verdict(res), "tests": tests, "first": bad[:2], "wall": res.get("wall")}
                log.write(json.dumps(rec) + "\n")
                log.flush()
                print(rec["verdict"], f, m.desc, tests, (bad[:1] or [""])[0][:110], flush=True)
            finally:
                shutil.rmtree(d, ignore_errors=True)


if __name__ == "__main__":
    main()
