"""developer helper: run all tasks of one contracts module, print non-unsat results"""
import sys, json, time, os, tempfile
HERE = os.path.dirname(os.path.dirname(os.path.abspath(__file__)))
sys.path.insert(0, HERE)
import runner
OUT = os.environ.get("RUN_MOD_OUT") or os.path.join(HERE, "out", "mod")
mod = __import__("contracts." + sys.argv[1], fromlist=["all_tasks"])
flt = sys.argv[2] if len(sys.argv) > 2 else ""
tasks = [t for t in mod.all_tasks() if flt in t.name]
t0 = time.time()
recs = runner.run_tasks(tasks, OUT, timeout=10, jobs=int(os.environ.get("RUN_MOD_JOBS", "16")))
print(json.dumps(runner.summarize(recs)), f"wall={time.time()-t0:.1f}")
for r in recs:
    bad = [x for x in r["results"] if x["verdict"] != "unsat"]
    if r["error"] or r["undecided"] or bad:
        print("==", r["task"], "paths", r["paths"])
        if r["error"]: print(r["error"][-1500:])
        if r["undecided"]: print("  UNDECIDED:", r["undecided"])
        for x in bad: print("  ", x["verdict"], x["id"][-110:], x["solver"], x["time_s"], x.get("file"))
for r in recs:
    dc = [pi for pi, v in r.get("cover", []) if v == "unsat"]
    if dc:
        print("DEAD", r["task"][-100:], dc, [r["decisions"][pi] for pi in dc if pi < len(r.get("decisions", []))][:2])
