"""run the check of each seeded change's property on a scratch copy with the change applied;
prints one line per seed: exit status and the first failed obligation (or undecided reason)"""
import json, os, shutil, subprocess, sys, tempfile, time
HERE = os.path.dirname(os.path.dirname(os.path.abspath(__file__)))
SEEDS = os.path.join(HERE, "seeded")
extra = sys.argv[1:]  # e.g. --no-bounded
only = [a for a in extra if not a.startswith("--")]
flags = [a for a in extra if a.startswith("--")]
rows = []
SUFFIX = f"_seed{os.getpid()}"  # (several matrices may run side by side)
for sid in sorted(os.listdir(SEEDS)):
    if only and not any(o in sid for o in only):
        continue
    meta = json.load(open(os.path.join(SEEDS, sid, "meta.json")))
    prop = meta["property"]
    d = tempfile.mkdtemp(prefix="seedrun_")
    try:
        shutil.copytree("/repo/src", d + "/src")
        ap = subprocess.run(["patch", "-p1", "-s", "-i", os.path.join(SEEDS, sid, "patch.diff")], cwd=d, capture_output=True, text=True)
        if ap.returncode != 0:
            rows.append((sid, prop, "patch failed", ""))
            continue
        t0 = time.time()
        p = subprocess.run([os.path.join(HERE, "check"), prop, "--tier", "quick"] + flags, env=dict(os.environ, VERIF_REPO=d, VERIF_NO_EVIDENCE="1", VERIF_OUT_SUFFIX=SUFFIX), capture_output=True, text=True, timeout=1800)
        out = p.stdout
        first = ""
        lines = out.splitlines()
        for i, l in enumerate(lines):
            if l.startswith("VIOLATION"):
                first = (lines[i + 1].strip() if i + 1 < len(lines) else "")[:230]
                if "no-failing-input-found" in l:
                    first += "  [no-failing-input-found]"
                break
            if "UNDECIDED" in l and not first:
                first = l.strip()[:230]
        rows.append((sid, prop, f"exit {p.returncode}", first, f"{time.time()-t0:.0f}s"))
        print(*rows[-1], sep=" | ", flush=True)
    finally:
        shutil.rmtree(d, ignore_errors=True)
        for tier in ("quick", "thorough"):
            shutil.rmtree(os.path.join(HERE, "out", f"{prop}_{tier}{SUFFIX}"), ignore_errors=True)
