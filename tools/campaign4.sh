#!/bin/sh
# development tool: second round over the element layer / engines / Network.step and construction
cd "$(dirname "$0")/.."
mkdir -p out
/venv/bin/python tools/mutation_campaign.py --max 90 --seed 31 --jobs 6 --out out/mutation_campaign4.jsonl
/venv/bin/python tools/mutation_campaign.py --max 50 --seed 32 --jobs 6 --files sym_metanet/network.py,sym_metanet/views.py \
  --no-ab --mods construct_tasks,views_content_tasks,valid_agg_tasks,network_tasks --skip-funcs __str__,__repr__ --out out/mutation_campaign4.jsonl
