"""developer helper: run one task inline and list its slowest obligations"""
import sys, time, collections
sys.path.insert(0, '/verif')
sys.setrecursionlimit(100000)
from contracts.setup import make_interp
from pyvc import vc
name = sys.argv[1]
strata = sys.argv[2] if len(sys.argv) > 2 else "B"
tasks = []
if "A" in strata:
    from contracts import engines_tasks; tasks += engines_tasks.all_tasks()
if "B" in strata:
    from contracts import blocks_tasks; tasks += blocks_tasks.all_tasks()
if strata not in ("A", "B", "AB"):
    mod = __import__("contracts." + strata, fromlist=["all_tasks"])
    tasks = mod.all_tasks()
ts = [t for t in tasks if name in t.name]
t0 = time.time()
ctxs, und, orc = vc.explore(ts[0], make_interp, "/verif/out/prof")
print("explore paths", len(ctxs), "undecided", und, "feas calls", orc.n, round(orc.time, 1), "wall", round(time.time() - t0, 1), flush=True)
t0 = time.time()
res = vc.discharge(ts[0], ctxs, "/verif/out/prof/d", timeout=10)
print("discharge", len(res), round(time.time() - t0, 1))
for r in sorted(res, key=lambda r: -r.time)[:12]:
    print(round(r.time, 2), r.verdict, r.id[-70:], r.meta.get('encoding'), r.file)
print(collections.Counter(r.verdict for r in res))
if len(sys.argv) > 3:
    for pi in map(int, sys.argv[3].split(",")):
        print("path", pi, [(w.split(":")[-1], y, d) for (w, y, d) in ctxs[pi].decision_log])
