"""writes MANIFEST.json from propmap.PROPS (claimed checks) and properties.jsonl (the rest: not_applicable)"""
import json, sys, os
sys.path.insert(0, '/verif')
from propmap import PROPS
props = [json.loads(l) for l in open('/verif/properties.jsonl')]
NOT_YET = {}
try:
    NOT_YET = json.load(open('/verif/tools/not_applicable.json'))
except FileNotFoundError:
    pass
checks = []
for p in props:
    pid = p["id"]
    if pid not in PROPS or pid in NOT_YET:
        continue
    cfg = PROPS[pid]
    checks.append({
        "property_id": pid,
        "quick_cmd": f"./check {pid} --tier quick",
        "thorough_cmd": f"./check {pid} --tier thorough",
        "evidence_file": f"/verif/evidence/{pid}.json",
        "replay_cmd_template": "./check replay {path}",
        "engine": "pyvc",
        "level_claimed": {"category": cfg["level"], "text": cfg["explanation"], "design_ref": f"DESIGN.md section 3 ({pid}), section 9"},
        "level_note": "; ".join(cfg.get("trusted_base", []) + ["pyvc's model of Python and of numpy/CasADi/networkx (assumed contracts)", "reals for floats", "solvers z3 4.8 / z3 5.1 / cvc5 1.0"]) ,
        "technique": cfg.get("technique", "contract-based deductive verification: sidecar contracts on the real functions, VCs generated from the AST by pyvc, discharged by z3/cvc5 (bounded stand-in reported separately)"),
    })
na = []
for p in props:
    pid = p["id"]
    if pid in PROPS and pid not in NOT_YET:
        continue
    na.append({"property_id": pid, "reason": NOT_YET.get(pid, "contracts for the functions this property depends on are not discharged yet; no check is claimed (see DESIGN.md section 9)")})
m = {
    "version": 1,
    "setup_cmd": "true",
    "hooks": {"guard": "SYM_METANET_VERIF", "enable": "no hooks: contracts are sidecar files under /verif; /repo is read, never instrumented",
              "baseline_off_cmd": "cd /repo && /venv/bin/python -m pytest -ra -q -p no:cacheprovider --timeout=900 --continue-on-collection-errors",
              "source_commits": [], "add_only": True},
    "engines": [{"name": "pyvc", "path": "/verif/pyvc", "serves_properties": [c["property_id"] for c in checks],
                 "kind_free_text": "symbolic executor / VC generator over the real Python AST with sidecar contracts; z3 4.8.12, z3 5.1.0, cvc5 1.0.3 as subprocesses; Lean 4 + Mathlib for analytic lemmas"},
                {"name": "bounded", "path": "/verif/bounded", "serves_properties": [c["property_id"] for c in checks],
                 "kind_free_text": "bounded stand-in: run-time check of the same specifications on the real code over an enumerated scope (never counted as proved); also the source of concrete failing inputs for replay"}],
    "checks": checks,
    "not_applicable": na,
    "notes": "see DESIGN.md; known findings in known_findings.json; seeded changes in seeded/",
}
json.dump(m, open('/verif/MANIFEST.json', 'w'), indent=1)
print(len(checks), "checks,", len(na), "not applicable")
