"""confirm each incoming seeded change on a scratch copy of /repo and file it under /verif/seeded/<id>/"""
import json, os, shutil, subprocess, sys, tempfile
PY = "/venv/bin/python"
INC = "/verif/seeded_incoming"
OUT = "/verif/seeded"
TESTS = ["-m", "pytest", "-q", "-p", "no:cacheprovider", "tests/test_blocks.py", "tests/test_engines.py", "tests/test_network.py"]
head = subprocess.run(["git", "-C", "/repo", "rev-parse", "--short", "HEAD"], capture_output=True, text=True).stdout.strip()


def run(cmd, cwd, env):
    p = subprocess.run(cmd, cwd=cwd, env=env, capture_output=True, text=True, timeout=900)
    return p.returncode, (p.stdout + p.stderr)[-600:]


rows = []
for prop in sorted(os.listdir(INC)):
    for k in (1, 2, 3, 4, 5, 6, 7):
        d = os.path.join(INC, prop)
        diff, demo, meta = (os.path.join(d, f"m{k}{s}") for s in (".diff", "_demo.py", "_meta.json"))
        if not os.path.exists(diff):
            continue
        sid = f"{prop}-m{k}"
        if len(sys.argv) > 1 and not any(a in sid for a in sys.argv[1:]):
            continue
        scratch = tempfile.mkdtemp(prefix="seed_")
        try:
            subprocess.run(["git", "-C", "/repo", "worktree", "add", "-q", "--detach", scratch + "/wt", "HEAD"], check=True)
            wt = scratch + "/wt"
            env = dict(os.environ, PYTHONPATH=wt + "/src")
            rc_demo_clean, out_clean = run([PY, demo], wt, env)
            ap = subprocess.run(["git", "-C", wt, "apply", diff], capture_output=True, text=True)
            if ap.returncode != 0:
                rows.append((sid, "patch does not apply on current HEAD", ""))
                continue
            rc_tests, out_tests = run([PY] + TESTS, wt, env)
            rc_demo_mut, out_mut = run([PY, demo], wt, env)
            ok = rc_demo_clean == 0 and rc_tests == 0 and rc_demo_mut != 0
            rows.append((sid, "confirmed" if ok else f"NOT confirmed (demo clean rc={rc_demo_clean}, tests rc={rc_tests}, demo changed rc={rc_demo_mut})", out_tests.strip().splitlines()[-1] if out_tests.strip() else ""))
            if ok:
                dst = os.path.join(OUT, sid)
                os.makedirs(dst, exist_ok=True)
                shutil.copy(diff, os.path.join(dst, "patch.diff"))
                shutil.copy(demo, os.path.join(dst, "demo.py"))
                m = json.load(open(meta))
                m2 = {"id": sid, "property": m.get("property", prop), "summary": m.get("summary"), "needs": m.get("needs"), "files": m.get("files"),
                      "confirmed_on": head,
                      "ran": [f"git apply patch.diff on a scratch worktree of /repo@{head}",
                              f"pytest tests/test_blocks.py tests/test_engines.py tests/test_network.py with the change: {out_tests.strip().splitlines()[-1] if out_tests.strip() else rc_tests}",
                              f"demo.py with the change: exit {rc_demo_mut}; without: exit {rc_demo_clean}"],
                      "author": "independent sub-agent given only the property text and a scratch worktree"}
                json.dump(m2, open(os.path.join(dst, "meta.json"), "w"), indent=1)
        finally:
            subprocess.run(["git", "-C", "/repo", "worktree", "remove", "--force", scratch + "/wt"], capture_output=True)
            shutil.rmtree(scratch, ignore_errors=True)
for r in rows:
    print(*r, sep=" | ")
