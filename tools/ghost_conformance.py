"""Conformance sampler for the assumed ghost view (contracts/ghost.py) and cross-check of the
symbolic METANET specification (contracts/view_spec.py) against the real code:

 1. every well-formedness / validity fact the ghost view instantiates (node_facts, in/out edge
    facts, link_facts, origin/destination facts) is evaluated on real valid networks, with the
    ghost functions interpreted by the real `Network` lookups - each must be true;
 2. the view_spec terms for the next density / speed of every segment and the next queue of every
    origin - the very terms the prover shows the code equal to - are evaluated under that
    interpretation and compared with what the real code computes (NumPy `Network.step`).

A disagreement means an assumed contract or the spec transcription is wrong (exit 1).
usage: /venv/bin/python tools/ghost_conformance.py [--seed S] [--budget seconds]
"""
import argparse
import math
import os
import sys
import time

HERE = os.path.dirname(os.path.dirname(os.path.abspath(__file__)))
sys.path.insert(0, HERE)
sys.path.insert(0, os.path.join(HERE, "bounded"))
sys.setrecursionlimit(100000)

import numpy as np  # noqa: E402

from pyvc import terms as T, ctx as ctxmod  # noqa: E402
from pyvc.arrays import BV  # noqa: E402
from pyvc.ctx import Ctx  # noqa: E402
from contracts import ghost as G, view_spec as V  # noqa: E402
from contracts.setup import make_interp  # noqa: E402
import netgen  # noqa: E402
from sym_metanet.engines.numpy import Engine as NpEngine  # noqa: E402


def evaluate(t, env, ufs):
    """T.evaluate plus prefix sums"""
    import pyvc.terms as TT

    cache = {}

    def go(t):
        if t.op == "sum":
            body, n = t.args
            nn = int(go(n))
            tot = 0.0
            for i in range(nn):
                tot += float(evaluate(T.substitute(body, {BV: T.const(i, T.INT)}), env, ufs))
            return tot
        if t.op in ("const", "var") or not any(isinstance(a, TT.Term) and _has_sum(a) for a in t.args):
            return TT.evaluate(t, env, ufs)
        # rebuild bottom-up around sums
        op, a = t.op, t.args
        if op == "ite":
            return go(a[1]) if go(a[0]) else go(a[2])
        vals = [go(x) for x in a]
        if op == "+":
            return sum(vals)
        if op == "*":
            r = 1.0
            for v in vals:
                r *= v
            return r
        if op == "/":
            return vals[0] / vals[1]
        if op == "<":
            return vals[0] < vals[1]
        if op == "<=":
            return vals[0] <= vals[1]
        if op == "=":
            return vals[0] == vals[1]
        if op == "not":
            return not vals[0]
        if op == "and":
            return all(vals)
        if op == "or":
            return any(vals)
        if op == "to_real":
            return vals[0]
        if op.startswith("uf:"):
            nm = op[3:]
            if nm == "uexp":
                return math.exp(vals[0])
            if nm == "ulog":
                return math.log(vals[0])
            if nm == "upow":
                return 0.0 if vals[0] == 0 and vals[1] > 0 else math.pow(vals[0], vals[1])
            return ufs[nm](*vals)
        raise ValueError(op)

    return go(t)


_sum_cache = {}


def _has_sum(t):
    r = _sum_cache.get(t.uid)
    if r is None:
        r = t.op == "sum" or any(isinstance(a, T.Term) and _has_sum(a) for a in t.args)
        _sum_cache[t.uid] = r
    return r


class Interp:
    """ghost functions interpreted by a real network"""

    def __init__(self, net):
        self.net = net
        self.objs = []
        self.idx = {}
        for o in list(net.nodes) + [l for _, _, l in net.links] + list(net.origins) + list(net.destinations):
            if id(o) not in self.idx:
                self.idx[id(o)] = len(self.objs) + 1
                self.objs.append(o)

    def ref(self, o):
        return self.idx[id(o)]

    def obj(self, r):
        r = int(r)
        return self.objs[r - 1] if 1 <= r <= len(self.objs) else None

    def ufs(self):
        net, ref, obj = self.net, self.ref, self.obj
        import sym_metanet as sm

        def is_node(o):
            return isinstance(o, sm.Node) and o in net.nodes

        def ins(r):
            o = obj(r)
            return list(net.in_links(o)) if is_node(o) else []

        def outs(r):
            o = obj(r)
            return list(net.out_links(o)) if is_node(o) else []

        def pick(lst, j, k):
            j = int(j)
            return ref(lst[j][k]) if 0 <= j < len(lst) else 0

        links = [l for _, _, l in net.links]

        def is_link(o):
            return any(o is l for l in links)

        def fld(name):
            def f(r):
                o = obj(r)
                v = getattr(o, name, None)
                return float(v) if v is not None and not isinstance(v, (list, str)) else 1.0
            return f

        def state(group, key):
            def f(r, i=0):
                o = obj(r)
                d = getattr(o, group, None)
                if not d or key not in d:
                    return 0.0
                a = np.ravel(np.asarray(d[key], dtype=float))
                i = int(i)
                return float(a[i]) if 0 <= i < len(a) else 0.0
            return f

        def vsl(r):
            o = obj(r)
            return list(getattr(o, "vsl", []))

        def feq(r):
            o = obj(r)
            t = getattr(o, "flow_eq_type", None)
            name = type(o).__name__
            return G.FEQ_OPTIONS[name].index(t) if name in G.FEQ_OPTIONS and t in G.FEQ_OPTIONS[name] else 0

        u = {
            "cls": lambda r: G.TAGS.get(type(obj(r)).__name__, 0),
            "n_in": lambda r: len(ins(r)), "n_out": lambda r: len(outs(r)),
            "in_link": lambda r, j: pick(ins(r), j, 2), "in_node": lambda r, j: pick(ins(r), j, 0),
            "out_link": lambda r, j: pick(outs(r), j, 2), "out_node": lambda r, j: pick(outs(r), j, 1),
            "has_origin": lambda r: obj(r) in net.origins_by_node if is_node(obj(r)) else False,
            "origin_of": lambda r: ref(net.origins_by_node[obj(r)]) if is_node(obj(r)) and obj(r) in net.origins_by_node else 0,
            "has_dest": lambda r: obj(r) in net.destinations_by_node if is_node(obj(r)) else False,
            "dest_of": lambda r: ref(net.destinations_by_node[obj(r)]) if is_node(obj(r)) and obj(r) in net.destinations_by_node else 0,
            "up": lambda r: ref(net.nodes_by_link[obj(r)][0]) if is_link(obj(r)) else 0,
            "down": lambda r: ref(net.nodes_by_link[obj(r)][1]) if is_link(obj(r)) else 0,
            "out_idx": lambda r: [x[2] for x in net.out_links(net.nodes_by_link[obj(r)][0])].index(obj(r)) if is_link(obj(r)) else -1,
            "in_idx": lambda r: [x[2] for x in net.in_links(net.nodes_by_link[obj(r)][1])].index(obj(r)) if is_link(obj(r)) else -1,
            "node_of_origin": lambda r: ref(net.origins[obj(r)]) if obj(r) in net.origins else 0,
            "node_of_dest": lambda r: ref(net.destinations[obj(r)]) if obj(r) in net.destinations else 0,
            "link_in_net": lambda r: is_link(obj(r)),
            "origin_in_net": lambda r: obj(r) in net.origins,
            "dest_in_net": lambda r: obj(r) in net.destinations,
            "f.N": lambda r: int(getattr(obj(r), "N", 1) or 1),
            "f.flow_eq_type": feq,
            "st.rho": state("states", "rho"), "st.v": state("states", "v"), "act.v_ctrl": state("actions", "v_ctrl"),
            "vsl.len": lambda r: len(vsl(r)),
            "vsl.at": lambda r, k: vsl(r)[int(k)] if 0 <= int(k) < len(vsl(r)) else -7,
            "vsl.pos": lambda r, j: vsl(r).index(int(j)) if int(j) in vsl(r) else -1,
        }
        for f in ("lam", "L", "rho_max", "rho_crit", "v_free", "a", "turnrate", "alpha", "C"):
            u["f." + f] = fld(f)
        for k, (grp, key) in {"w": ("states", "w"), "d": ("disturbances", "d"), "r": ("actions", "r"), "q": ("actions", "q"), "v_ctrl": ("actions", "v_ctrl")}.items():
            u["sc." + k] = state(grp, key)
            u["sct." + k] = lambda r: 1
        return u


def ghost_axioms(interp_sym, what, var):
    """axiom terms the ghost view instantiates for one object variable"""
    c = Ctx([], None, name="conformance")
    ctxmod.CUR = c
    c.where.append("conformance:0")
    try:
        net = G.GhostNet(interp_sym)
        if what == "node":
            net.node_facts(var)
            j = T.var("j", T.INT)
            net.in_edge_facts(var, j)
            net.out_edge_facts(var, j)
        elif what == "link":
            c.axiom(T.implies(G.link_in_net(var), T.TRUE))
            net.link_facts(var)
        elif what == "origin":
            net.origin_facts(var)
        else:
            net.dest_facts(var)
        return list(c.axioms.values())
    finally:
        ctxmod.CUR = None


def main():
    ap = argparse.ArgumentParser()
    ap.add_argument("--seed", type=int, default=1)
    ap.add_argument("--budget", type=float, default=60.0)
    a = ap.parse_args()
    rng = np.random.default_rng(a.seed)
    interp_sym = make_interp()
    x = T.var("x", T.REF)
    AX = {k: ghost_axioms(interp_sym, k, x) for k in ("node", "link", "origin", "dest")}
    t0 = time.time()
    nets = facts = values = bad = 0
    recipes = list(netgen.corner_networks())
    k = 0
    while time.time() - t0 < a.budget:
        if k < len(recipes):
            b = netgen.build_from_recipe(recipes[k])
        else:
            b = netgen.random_valid_network(rng)
        k += 1
        net = b.net
        if not net.is_valid()[0]:
            continue
        nets += 1
        init = netgen.random_state(rng, b, "interior")
        for delta, phi in ((False, False), (True, True)):
            params = netgen.model_params(delta=delta, phi=phi)
            try:
                net.step(init_conditions=init, engine=NpEngine(), **params)
            except Exception as e:  # noqa: BLE001
                print("real code raised on a valid network:", type(e).__name__, e)
                bad += 1
                continue
            I = Interp(net)
            ufs = I.ufs()
            # ---- 1. ghost facts
            if not delta:
                for what, objs in (("node", list(net.nodes)), ("link", [l for _, _, l in net.links]), ("origin", list(net.origins)), ("dest", list(net.destinations))):
                    for o in objs:
                        for jj in range(0, 4):
                            env = {"x": I.ref(o), "j": jj}
                            for ax in AX[what]:
                                facts += 1
                                try:
                                    ok = bool(evaluate(ax, env, ufs))
                                except Exception as e:  # noqa: BLE001
                                    ok = False
                                    print("cannot evaluate", ax, type(e).__name__, e)
                                if not ok:
                                    bad += 1
                                    print(f"GHOST FACT FALSE on a real network ({what} {o}): {ax!r}"[:400])
            # ---- 2. the spec terms against the real step
            c = Ctx([], None, name="conformance")
            ctxmod.CUR = c
            c.where.append("conformance:0")
            try:
                P = {kk: T.const(float(v)) for kk, v in params.items()}
                dl, ph = P.get("delta"), P.get("phi")
                lv = T.var("l", T.REF)
                iv = T.var("i", T.INT)
                rho_t = V.link_next_density_at(lv, iv, P["T"], T.FALSE)
                v_t = V.link_next_speed_at(lv, iv, P["tau"], P["eta"], P["kappa"], P["T"], dl, ph, T.FALSE)
                ov = T.var("o", T.REF)
                w_t = V.origin_next_queue(ov, P["T"], T.FALSE)
            finally:
                ctxmod.CUR = None
            for _, _, l in net.links:
                skip = False
                for i in range(l.N):
                    env = {"l": I.ref(l), "i": i}
                    try:
                        er, ev = evaluate(rho_t, env, ufs), evaluate(v_t, env, ufs)
                    except ZeroDivisionError:
                        skip = True
                        continue
                    gr, gv = float(l.next_states["rho"][i]), float(l.next_states["v"][i])
                    for nm, e_, g_ in (("rho", er, gr), ("v", ev, gv)):
                        values += 1
                        if not (math.isfinite(e_) and math.isfinite(g_)):
                            continue
                        # Hegyi is silent for a lane gain / a ramp at a pure source node: the prover states
                        # the speed postcondition only outside those cases
                        if nm == "v" and _dont_care(net, l, i, delta, phi):
                            continue
                        if not math.isclose(e_, g_, rel_tol=1e-8, abs_tol=1e-8):
                            bad += 1
                            print(f"SPEC != REAL CODE: next {nm}[{i}] of {l} spec {e_} real {g_} (delta={delta}, phi={phi})")
            for o in net.origins:
                if o.next_states:
                    values += 1
                    e_ = evaluate(w_t, {"o": I.ref(o)}, ufs)
                    g_ = float(np.ravel(o.next_states["w"])[0])
                    if math.isfinite(e_) and math.isfinite(g_) and not math.isclose(e_, g_, rel_tol=1e-8, abs_tol=1e-8):
                        bad += 1
                        print(f"SPEC != REAL CODE: next w of {o} spec {e_} real {g_}")
    print(f"ghost conformance: {nets} valid networks, {facts} ghost facts evaluated, {values} spec values compared, {bad} disagreements")
    return 1 if bad else 0


def _dont_care(net, l, i, delta, phi):
    import sym_metanet as sm

    up, down = net.nodes_by_link[l]
    if phi and i == l.N - 1:
        outs = list(net.out_links(down))
        if len(outs) == 1 and outs[0][2].lam > l.lam:
            return True
    if delta and i == 0 and up in net.origins_by_node and isinstance(net.origins_by_node[up], sm.MeteredOnRamp) and len(net.in_links(up)) == 0:
        return True
    return False


if __name__ == "__main__":
    sys.exit(main())
