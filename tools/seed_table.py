"""Markdown table of the seeded changes for DESIGN.md from the matrix runs in /verif/out"""
import json, os, re
def load(path):
    rows = {}
    if not os.path.exists(path):
        return rows
    for l in open(path):
        if "|" not in l or l.startswith("WARNING"):
            continue
        p = [x.strip() for x in l.split("|")]
        if len(p) >= 4:
            rows[p[0]] = p
    return rows
ded = load("/verif/out/seed_matrix_deductive_run1.txt")
ded.update(load("/verif/out/seed_matrix_deductive_run2.txt"))
ded.update(load("/verif/out/seed_matrix_deductive_run3.txt"))
ded.update(load("/verif/out/seed_matrix_deductive_run4a.txt"))  # (the latest complete run wins)
ded.update(load("/verif/out/seed_matrix_deductive_run4b.txt"))
ded.update(load("/verif/out/seed_matrix_deductive_run5.txt"))
full = load("/verif/out/seed_matrix_full.txt")
FULL4 = load("/verif/out/seed_matrix_full_run4.txt")  # full check, run only for the seeds the prover alone does not refute
FULL4.update(load("/verif/out/seed_matrix_full_run5.txt"))
full.update(FULL4)
print("| seed | change (needs) | prover alone (`--no-bounded`) | full check |")
print("|---|---|---|---|")
for sid in sorted(os.listdir("/verif/seeded")):
    m = json.load(open(f"/verif/seeded/{sid}/meta.json"))
    d = ded.get(sid)
    f = full.get(sid)
    if d and d[2] == "exit 1" and sid not in FULL4:
        f = d  # the full check runs the same prover first: a refuted obligation is reported whatever the stand-in finds
    def short(row):
        if not row:
            return "not run"
        ex, first = row[2], row[3]
        ob = re.search(r"failed obligation: (\S+?)(<[^>]*>)?::(\w+)\[(.*?)\](@| \()", first + " (")
        if ob:
            fn = ob.group(1).split(":")[-1]
            return f"{ex}: `{fn}::{ob.group(3)}[{ob.group(4)[:60]}]`"
        if "bounded" in first:
            return f"{ex}: bounded stand-in: {first.split(':',1)[1][:90].strip()}"
        if "UNDECIDED" in first:
            return f"{ex}: undecided ({first[-80:]})"
        return f"{ex} {first[:80]}"
    summ = (m.get("summary") or "")[:110].replace("|", "/")
    print(f"| {sid} | {summ} | {short(d)} | {short(f)} |")
