#!/bin/sh
# development tool: mutation campaign over the construction / validation / compilation strata
cd "$(dirname "$0")/.."
/venv/bin/python tools/mutation_campaign.py --max 70 --seed 11 --jobs 6 --files sym_metanet/network.py,sym_metanet/views.py,sym_metanet/util/funcs.py \
  --no-ab --mods construct_tasks,valid_tasks,compile_tasks,network_tasks --skip-funcs step,__str__,__repr__ --out out/mutation_campaign2.jsonl
/venv/bin/python tools/mutation_campaign.py --max 50 --seed 12 --jobs 6 --files sym_metanet/engines/casadi.py,sym_metanet/engines/core.py,sym_metanet/engines/__init__.py \
  --no-ab --mods compile_tasks,core_tasks --only-funcs to_function,_filter_vars,_gather_inputs,_gather_outputs,_add_parameters_to_inputs,_add_flows_to_outputs,use,get_current_engine,get_available_engines --out out/mutation_campaign2.jsonl
