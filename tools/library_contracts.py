"""Direct samples of the assumed library contracts (DESIGN.md 2.7) against the installed numpy,
CasADi and networkx: each line below is a fact the models in pyvc/arrays.py and
pyvc/libmodels/* rely on. Exit 1 if one of them does not hold for the installed library
("assumption refuted"), 0 otherwise.  Run by the checks (it takes well under a second)."""
import sys
import warnings

import casadi as cs
import networkx as nx
import numpy as np

FAILED = []


def fact(name, fn):
    try:
        ok = bool(fn())
    except Exception as e:  # noqa: BLE001
        ok = False
        name += f"  [{type(e).__name__}: {e}]"
    if not ok:
        FAILED.append(name)


def raises(exc, fn):
    try:
        with warnings.catch_warnings():
            warnings.simplefilter("error")
            fn()
    except exc:
        return True
    except Exception:  # noqa: BLE001
        return False
    return False


# ---- numpy ----------------------------------------------------------------------------------
a = np.arange(4.0)
fact("np: integer index of a 1-D array is an immutable numpy scalar", lambda: isinstance(a[0], np.floating) and not isinstance(a[0], np.ndarray))
fact("np: basic slice is a view onto the same buffer", lambda: a[1:].base is a)
fact("np: list index is a copy", lambda: a[[0, 2]].base is None or a[[0, 2]].base is not a)
fact("np: np.sum(1-D, 0) is a numpy scalar", lambda: isinstance(np.sum(a, 0), np.floating))
fact("np: np.sum(0-d, 0) and np.sum(np.float64, 0) return the value as a numpy scalar", lambda: np.sum(np.array(2.0), 0) == 2.0 and isinstance(np.sum(np.float64(2.0), 0), np.floating))
fact("np: arithmetic of 0-d arrays gives numpy scalars", lambda: isinstance(np.array(2.0) + 1.0, np.floating))
fact("np: ufuncs on python floats give numpy scalars", lambda: isinstance(np.minimum(1.0, 2.0), np.floating) and isinstance(np.exp(0.5), np.floating))
fact("np: a[i] = <array of shape (1,)> raises (numpy >= 2)", lambda: raises(Exception, lambda: np.zeros(3).__setitem__(0, np.array([1.0]))))
fact("np: a[i] = <0-d array> is accepted", lambda: (np.zeros(3).__setitem__(0, np.array(1.0)) is None))
fact("np: a[:1] -= x accepts 0-d, (1,) and float x", lambda: all((lambda b: (b.__setitem__(slice(0, 1), b[:1] - x), True)[1])(np.ones(3)) for x in (np.array(1.0), np.array([1.0]), 1.0)))


def _inplace_alias():
    b = np.ones(2)
    c_ = b
    c_ += 1
    return b[0] == 2.0


fact("np: += on an ndarray writes in place (aliases see it)", _inplace_alias)


def _scalar_iadd():
    b = np.ones(2)
    s = b[0]
    s += 5
    return b[0] == 1.0


fact("np: += on an indexed scalar rebinds (array unchanged)", _scalar_iadd)
fact("np: hstack of scalars and arrays is 1-D, in argument order", lambda: list(np.hstack((np.float64(1), np.array([2.0, 3.0]), 4.0, np.array(5.0)))) == [1, 2, 3, 4, 5])
fact("np: broadcasting (1,) with (N,)", lambda: (np.ones(1) * np.arange(3.0)).shape == (3,))
fact("np: truth value of an array with more than one element raises", lambda: raises(ValueError, lambda: bool(np.ones(2) < 2)))
fact("np: np.power(0.0, positive) = 0, np.power(-0.0, positive) = 0", lambda: np.power(0.0, 0.5) == 0 and np.power(-0.0, 0.5) == 0)
fact("np: np.zeros_like(1-D) / np.zeros(n) are fresh 1-D arrays of zeros of that length", lambda: (lambda b: (np.zeros_like(b).shape == b.shape and not np.zeros_like(b).any() and np.zeros_like(b).base is None and np.zeros(3).shape == (3,)))(np.arange(4.0)))
fact("np: np.shape(1-D) is its shape, np.zeros(np.shape(b)) a fresh array of that length; a[-1:] = x writes the last entry", lambda: (lambda b: np.shape(b) == b.shape and np.zeros(np.shape(b)).shape == b.shape and (lambda z: (z.__setitem__(slice(-1, None), 7.0), z[-1] == 7.0 and z[0] == 0.0)[1])(np.zeros(3)))(np.arange(4.0)))
fact("np: getattr(ndarray, 'ndim') is 1 for 1-D, 0 for 0-d and numpy scalars; python floats and casadi matrices have none", lambda: np.ones(2).ndim == 1 and np.array(1.0).ndim == 0 and np.float64(1.0).ndim == 0 and not hasattr(1.0, "ndim") and not hasattr(cs.SX.sym("x"), "ndim") and not hasattr(cs.DM(1), "ndim"))
fact("np: b[...] = v overwrites the whole array in place", lambda: (lambda b, c_: (b.__setitem__(Ellipsis, np.arange(3.0)), c_[2] == 2.0)[1])(*(lambda z: (z, z))(np.zeros(3))))
fact("np: np.full((n,), v) and np.empty((n,), float) have shape (n,)", lambda: np.full((3,), 2.0).shape == (3,) and np.empty((2,), float).shape == (2,))

# ---- casadi ------------------------------------------------------------------------------------
for ST in (cs.SX, cs.MX):
    x = ST.sym("x", 3)
    fact(f"cs {ST.__name__}: x[i] is 1x1, slices are (n,1)", lambda x=x: x[0].shape == (1, 1) and x[:-1].shape == (2, 1) and x[1:].shape == (2, 1))
    fact(f"cs {ST.__name__}: python numbers and 1x1 broadcast against (n,1)", lambda x=x, ST=ST: (2 * x).shape == (3, 1) and (ST.sym("a") * x).shape == (3, 1))
    fact(f"cs {ST.__name__}: mismatching lengths raise", lambda ST=ST: raises(Exception, lambda: ST.sym("p", 2) + ST.sym("q", 3)))
    fact(f"cs {ST.__name__}: sum1 is 1x1", lambda x=x: cs.sum1(x).shape == (1, 1))
    fact(f"cs {ST.__name__}: vcat of scalars/vectors/numbers is a column in argument order", lambda x=x, ST=ST: cs.vcat([x[0], 1.0, x[1:]]).shape == (4, 1))

    def _setitem(ST=ST):
        w = ST.sym("w", 2) * 2
        w0 = w
        w[0] -= 5
        return str(w0) == str(w)

    fact(f"cs {ST.__name__}: x[i] -= y writes into the python object (aliases see it)", _setitem)

    def _iadd(ST=ST):
        w = ST.sym("w", 2) * 2
        w0 = w
        w += 1
        return str(w0) != str(w)

    fact(f"cs {ST.__name__}: += rebinds (no aliasing)", _iadd)
    fact(f"cs {ST.__name__}: a pure symbol has n_dep() == 0, an expression has n_dep() > 0", lambda x=x: (x.n_dep() == 0 if isinstance(x, cs.MX) else all(x[i].n_dep() == 0 for i in range(3))) and (2 * x)[0].n_dep() > 0)
    fact(f"cs {ST.__name__}: Function raises RuntimeError on a free symbol", lambda ST=ST, x=x: raises(RuntimeError, lambda: cs.Function("F", [x], [x + ST.sym("free", 3)])))
    fact(f"cs {ST.__name__}: Function raises RuntimeError on a non-symbolic input", lambda x=x: raises(RuntimeError, lambda: cs.Function("F", [2 * x], [x])))
    fact(f"cs {ST.__name__}: Function accepts a stack of distinct symbols as one input", lambda ST=ST: cs.Function("F", [cs.vcat([ST.sym("a", 2), ST.sym("b")])], [ST.sym("z") * 0]).n_in() == 1)
    fact(f"cs {ST.__name__}: the truth value of a symbolic expression raises", lambda ST=ST: raises(Exception, lambda: bool(ST.sym("a") == 0)))
    fact(f"cs {ST.__name__}: if_else with an undefined unselected branch is finite", lambda ST=ST: np.isfinite(float(cs.Function("f", [ST.sym("s")], [cs.if_else(1 < 2, 1.0, cs.log(-1.0))])(0.0))))
sx = cs.SX.sym("rho", 12)
fact("cs SX: symvar(fmax(0, sym)) lists the entries of sym in their order", lambda: [s.name() for s in cs.symvar(cs.fmax(0, sx))] == [f"rho_{i}" for i in range(12)])
mx = cs.MX.sym("rho", 12)
fact("cs MX: symvar(fmax(0, sym)) is [sym]", lambda: len(cs.symvar(cs.fmax(0, mx))) == 1 and cs.symvar(cs.fmax(0, mx))[0].name() == "rho")
fact("cs: indexing a 1x1 matrix by [] gives 1x0, a longer column gives 0x1 (the quirk behind F9)", lambda: cs.SX.sym("y", 1)[[]].shape == (1, 0) and cs.SX.sym("y", 2)[[]].shape == (0, 1))
fact("cs: SX.sym(name, 0, 1) is 0x1 and vcat([]) is empty", lambda: cs.SX.sym("e", 0, 1).shape == (0, 1) and cs.vcat([]).numel() == 0)
fact("cs: list index copies (x[[1,3]] = ... scatters)", lambda: (lambda v: (v.__setitem__([1, 3], cs.SX([7, 9])), str(v) == "[v_0, 7, v_2, 9]")[1])(cs.SX.sym("v", 4) * 1))
fact("cs: power(0, positive) = 0 and power(-0.0, positive) = 0 numerically", lambda: float(cs.power(cs.DM(0.0), 0.5)) == 0 and float(cs.power(cs.DM(-0.0), 0.5)) == 0)

# ---- networkx -----------------------------------------------------------------------------------
g = nx.DiGraph()
g.add_node("a", origin=1)
g.add_edge("b", "c", link="L1")
g.add_edge("a", "b", link="L0")
g.add_edge("b", "c", link="L2")
fact("nx: node order is insertion order; add_edge creates missing nodes (source first)", lambda: list(g.nodes) == ["a", "b", "c"])
fact("nx: re-adding an edge updates its attributes and keeps the order", lambda: list(g.edges(data="link")) == [("a", "b", "L0"), ("b", "c", "L2")])
fact("nx: nodes[n] is the live attribute dict", lambda: (g.nodes["c"].__setitem__("destination", 5), g.nodes["c"]["destination"] == 5)[1])
fact("nx: add_node on an existing node merges attributes", lambda: (g.add_node("a", destination=3), g.nodes["a"] == {"origin": 1, "destination": 3})[1])
fact("nx: OutEdgeView.__call__ takes `default` keyword-only", lambda: raises(TypeError, lambda: nx.classes.reportviews.OutEdgeView(g)("b", "link", None)))
fact("nx: view(n, data) lists the edges at n with that attribute", lambda: list(nx.classes.reportviews.OutEdgeView(g)("b", "link", default=None)) == [("b", "c", "L2")]
     and list(nx.classes.reportviews.InEdgeView(g)("b", "link", default=None)) == [("a", "b", "L0")])
fact("nx: edge views are live", lambda: (lambda v: (g.add_edge("c", "a", link="L3"), len(list(v)) == 3)[1])(nx.classes.reportviews.OutEdgeView(g)))
fact("nx: OutEdgeView._nodes_nbrs yields (node, successor dict) in node order", lambda: [u for u, _ in nx.classes.reportviews.OutEdgeView(g)._nodes_nbrs()] == list(g.nodes))

print(f"library contracts: {len(FAILED)} of the sampled facts failed")
for f in FAILED:
    print("  REFUTED:", f)
sys.exit(1 if FAILED else 0)
