"""Number abstraction shared by the two interpretations of the spec functions:
symbolic (pyvc terms) and native (python floats, used by replay and the bounded stand-in)."""
import math

try:
    from pyvc import terms as _T
except Exception:  # native use without pyvc on the path
    _T = None


def _sym(*xs):
    return _T is not None and any(isinstance(x, _T.Term) for x in xs)


def smin(a, b):
    if _sym(a, b):
        return _T.smin(a, b)
    return a if a <= b else b


def smax(a, b):
    if _sym(a, b):
        return _T.smax(a, b)
    return a if a >= b else b


def sexp(x):
    if _sym(x):
        return _T.exp(x)
    return math.exp(x)


def slog(x):
    if _sym(x):
        return _T.log(x)
    return math.log(x)


def spow(x, y):
    if _sym(x, y):
        return _T.power(x, y)
    if x == 0 and y > 0:
        return 0.0
    return math.pow(x, y)


def ite(c, a, b):
    if _sym(c, a, b):
        return _T.ite(c, a, b)
    return a if c else b


def lt(a, b):
    if _sym(a, b):
        return _T.lt(a, b)
    return a < b


def le(a, b):
    if _sym(a, b):
        return _T.le(a, b)
    return a <= b
