"""The oracle: scalar, side-effect-free transcriptions of the METANET model of
Hegyi (2004), "Model predictive control for integrating traffic control measures", TRAIL,
equations 3.1-3.11, section 3.2.2 (nodes) and 3.3.3 (mainstream origin), and of the property
statements C11/C17/C18.  Written from the thesis and the property texts, not from the code.

Every function works on python floats and on pyvc terms alike (see specs/num.py).
The parameter lists *are* the allowed dependency footprints (C10).
"""
from .num import ite, le, lt, sexp, slog, smax, smin, spow


# ---- links ---------------------------------------------------------------------------------
def flow(rho, v, lam):
    """[H 3.1] q = rho * v * lambda"""
    return rho * v * lam


def next_density(rho, q, q_up, lam, L, T):
    """[H 3.2] rho+ = rho + T/(L*lambda) * (q_up - q)"""
    return rho + T / (L * lam) * (q_up - q)


def veq(rho, v_free, rho_crit, a):
    """[H 3.4] V(rho) = v_free * exp(-(1/a) * (rho/rho_crit)^a)"""
    return v_free * sexp(-(1 / a) * spow(rho / rho_crit, a))


def veq_vsl(rho, v_ctrl, alpha, v_free, rho_crit, a):
    """[H 3.11] V = min(V(rho), (1 + alpha) * v_ctrl) on a segment with a speed limit"""
    return smin(veq(rho, v_free, rho_crit, a), (1 + alpha) * v_ctrl)


def next_speed(v, v_up, rho, rho_down, V, L, tau, eta, kappa, T):
    """[H 3.3] relaxation + convection - anticipation"""
    return (
        v
        + T / tau * (V - v)
        + T / L * v * (v_up - v)
        - eta * T / (tau * L) * (rho_down - rho) / (rho + kappa)
    )


def merge_term(delta, T, q_ramp, v, L, lam, rho, kappa):
    """[H 3.7] speed drop caused by merging: delta*T*q_ramp*v / (L*lambda*(rho+kappa))"""
    return delta * T * q_ramp * v / (L * lam * (rho + kappa))


def lanedrop_term(phi, T, dlam, rho, v, L, lam, rho_crit):
    """[H 3.8] speed drop caused by a lane drop: phi*T*dlam*rho*v^2 / (L*lambda*rho_crit)"""
    return phi * T * dlam * rho * v * v / (L * lam * rho_crit)


# ---- nodes [H 3.2.2] -----------------------------------------------------------------------
def inflow_share(beta, sum_betas, total_inflow):
    """flow entering a leaving link: its turn rate over the sum of the turn rates of all links
    leaving the node, times the node's total inflow (entering last-segment flows + origin flow)"""
    return beta / sum_betas * total_inflow


def upstream_speed_weighted(sum_vq, sum_q):
    """[H 3.10] flow-weighted speed of the entering links"""
    return sum_vq / sum_q


def downstream_density_weighted(sum_rho2, sum_rho):
    """[H 3.9] sum(rho^2) / sum(rho) over the first segments of the leaving links"""
    return sum_rho2 / sum_rho


# ---- origins -------------------------------------------------------------------------------
def queue_next(w, d, q, T):
    """[H 3.2.1] w+ = w + T (d - q)"""
    return w + T * (d - q)


def space_term(rho_max, rho_first, rho_crit):
    return (rho_max - rho_first) / (rho_max - rho_crit)


def ramp_flow_in(d, w, C, r, rho_max, rho_first, rho_crit, T):
    """[H 3.5] q = min(d + w/T, C * min(r, (rho_max - rho_1)/(rho_max - rho_crit)))"""
    return smin(d + w / T, C * smin(r, space_term(rho_max, rho_first, rho_crit)))


def ramp_flow_out(d, w, C, r, rho_max, rho_first, rho_crit, T):
    """[H 3.6] q = r * min(d + w/T, C * min(1, (rho_max - rho_1)/(rho_max - rho_crit)))"""
    return r * smin(d + w / T, C * smin(1, space_term(rho_max, rho_first, rho_crit)))


def simplified_ramp_flow(qdes, d, w, C, rho_max, rho_first, rho_crit, T):
    """limited simplified ramp: the desired flow, limited by demand+queue and by capacity/space"""
    return smin(qdes, smin(d + w / T, C * smin(1, space_term(rho_max, rho_first, rho_crit))))


def mainstream_flow_hegyi(d, w, v_ctrl, v_first, rho_crit, a, v_free, lam, T):
    """[H 3.3.3] q = min(d + w/T, q_lim), v_lim = min(v_ctrl, v_1),
    q_lim = lam*v_lim*rho_crit*(-a ln(v_lim/v_free))^(1/a) if v_lim < V(rho_crit) else lam*V(rho_crit)*rho_crit"""
    v_lim = smin(v_ctrl, v_first)
    V_crit = veq(rho_crit, v_free, rho_crit, a)
    q_speed = lam * v_lim * rho_crit * spow(-a * slog(v_lim / v_free), 1 / a)
    q_cap = lam * V_crit * rho_crit
    return smin(d + w / T, ite(lt(v_lim, V_crit), q_speed, q_cap))


def mainstream_flow_guarded(d, w, v_ctrl, v_first, rho_crit, a, v_free, lam, T):
    """the same with the log argument clamped to [0.05, 1] (EngineSpec: what both engines
    implement; differs from Hegyi only for 0 < v_lim < 0.05 v_free, known finding KF1)"""
    v_lim = smin(v_ctrl, v_first)
    V_crit = veq(rho_crit, v_free, rho_crit, a)
    ratio = smax(0.05, smin(1.0, v_lim / v_free))
    q_speed = lam * v_lim * rho_crit * spow(-a * slog(ratio), 1 / a)
    q_cap = lam * V_crit * rho_crit
    return smin(d + w / T, ite(lt(v_lim, V_crit), q_speed, q_cap))


# ---- destinations --------------------------------------------------------------------------
def dest_free(rho_last, rho_crit):
    return smin(rho_last, rho_crit)


def dest_congested(rho_last, rho_dest, rho_crit):
    return smax(smin(rho_last, rho_crit), rho_dest)


# ---- positivity [C11] ----------------------------------------------------------------------
def clamp0(x):
    return smax(0, x)
