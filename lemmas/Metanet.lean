/-
Analytic lemmas imported by the SMT side of the verifier as named hypothesis instances
(pyvc/vc.py: transcendental_lemmas; contracts/lemma_tasks.py: fd_max_instance) and the
finite-sum regrouping behind C02 / C14.  Checked with `lean lemmas/Metanet.lean`
(Lean 4.33 + Mathlib); `#print axioms` must list only propext, Classical.choice, Quot.sound.

Correspondence (by hand, listed as an assumption in every evidence file):
  uexp x  <->  Real.exp x      ulog x  <->  Real.log x      upow x y  <->  x ^ y  (Real.rpow)
-/
import Mathlib
open Real Finset

namespace Metanet

/-! ### facts about exp / log / rpow used as instances -/

theorem exp_pos' (x : ℝ) : 0 < Real.exp x := Real.exp_pos x
theorem exp_le_one_of_nonpos (x : ℝ) (h : x ≤ 0) : Real.exp x ≤ 1 := by
  simpa using Real.exp_le_exp.mpr h |>.trans_eq Real.exp_zero
theorem one_le_exp_of_nonneg (x : ℝ) (h : 0 ≤ x) : 1 ≤ Real.exp x := by
  simpa using Real.exp_zero.symm.le.trans (Real.exp_le_exp.mpr h)
theorem exp_mono' (x y : ℝ) (h : x ≤ y) : Real.exp x ≤ Real.exp y := Real.exp_le_exp.mpr h
theorem log_one' : Real.log 1 = 0 := Real.log_one
theorem log_nonpos' (x : ℝ) (h0 : 0 < x) (h1 : x ≤ 1) : Real.log x ≤ 0 := Real.log_nonpos h0.le h1
theorem log_nonneg' (x : ℝ) (h : 1 ≤ x) : 0 ≤ Real.log x := Real.log_nonneg h
theorem log_mono' (x y : ℝ) (hx : 0 < x) (h : x ≤ y) : Real.log x ≤ Real.log y := Real.log_le_log hx h
theorem rpow_nonneg' (x y : ℝ) (h : 0 ≤ x) : 0 ≤ x ^ y := Real.rpow_nonneg h y
theorem zero_rpow' (y : ℝ) (h : 0 < y) : (0:ℝ) ^ y = 0 := Real.zero_rpow h.ne'
theorem one_rpow' (y : ℝ) : (1:ℝ) ^ y = 1 := Real.one_rpow y
theorem rpow_pos' (x y : ℝ) (h : 0 < x) : 0 < x ^ y := Real.rpow_pos_of_pos h y
theorem rpow_mono' (x z y : ℝ) (hx : 0 ≤ x) (h : x ≤ z) (hy : 0 ≤ y) : x ^ y ≤ z ^ y :=
  Real.rpow_le_rpow hx h hy

/-- fundamental-diagram maximum: for a speed ratio x in (0,1], x * (-a ln x)^(1/a) ≤ exp(-1/a) -/
theorem fd_max (a x : ℝ) (ha : 0 < a) (hx0 : 0 < x) (hx1 : x ≤ 1) :
    x * (-a * Real.log x) ^ (1 / a) ≤ Real.exp (-1 / a) := by
  have hlog : Real.log x ≤ 0 := Real.log_nonpos hx0.le hx1
  set t := -a * Real.log x with ht
  have ht0 : 0 ≤ t := by
    have : 0 ≤ a * (-Real.log x) := mul_nonneg ha.le (by linarith)
    linarith [this]
  rcases ht0.eq_or_lt with h | h
  · rw [← h]
    have : (0:ℝ) ^ (1 / a) = 0 := Real.zero_rpow (by positivity)
    rw [this]; simp; positivity
  · have hx : x = Real.exp (-t / a) := by
      have : -t / a = Real.log x := by rw [ht]; field_simp
      rw [this, Real.exp_log hx0]
    have hpow : t ^ (1 / a) = Real.exp (Real.log t * (1 / a)) := by
      rw [Real.rpow_def_of_pos h]
    rw [hpow]
    nth_rewrite 1 [hx]
    rw [← Real.exp_add]
    apply Real.exp_le_exp.mpr
    have key : Real.log t ≤ t - 1 := Real.log_le_sub_one_of_pos h
    have : -t / a + Real.log t * (1 / a) = (Real.log t - t) / a := by ring
    rw [this]
    rw [div_le_div_iff_of_pos_right ha]
    linarith

variable {Link Node : Type} [Fintype Link] [Fintype Node] [DecidableEq Node]

/-- Network-wide vehicle balance (C02) from the per-link telescoped balance
    (lemma "link balance" of contracts/lemma_tasks.py) and the per-node flow balance
    (lemma "node balance"): `dveh m` is the change of vehicles in link m, `qfirst m` the flow
    entering its first segment, `qlast m` the flow leaving its last segment, `qo n` the origin
    flow at node n, `hasOut n` whether links leave n (nodes without leaving links are the
    destinations' nodes). -/
theorem network_balance
    (up down : Link → Node) (qfirst qlast dveh : Link → ℝ) (T : ℝ) (qo : Node → ℝ)
    (hasOut : Node → Prop) [DecidablePred hasOut]
    (hlink : ∀ m, dveh m = T * (qfirst m - qlast m))
    (hnode : ∀ n, hasOut n →
        ∑ m ∈ univ.filter (fun m => up m = n), qfirst m
          = ∑ m ∈ univ.filter (fun m => down m = n), qlast m + qo n)
    (hnoout : ∀ n, ¬ hasOut n → (∑ m ∈ univ.filter (fun m => up m = n), qfirst m) = 0 ∧ qo n = 0) :
    ∑ m, dveh m
      = T * (∑ n, qo n
             - ∑ n ∈ univ.filter (fun n => ¬ hasOut n),
                 ∑ m ∈ univ.filter (fun m => down m = n), qlast m) := by
  have h1 : ∑ m, qfirst m = ∑ n, ∑ m ∈ univ.filter (fun m => up m = n), qfirst m :=
    (Finset.sum_fiberwise univ up qfirst).symm
  have h2 : ∑ m, qlast m = ∑ n, ∑ m ∈ univ.filter (fun m => down m = n), qlast m :=
    (Finset.sum_fiberwise univ down qlast).symm
  have h3 : ∀ n, ∑ m ∈ univ.filter (fun m => up m = n), qfirst m
      = (if hasOut n then ∑ m ∈ univ.filter (fun m => down m = n), qlast m else 0) + qo n := by
    intro n
    by_cases h : hasOut n
    · simp [h, hnode n h]
    · have := hnoout n h
      simp [h, this.1, this.2]
  have h4 : ∑ n, (if hasOut n then ∑ m ∈ univ.filter (fun m => down m = n), qlast m else 0)
      = ∑ n, ∑ m ∈ univ.filter (fun m => down m = n), qlast m
        - ∑ n ∈ univ.filter (fun n => ¬ hasOut n), ∑ m ∈ univ.filter (fun m => down m = n), qlast m := by
    rw [Finset.sum_filter]
    rw [← Finset.sum_sub_distrib]
    apply Finset.sum_congr rfl
    intro n _
    by_cases h : hasOut n <;> simp [h]
  calc ∑ m, dveh m = ∑ m, T * (qfirst m - qlast m) := by simp [hlink]
    _ = T * (∑ m, qfirst m - ∑ m, qlast m) := by rw [← Finset.mul_sum, Finset.sum_sub_distrib]
    _ = _ := by
      rw [h1, h2]
      simp_rw [h3]
      rw [Finset.sum_add_distrib, h4]
      ring

/-- the sum over any duplicate-free enumeration of a finite set equals the set sum: the
    adjacency-order sums of the code are the order-free sums of the specs (C14) -/
theorem sum_enum {α : Type} [DecidableEq α] (l : List α) (hl : l.Nodup) (f : α → ℝ) :
    (l.map f).sum = ∑ x ∈ l.toFinset, f x := by
  rw [List.sum_toFinset f hl]

/-- two duplicate-free enumerations of the same set give the same sum -/
theorem sum_perm {α : Type} [DecidableEq α] (l₁ l₂ : List α) (h₁ : l₁.Nodup) (h₂ : l₂.Nodup)
    (hs : l₁.toFinset = l₂.toFinset) (f : α → ℝ) : (l₁.map f).sum = (l₂.map f).sum := by
  rw [sum_enum l₁ h₁ f, sum_enum l₂ h₂ f, hs]

/-- two flat-maps over the same list whose per-item pieces have equal lengths have equal length;
    applied to every prefix of the element list this gives equal offsets: result k of the compiled
    function sits at the position of state argument k (C04, closing induction of
    contracts/layout_tasks.py) -/
theorem flatMap_length_congr {α β γ : Type} (l : List α) (f : α → List β) (g : α → List γ)
    (h : ∀ a ∈ l, (f a).length = (g a).length) : (l.flatMap f).length = (l.flatMap g).length := by
  induction l with
  | nil => simp
  | cons a t ih =>
    simp only [List.flatMap_cons, List.length_append]
    rw [h a (by simp), ih (fun b hb => h b (by simp [hb]))]

/-- a term of a sum of non-negative terms is at most the sum (lemma:sum-membership, S1; C06) -/
theorem term_le_sum_range (f : ℕ → ℝ) (hf : ∀ j, 0 ≤ f j) (n i : ℕ) (hi : i < n) :
    f i ≤ ∑ j ∈ Finset.range n, f j :=
  Finset.single_le_sum (fun j _ => hf j) (Finset.mem_range.mpr hi)

/-- a positive sum has a positive term (lemma:sum-membership, S2; C06) -/
theorem exists_pos_of_sum_range_pos (f : ℕ → ℝ) (n : ℕ) (h : 0 < ∑ j ∈ Finset.range n, f j) :
    ∃ i, i < n ∧ 0 < f i := by
  by_contra hc
  simp only [not_exists, not_and, not_lt] at hc
  have : ∑ j ∈ Finset.range n, f j ≤ 0 :=
    Finset.sum_nonpos (fun j hj => hc j (Finset.mem_range.mp hj))
  linarith

end Metanet

#print axioms Metanet.fd_max
#print axioms Metanet.network_balance
#print axioms Metanet.sum_perm
#print axioms Metanet.flatMap_length_congr
#print axioms Metanet.exists_pos_of_sum_range_pos
